"""Per-property metadata used by ./check (engines, budgets) and by tools/gen_manifest.py."""

NC = 16

def rel(budget, shards=NC, **kw):
    return dict(engine="native-rel", shards=shards, budget=budget, **kw)

META = {
    "C19": dict(
        level="exploration",
        technique="runtime monitoring: exhaustive f32 sweeps + dense boundary-biased sampling of the public conversion functions against independent f64 oracles",
        design_ref="DESIGN.md §3 C19",
        rule=("Decibels::as_amplitude and Frame::panned are walked over f32 bit patterns in numeric order (thorough: all 2^32, "
              "quick: every 61st plus +-2048 neighbours of each boundary); semitones, clock speeds, ClockTime (+,- with u64/f64, "
              "ordering, constructors), easings (via Mapping::map, 0->0, 1->1, monotone on a grid) and Mapping clamping are sampled "
              "with boundary-biased generators. A case is distinct and non-trivial when its (function, sign/exponent class of the "
              "input, operation, boundary class) key is new and the input is not NaN."),
        exhaustive_thorough=True,
        exhaustive_quick=False,
        domain="all f32 bit patterns for decibels/panning (NaN inputs counted, not judged); ticks <= 2^53, fractions within 1 ulp of 0 and 1; easing powers powi 1..8, powf 0.1..8; mapping ranges with input_range.0 != input_range.1",
        assumptions=["f64 powf/sqrt of the Rust std library as reference", "tolerance for as_amplitude is the f32 conditioning bound eps*(2+|dB/20|*ln10)",
                     "exhaustive:true refers to the two f32 sweeps (thorough tier); the f64 domains are sampled"],
        quick=[rel(20)],
        thorough=[rel(600)],
        level_text="Every f32 input of the two f32 functions is evaluated (thorough) and judged by an oracle; f64 domains are sampled densely with boundary bias. Exploration, not proof: the f64 spaces are not enumerable.",
        level_note="Trusts the harness oracles (f64 reference arithmetic) and that release-build float semantics equal the user's build.",
    ),
}
