"""Per-property metadata used by ./check (engines, budgets) and by tools/gen_manifest.py."""

NC = 16

def rel(budget, shards=NC, **kw):
    return dict(engine="native-rel", shards=shards, budget=budget, **kw)

META = {
    "C01": dict(
        level="exploration",
        technique="runtime monitoring + sanitizers: generated scenario programs over the whole public API executed on the real manager/renderer with a counting allocator armed inside callbacks, panic recorder, thread-CPU-time watchdog, output scanner and lock-step channel-law comparison; repeated under overflow checks, AddressSanitizer and Miri",
        design_ref="DESIGN.md §3 C01",
        rule=("Random scenario programs (30-300 ops): configuration (capacities 1..128, internal buffer 1..1024, 6 sample rates, 1..8 channels, main-track effects); clocks, listeners, tweener/LFO modulators, send tracks, plain/spatial/nested tracks with chains of all 8 effects (incl. nested delays) and send routes; "
              "static sounds (length 0..5000, slices, loops, reverse, start positions incl. out of range, rates/volumes/pannings fixed or linked to modulators or listener distance, fade-in, delayed/clock start) and streaming sounds; every handle command with random tweens (zero duration, all easings, immediate/delayed/clock start); "
              "effect-handle setters; handle drops; sample-rate changes; callbacks of arbitrary sizes. Sources are full-scale noise so sums exceed +-1. Monitors on every callback: 0 allocation/free events on the audio thread, no panic, <= 5 s thread CPU time (hang), every sample finite and in [-1,1], channels >= 2 silent, "
              "and (programs without streaming sounds) a second rig with 1 or 3..8 channels run in lock-step: mono == (L+R)/2 and first two channels == stereo, bit-exact. A program is distinct and non-trivial when its (set of op kinds, buffer size, sample rate, channels) is new and it produced non-zero output. Spatial emitters are sometimes placed exactly on an ear of their listener. Start delays include Duration::MAX, u64::MAX seconds and 10^9 s."),
        domain="D0 U B of DESIGN.md 2.3; excluded while listed as known findings: distortion drive <= -60 dB, delays shorter than one frame at 8 kHz, reverse with start >= length, SecondsPerTick(0); not generated (diverge by construction): loop gains > 0 dB, expander ratios < 0.25, seek targets beyond 10 s, spatial min >= max distance",
        assumptions=["single-threaded deterministic histories (commands between callbacks); concurrent interleavings are C05/C07/C08's subject", "the CPU-time bound detects hangs and gross overruns, not missed audio deadlines"],
        quick=[rel(30), dict(engine="native-dev", shards=16, budget=12)],
        thorough=[rel(900), dict(engine="native-dev", shards=16, budget=300), dict(engine="asan", shards=16, budget=300), dict(engine="miri", shards=16, budget=240, parallel=16)],
        level_text="Monitors and sanitizers observing ~10^4 (quick) / 10^6 (thorough) generated programs of the real library, native + overflow-checked + ASan + Miri builds; exploration of an unbounded program space.",
        level_note="Trusts the counting global allocator (armed per thread), the panic hook and /proc thread CPU accounting; Miri runs small programs only (cost).",
    ),
    "C02": dict(
        level="exploration",
        technique="runtime monitoring: probe Sound/Effect implementations (known per-frame signals, affine order-sensitive effects, call logs) through the real AudioManager/Renderer, compared per frame with an independent f64 model of the documented signal flow; thorough tier repeats the workload in an overflow-checked build",
        design_ref="DESIGN.md §3 C02",
        rule=("Random histories (12-40 callbacks of random sizes 1..3*ibs+5, internal buffer 1..333, 4 sample rates): add top-level and nested tracks (depth <= 4) with 0-2 affine probe effects, random send routes and volumes; play/stop probe sounds on any track or the main track; "
              "pause/resume tracks, set track/main volumes (instant tweens), drop tracks (with subtree) and send tracks. Every callback: each live, un-paused probe must be asked for exactly the callback's frames in slices <= ibs with dt == 1/sr (paused/removed ones for 0 frames); "
              "every output frame must equal the documented sum (sound -> effects in order -> x track volume -> parent and send routes -> send effects x send volume -> main effects x main volume) within 2e-5 x sum|contributions|, and exactly 0 when nothing is routed. "
              "Callbacks in which a resume or volume change takes hold contain a one-chunk ramp and are not compared sample-exactly (counted separately). A case is distinct when (tree/send shape, ibs, sample rate, history length) is new and >= 1 frame was compared. Track volumes include -60 dB and below (a silent track still runs everything beneath it); send-route volumes change with tweens of 0..3 buffers, also on paused tracks. A track's handle may be dropped alone (children kept): the track stays, and keeps sounding, until every track beneath it that the audio thread holds has lost its handle too. Ramp cases: the volume of the sub-track, its send route, the send track or the main track moved with a linear tween while callbacks of arbitrary sizes are rendered; every frame compared with previous + (current - previous)(i+1)/n in dB over each chunk's own n frames (a route applies its end-of-chunk value), 3e-5 relative. The ramps use every easing curve (reference curves of C06); afterwards the same volume is linked through its handle, with a tween, to a tweener modulator, and must follow the modulator when it moves after that tween has ended."),
        domain="volumes -18..+3 dB, affine effects gain {1,0.5,-0.75,1.25,0.9} offset 0 or +-0.003, up to 3 sends; one pause-or-resume per track per callback interval (cross-kind ordering within an interval is C07's subject)",
        assumptions=["removal timing follows the rule stated in C08: next callback if already picked up, the one after otherwise", "built-in non-linear effects are covered by C13/C14"],
        quick=[rel(25)],
        thorough=[rel(900), dict(engine="native-dev", shards=16, budget=120)],
        level_text="Per-frame comparison of the real mixer against an independent model over ~4x10^4 (quick) / 10^6 (thorough) random track/send/sound histories; exploration.",
        level_note="Trusts the harness model of the documented signal flow and the probe implementations of the public Sound/Effect traits.",
    ),
    "C03": dict(
        level="exploration",
        technique="runtime monitoring: online trace-specification monitor of handle.state()/position()/track.num_sounds() and the gain of a DC sound after every callback, for command sequences enumerated exhaustively to a depth bound and generated randomly beyond; thorough tier repeats the workload in an overflow-checked build",
        design_ref="DESIGN.md §3 C03",
        rule=("A DC sound (static; 8 % of random cases streaming) on a capacity-1 sub-track, one internal buffer per callback. Exhaustive part: every command sequence up to depth 3 (quick) / 4 (thorough) over the alphabet {pause, resume, stop, resume_at(delayed), resume_at(clock)} x fade {0, 0.5, 1, 2.5 chunks} + "
              "{resume_at(delayed 0), resume_at(clock that no longer exists), seek_to, seek_by, set_volume, set_playback_rate} x issue gap {0,1,3 callbacks}, every 5th on a finite sound. Random part: up to 40 commands with random fades/delays, fade-in, delayed start, finite sounds, streaming sounds. "
              "Monitor rules per callback: the reported state must be in the set the documented life cycle allows (fade-driven steps complete when their tween completes +-1 callback; clock-scheduled resumes leave WaitingToResume exactly in the buffer in which the observed clock reaches the time; a missing clock cancels to Stopped; Stopped absorbs); "
              "exact silence and frozen position across callbacks spent entirely in Paused/WaitingToResume/Stopped; exactly unity gain when steadily Playing, monotone gain inside fades, gain within [0, unity]; Stopped sounds unloaded at the next callback (num_sounds) and the slot reusable; finite sounds reach Stopped within a frame bound. "
              "A case is distinct and non-trivial when its observed state trace is new and contains a transition. Additional cases: a streaming sound whose decoder delivers nothing still completes pause/resume/stop fades and is unloaded; after several playback-state commands in one interval the state only moves by fades completing; a clock start time (own or resume_at) on a clock that is not running (never started, paused past the time, stopped) keeps the sound silent / WaitingToResume until the clock is started; a sound on a paused sub-track (or on a child of one) still acknowledges pause/resume/stop at the next callback and a Stopped one is still unloaded, with callbacks of 1-3 buffers. A third of the cases run on a device whose internal buffer is three callbacks long (every callback a short chunk): fades, delays, positions and the clock are still counted in the frames actually rendered. Fades use every easing curve (the enumeration cycles through five, random cases draw any); a quarter of the random cases give resume() a fade-in tween whose own start is delayed: Resuming at once, Playing when the delayed fade has ended."),
        exhaustive_quick=True,
        exhaustive_thorough=True,
        domain="at most one state command per callback interval (cross-kind ordering inside one interval is C07's subject); fades 0..6 chunks, delays 0..5 chunks",
        assumptions=["exhaustive:true refers to the enumeration of all command sequences up to the stated depth over the stated alphabet", "the most recent command wins until Stopped (kira lets pause/resume override a running Stopping); only Stopped is required to be final"],
        quick=[rel(30)],
        thorough=[rel(1500), dict(engine="native-dev", shards=16, budget=120)],
        level_text="Online trace monitor over every command sequence up to a depth bound plus ~10^5..10^6 random deep sequences on the real sounds through the real mixer; exploration beyond the bound.",
        level_note="Trusts the harness life-cycle automaton (written from the documentation) and the observation that one callback == one internal chunk in this rig.",
    ),
    "C04": dict(
        level="exploration",
        technique="runtime monitoring: index-coded source frames with poison outside the slice, real Box<dyn Sound> from StaticSoundData::into_sound driven with MockInfoBuilder; independent transport + Hermite oracle; local successor/seek-landing trace monitor for commands; thorough tier repeats the workload in an overflow-checked build",
        design_ref="DESIGN.md §3 C04",
        rule=("(1) Exhaustive for total length 0..5 (quick) / 0..7 (thorough): every slice, start position 0..len+1, loop region start<end<=len or none, reverse on/off, rates {1,-1,0.5,2,1.5,0.37,-0.6}, chunk sizes {1,3,len+2}, device/sound rate pairs; "
              "(2) random lengths up to 1e5 with random slices, loops (incl. loop end == length, start inside/after the loop), rates, rate pairs; (3) long sounds at rate 1 with seek_to/seek_by/set_loop_region at random callback boundaries. "
              "Oracles: bit-exact index sequence at |rate|*sound_rate*dt == 1; 4-point Hermite of the model sequence at the f64-accumulated position otherwise (8e-6 relative); any sample >= 2.5e5 is an out-of-slice read; Stopped not before the last frame was heard and reported by the callback containing sequence index last+4; "
              "after commands every consecutive heard pair obeys the loop successor rule, seeks land within one frame of the request once the 4-frame window has refilled, reported position within one frame of the heard frame. "
              "A case is distinct and non-trivial when its expected index sequence (first 64) x rate x chunk class x rate-pair class is new and non-empty. Command cases also run on slices of longer buffers with open-ended run-time loop regions (a looping sound must not stop); slices may extend past the audio data; a reversed sound above its loop is seeked to frames at or after the loop end. The slice is given in one of the equivalent ways: the field, .slice(a..b), a second .slice() replacing an earlier one, and the open-ended a.. when it ends at the end of the data. A loop that runs to the end of the sound is given, every other time, in its open-ended form (.. / a..). While playback is inside a loop, seek_to a frame outside it (before the loop start or at/after the loop end; in half of the cases an exact multiple of the loop length away): the landing frame is the target carried into the loop by whole loop lengths, and a looping sound never reports Stopped, a pending seek included."),
        exhaustive_quick=True,
        exhaustive_thorough=True,
        domain="valid slices (start<=end<=frames), loop regions with start<end<=len; degenerate regions belong to C01; excluded while listed as known finding: reverse with start position >= length",
        assumptions=["exhaustive:true refers to part (1), the enumeration of all small cases up to the stated length bound; parts (2),(3) are sampled",
                     "index codes are exact in f32 up to 2^24", "reverse playback measures the start position from the end (kira's documented test behaviour)"],
        quick=[rel(30)],
        thorough=[rel(900), dict(engine="native-dev", shards=16, budget=120)],
        level_text="Complete enumeration of all small static-sound configurations up to a length bound against an independent transport/interpolator oracle, plus random large cases and command histories under a local trace monitor. Exploration: lengths beyond the bound are sampled.",
        level_note="Trusts the harness transport model (written from the property text) and the Hermite reference; MockInfoBuilder info; position/seek checks allow the 4-frame look-ahead window the property mentions.",
    ),
    "C05": dict(
        level="exploration",
        technique="runtime monitoring: reference-sum monitor for clock time, chunk-boundary oracle for clock-scheduled events, and a history checker for ClockHandle::time() reads under a controlled scheduler that enumerates reader/audio-thread interleavings at hook granularity (plus random schedules)",
        design_ref="DESIGN.md §3 C05",
        rule=("Monitor 1 (exact time): random clocks (3 speed units), histories of start/pause/stop/set_speed with immediate and other-clock-scheduled tweens (all easings, zero duration), random callback partitions; after every callback the handle time must lie in the reference interval sum(speed x chunk time) "
              "(1e-9 for constant speed; for tweens the interval spanned by the speed at the chunk's boundaries, interpolated in the target's unit), paused clocks bit-identical, stopped clocks zero, ticking() correct. "
              "Monitor 2 (scheduling): a sound start, a volume tween start or a resume_at scheduled for a whole or fractional clock time; the event must begin exactly at the first frame of the internal buffer during which the clock (model: constant speed, start delay, pause window) reaches the time - never later, never while paused or short of it; a dropped clock cancels the waiting sound within 3 callbacks. "
              "Monitor 3 (handle reads): audio thread running callbacks vs a thread calling time() (and stop()), parked at the hooks between the two stores / two loads; all interleavings enumerated depth-first for (callbacks x reads) up to 2x2 (quick) / 3x3 (thorough) plus random schedules of 6x6; every read must equal a value published before or during it and reads must not go backwards while the clock runs. "
              "A case is distinct when its history class / schedule trace is new. Also stop()+start() and pause()+start() within one interval, and a clock whose speed is mapped from a moving modulator (same-chunk value). Under Miri / TSan the depth-first enumeration is additionally bounded by the shard's time budget (what was not reached is reported as not enumerated). Monitor 2b: a clock that counted 2^53..2^62 ticks in one buffer and then moves 1/8..1/2 tick per buffer; a sound scheduled 1-3 ticks ahead begins in the buffer in which the clock (read back from the handle, compared ticks first, then fraction) reaches that tick, at most one buffer early. Monitor 2c: tweener-modulator transitions scheduled with a delay, on a running clock and on an idle clock (oracle shared with C17). Monitor 1 also issues bursts of two or three start/pause/stop calls between two callbacks in every order: the last call decides whether the clock ticks, a stop anywhere in the burst resets the time."),
        domain="speeds 0.5..3000 ticks/s; excluded while listed as known findings: tweens scheduled on the clock's own time (monitor 1); torn reads are counted and reported as the known finding, any other unexplained read is a violation",
        assumptions=["interleavings are enumerated at hook granularity (between the atomic operations of ClockShared); the operations themselves are atomic", "the other-clock start of a speed tween may be observed one chunk early or late depending on clock update order (modelled as an interval)"],
        quick=[rel(30)],
        thorough=[rel(900), dict(engine="tsan", shards=4, budget=120), dict(engine="miri", shards=8, budget=200, parallel=8)],
        level_text="Reference-model and history-checking monitors over ~10^4..10^6 generated histories plus exhaustive enumeration of reader/writer interleavings at hook granularity for small bounds; exploration.",
        level_note="Trusts the harness clock model (constant speed / interval for tweens), the hook placement in ClockShared, and the scheduler (one thread runs at a time).",
    ),
    "C06": dict(
        level="exploration",
        technique="runtime monitoring: trace-specification monitor over kira::Parameter / tweener modulator driven with MockInfoBuilder, independent easing oracle; end-to-end gain envelopes through the renderer; thorough tier repeats the workload in an overflow-checked build",
        design_ref="DESIGN.md §3 C06",
        rule=("Random scenarios: tweenable type (f64,f32,Decibels,Panning,PlaybackRate,Semitones,Mix,Vec3,Duration,ClockSpeed x3 units,Quat) or the tweener modulator; "
              "1-3 overlapping set() calls with duration {0, < one update, == one update, random}, every easing kind (powi 1..8, powf 0.1..8), start Immediate/Delayed(0)/Delayed/ClockTime (mock clock advancing, optionally paused before the target)/missing clock; "
              "random update partitions (uniform, jittered, with 20x outliers, with microsecond steps). After every update the monitor checks: old value kept bit-exactly before the start instant; exact law start+(target-start)*ease(elapsed/duration) "
              "for immediate starts; value within the [ref(tau-one update), ref(tau+one update)] interval for delayed/clock starts; == target from the end on; never outside [start,target]; previous_value()==last value(); interpolated_value(0/1) endpoints; "
              "retarget starts from the current value. Plus coarse-vs-fine partition comparison and DC-sound gain envelopes through AudioManager. A case is distinct and non-trivial when (type, easing kind, start kind, duration class, number of sets) is new and target != start."),
        domain="values in documented ranges (dB -80..24, panning +-1, rate +-16, speeds 0.05..500 ticks/s), durations 0..~10 s quantised to ns as the Duration API does, positive easing powers",
        assumptions=["reference easing curves written independently from the Easing documentation", "timing slack of one update either side of the start instant for delayed/clock starts, as the property allows",
                     "ClockSpeed values are compared as physical speed (ticks/s), tolerance 1e-11 relative"],
        quick=[rel(25)],
        thorough=[rel(600), dict(engine="native-dev", shards=16, budget=120)],
        level_text="Online monitor over ~10^5 (quick) / 10^7 (thorough) generated tween histories of the real Parameter/Tweener code with an independent oracle; exploration of an unbounded input space, not a proof.",
        level_note="Trusts the harness reference easing implementation and the MockInfoBuilder-provided clock info as a faithful stand-in for real clocks (C05 covers the real ones).",
    ),
    "C07": dict(
        level="exploration",
        technique="runtime monitoring: history checker (register-with-consume linearizability, unique self-checking payloads) over a probe channel built on the public kira::command module, explored under a controlled scheduler (all write/read orders) and as free-running two-thread stress (also under ThreadSanitizer and Miri); plus a table-driven monitor of every real command kind",
        design_ref="DESIGN.md §3 C07",
        rule=("Monitor A: writer thread issuing w self-checking 64-byte commands with unique sequence numbers, reader thread reading r times (+ one read after the writer stopped), with and without writes before the first read; all interleavings at write/read granularity enumerated for w,r <= 4 (quick) / 6 (thorough); "
              "free-running stress with random spin delays (1.6M writes quick). Checker: every delivered value has a valid checksum and was written; sequence numbers strictly increase; a read returns the newest command completely written before it began (or one written during it), None only if nothing newer was completely written; the last command is delivered after the writer stops. "
              "Monitor B: for each of the 65 command kinds in the table (static 9, streaming 9 incl. the 3 decoder-side ones, sub/spatial track, send, main, listener 2, clock 3, LFO 5, tweener 1, filter 4, EQ 4, delay 2, distortion 3, reverb 4, compressor 6, volume/panning control) with three distinguishable settings: "
              "issued once -> the observable (output level L/R, position, state, clock time) equals that of a reference scene built with / commanded to that setting; for instantaneous kinds already within the very next callback, also when written before the resource's first callback; burst of two -> only the last; one-shot seeks applied once. "
              "Pairs of kinds / resources issued in one interval do not interfere. Distinct cases: schedule traces, command kinds. Pair cases: start/pause/stop sequences on one clock (last wins, stop resets, exact time afterwards); commands written between play() and the first callback on main/sub/nested/spatial tracks; send-route volume in the first buffer; same-target tweener sets; same-interval sound state commands; pause/resume commands, one per interval, to a sound on a paused sub-track (acknowledged at once, the last one decides after the track resumes); a streaming sound's seek_by and seek_to written in one interval in either order (exactly one jump, to the seek_to target); set_volume / pause written to a track whose handle is dropped in the same interval while the track lives on (persisting, or a kept child); a tweener transition that has not begun (delay, clock time, idle clock) called off by set(<the held value>); effects on the main track, a sub-track and a send track are asked to take their commands exactly once per callback of 1..451 frames (internal buffer 64)."),
        domain="scheduler granularity = one CommandWriter::write / CommandReader::read; interleavings inside triple_buffer are sampled by stress/TSan/Miri, not enumerated",
        assumptions=["Monitor A exercises the same kira::command code every handle uses, with a probe payload", "decoder-side commands are observed after the 16384-frame ring of earlier-decoded audio has played out"],
        require_equal=[("B_command_kinds_covered", "B_command_kinds_in_table")],
        quick=[rel(30)],
        thorough=[rel(600), dict(engine="tsan", shards=4, budget=200), dict(engine="miri", shards=8, budget=240, parallel=8)],
        level_text="History checking of the real command channel under enumerated and free-running interleavings plus a complete table of command kinds each checked for effect, promptness, last-write-wins and not-lost-before-first-callback; exploration.",
        level_note="Trusts the scheduler and the logical clock used to order history events (fetch_add on one atomic).",
    ),
    "C08": dict(
        level="exploration",
        technique="runtime monitoring: shadow-model monitor of every creation result and count/capacity query over random create/drop/finish/callback histories; probe resources with Drop accounting (thread + callback flag, conservation); stale-id scenes; create-path vs remove-and-add interleavings under a controlled scheduler; free-running two-thread stress (also TSan/Miri)",
        design_ref="DESIGN.md §3 C08",
        rule=("Sequential histories (20-500 ops) over sub-tracks, send tracks, clocks, modulators, listeners and sounds on the main track and on sub-tracks, capacities drawn from {0,1,2,3,128}: creation must succeed exactly when (alive + awaiting removal) < capacity and otherwise return the limit error without panicking; "
              "after every op all num_*/capacity queries of the manager and of every live track handle must equal the shadow model (removal at the next callback, at the one after if the resource had not been picked up) and never exceed the capacity; no probe sound/effect/modulator may be destroyed while its thread is inside a callback; "
              "at teardown created == destroyed, none twice. Stale ids: after the slot of a removed clock / modulator / listener / send track is reused, what referenced the old id behaves as missing (waiting sound Stopped and silent, parameter holds its value, spatial track silent, route feeds nothing). "
              "Concurrency: game thread creating/dropping clocks vs audio thread callbacks, parked at the res.* hooks (try_reserve, insert before/after draining the unused ring, between the remove pass and the refill loop): interleavings enumerated depth-first (bounded per shard) - results must be linearizable against [alive, alive+pending] and counts within capacity; "
              "free-running stress with an audio thread. A history is distinct and non-trivial when at least one slot was freed and reused. Histories include spatial tracks, child tracks dropped with their parent, pause/resume of tracks, and plays of sound data whose into_sound fails (no slot may be used up). Chain cases: top -> middle -> leaf (or a persisting child with an unfinished sound), handles dropped in every order at callback boundaries; num_sub_tracks() stays 1, nothing beneath is destroyed and a second top-level track is refused (capacity 1) while any track of the chain is kept; afterwards the slot is reusable and everything was destroyed off the audio thread. Built-in modulators (idle tweener; tweener waiting for a delayed / clock-timed transition or inside an hour-long one; LFO) with capacity 1: the slot is free one callback after the handle is dropped (two if not yet picked up)."),
        domain="capacities {0,1,2,3,128}; nested tracks and persistence rules are C12's subject",
        assumptions=["Clock and Listener are kira-internal types: their destruction thread is not observable through a probe (sounds, effects and modulators are)", "schedule enumeration is capped per shard (counts and completeness flags are in the evidence)"],
        quick=[rel(30)],
        thorough=[rel(600), dict(engine="native-dev", shards=16, budget=120), dict(engine="tsan", shards=4, budget=200), dict(engine="miri", shards=8, budget=240, parallel=8)],
        level_text="Exact shadow-model monitoring over ~10^4 (quick) / 10^6 (thorough) histories, enumerated create/remove interleavings at hook granularity and sanitizer-observed stress; exploration.",
        level_note="Trusts the shadow model of the removal rule stated in the property and the hook placement in ResourceController/ResourceStorage.",
    ),
    "C09": dict(
        level="exploration",
        technique="runtime monitoring: differential lock-step execution of the real streaming and static Box<dyn Sound> on identical data, settings and command histories; decoder kept ahead via dec.* hooks (logical waiting); thorough tier repeats the workload in an overflow-checked build and under ThreadSanitizer",
        design_ref="DESIGN.md §3 C09",
        rule=("Random pairs: noise content of length 0..24k (quick) / 40k (thorough) frames (crossing the 16384-frame ring), slices, start positions, loop regions (incl. to the end), rates {1, 0, 0.1..4}, volume/panning, fade-in, delayed start, device/sound rate pairs, "
              "decoder packet plans (1, fixed 1..4096, variable, 4096/1/333) and seek granularities {1,8,64,1000,4096}; chunk sizes 1..512; random histories of set_volume/set_panning/set_playback_rate/pause/resume/resume_at(delayed)/stop with random tweens applied to both handles (no seeks). "
              "Before every callback the harness waits until the decoder has filled its ring or ended (two fresh dec.wait hook hits). Compared after every callback: every output frame (1e-6 x scale), state(), and until Stopped position() within one frame along the transport path (cyclic in a loop). "
              "A case is distinct and non-trivial when (packet plan class, seek granularity, loop?, slice?, rate class, longer-than-ring?) is new and >= 1 non-silent frame was compared. A third of the sounds longer than the ring run at rate 1 with callbacks of 381 or 5461 frames (divisors of 16383), so that a callback begins exactly when the 16384-slot ring wraps. The streaming side receives its slice directly, or through a second .slice() replacing an earlier one (open-ended when the slice ends at the end of the data). One pair in eight is file-backed: both sounds read the bytes of the same 16-bit WAV (the library's own decoder on the streaming side, whose seeks land on packet boundaries)."),
        domain="valid slices and loop regions (start<end<=len); non-negative rates; no seek commands (per the property)",
        assumptions=["a pair whose decoder does not reach ring-full/end within 5 s wall is inconclusive (counted, never a violation)", "ScriptedDecoder implements the public Decoder trait; seeks land on multiples of the granularity at or before the request"],
        quick=[rel(40)],
        thorough=[rel(900), dict(engine="native-dev", shards=16, budget=120), dict(engine="tsan", shards=16, budget=120)],
        level_text="Lock-step differential oracle over ~5x10^3 (quick) / 2x10^5 (thorough) generated pairs with command histories; exploration.",
        level_note="Trusts that the static implementation is the reference behaviour (C04 checks it independently) and the hook-based 'decoder is ahead' gate.",
    ),
    "C10": dict(
        level="fault_enumeration",
        technique="runtime monitoring with fault injection: ScriptedDecoder fails its k-th decode/seek call (exhaustively for short streams) in every scene x decoder pace; thread end decided from the decoder's Drop and dec.* hook activity; index-coded audio checked for gaps-only behaviour; thorough tier repeats the workload in an overflow-checked build and under ThreadSanitizer",
        design_ref="DESIGN.md §3 C10",
        rule=("Exhaustive part: for scenes {main track, sub-track, paused track, stopped with fade} and every k <= 12 (quick) / 64 (thorough): the k-th decode call fails once, every decode call from the k-th on fails, the k-th seek call fails (construction, loop wraps), on streams sized so that the k-th call is made. "
              "Random part: scene in {main, sub-track, rejected by a full track, paused track, track dropped, manager dropped, handle dropped, stopped with fade, natural end} x pace {ahead, slow decode (300 us), stalled (gated through dec.step permits)} x fault x loop region x stop/drop moment. "
              "Oracles: after an error state()==Stopped within 2 callbacks, unloaded, silent, pop_error() == the first injected error; decoder Drop observed (thread ended) or else >= 300 further decode-loop iterations with nothing to do = violation, neither within 4 s = inconclusive; "
              "> 2000 loop re-runs after an error = busy spin; index-coded frames strictly consecutive (mod loop), across a gap of silence resume within one frame; no decoder destroyed inside a callback; no allocation in callbacks. "
              "A case is distinct and counted when its fault was actually reached (the decoder counted the failing call) or it is a fault-free life-cycle case with a new (scene, pace, loop) combination. Streams longer than the 16384-frame ring; errors arriving while the sound itself is paused or waits for a clock; a decoder thread that neither ends nor polls while a reference thread completes 1500 sleeps of 1 ms is a violation. stop() written after pause()/resume()/resume_at() in the same interval must still stop the sound (Stopped within 3 callbacks, thread ends). Start positions in the middle, exactly at and past the end of the data, empty streams, and seek_to / seek_by to or past the end while the decoder thread is alive (no loop): the sound ends, the thread ends. File-backed cases with the library's own decoder: a WAV truncated at a random byte must still lead to Stopped and to the decoder thread releasing the file (Drop of the byte source); a paused sound resumed at a clock time whose clock is then removed becomes Stopped for the handle too and its thread ends."),
        exhaustive_quick=True,
        exhaustive_thorough=True,
        domain="streams of 1..3000 frames (40000 for confirmations), packets 1..4096; excluded while listed as known findings: scene 'track dropped' (thread-end verdict) and multi-frame resume skips of starving paces (counted instead)",
        assumptions=["exhaustive:true refers to the enumeration of fault positions k for the stated scenes and bound", "thread end is observed through the ScriptedDecoder's Drop; wall-clock only bounds the inconclusive verdict"],
        quick=[rel(30)],
        thorough=[rel(900), dict(engine="native-dev", shards=16, budget=120), dict(engine="tsan", shards=16, budget=120)],
        level_text="Every fault position up to a bound is injected into the real decode scheduler in several scenes, plus random scene/pace/fault combinations with real threads; liveness ('thread ends') is restated as bounded progress in hook-observed loop iterations.",
        level_note="Trusts the hook placement in DecodeScheduler and the ScriptedDecoder; schedules between the decoder thread and the harness are whatever the OS produces (sampled, not enumerated).",
    ),
    "C11": dict(
        level="exploration",
        technique="runtime monitoring: metamorphic comparison of several renderings of one fixed-parameter scene under different internal buffer sizes, callback partitions and channel counts; thorough tier repeats the workload in an overflow-checked build",
        design_ref="DESIGN.md §3 C11",
        rule=("Random scenes of real components (static noise sounds with any rate/loop/pan/volume/reverse, track trees depth <= 3, up to 2 sends with routes, chains of the 8 built-in effects with fixed parameters incl. nested delays) are rendered once with internal buffer 128 / callbacks of 128 and three more times with "
              "buffer sizes from {1,2,3,7,16,64,128,333,1024,4096}, callback-size sequences (one-frame, non-multiples, 441, random 1..3*ibs) and 1..8 channels. Every frame is compared: bit-exact for scenes without recursive effects, <= 1e-6 otherwise; mono must be (L+R)/2 of the reference, extra channels silent. "
              "15 % of scenes have no effects, 35 % only memoryless effects. A case is distinct when (tracks, sends, sounds, recursive?, main-chain kinds) is new and the reference rendering is non-silent. Two further families: a burst - exact digital silence longer than a chunk - another burst through one effect with memory (compressor that compresses, delay with a filter in its feedback loop, reverb, resonant filter), <= 1e-6; and a plain sound at a fixed playback rate of 1.5 / 0.75 / 1.25 / 3 / 0.9 / 0.6 rendered in chunks of 100, 37+5, 441 or 2 ibs + 1 and 3 frames, bit-exact."),
        domain="fixed parameters, no commands in flight, stable effect settings (loop gain < 1), degenerate settings listed under C13 are not generated",
        assumptions=["clocks/tweens/modulators are chunk-quantised by design and belong to C05/C06/C17"],
        quick=[rel(25)],
        thorough=[rel(900), dict(engine="native-dev", shards=16, budget=120)],
        level_text="Metamorphic oracle over ~6x10^3 (quick) / 5x10^5 (thorough) scenes x 3 alternative renderings of the real renderer; exploration.",
        level_note="Trusts only equality between renderings of the same code (no reference model).",
    ),
    "C12": dict(
        level="exploration",
        technique="runtime monitoring: model-based monitor over random track trees: DC sounds with power-of-two levels (the output level decodes exactly which sounds are audible), per-sound position continuity, num_sub_tracks and state() after every callback; start-delay extension under pauses; state() totality under pause/resume/resume_at histories; thorough tier repeats the workload in an overflow-checked build",
        design_ref="DESIGN.md §3 C12",
        rule=("(a) Trees of 1-6 tracks (nested, persist_until_sounds_finish on/off) with 0-2 looping or finite DC sounds per track; histories of instant pause/resume and resume_at(delayed 2-9 chunks) on any node, handle drops of any node, sound stops, callbacks of 1-3 chunks. After every callback: the set of audible sounds (decoded from the summed DC level) equals the model "
              "(a paused track silences its whole subtree exactly; a dropped track is silent at the next callback unless it persists until its sounds have finished and been unloaded, or a descendant track is still alive); positions of sounds under a steadily paused track are constant and advance by exactly the callback's frames otherwise (continue exactly where they froze); "
              "num_sub_tracks of the manager and of every live handle equal the model; state() equals Playing/Paused. Fades requested while an ancestor is paused are deferred (they do not advance in a frozen subtree). "
              "(b) a sound with a start delay on a (nested) track paused for P chunks with a fade becomes audible P chunks later (+- the fade and one chunk). (c) random pause/resume/resume_at(delayed | clock | clock later dropped) histories with fades: state() never panics and is one of the five states. A tree case is distinct when its (tree shape, persistence flags, kinds of operation in its history, sounds on the main track) is new; the other families count one class each. Also pause on a track that is waiting to resume (the scheduled resume is cancelled) and pauses whose fade has a delayed start (the track plays on until then). 40 % of the delay / fade cases run on a device whose internal buffer is three callbacks long (short chunks): track fades and start delays are counted in rendered frames. Resume variants on plain and spatial tracks: resume() with a fade-in whose start is delayed (Resuming at once, sounds advance), and resume_at on a clock that is not running (frozen and silent until it is started)."),
        domain="instant fades in (a); fades 0..3 chunks in (b),(c); excluded while listed as known finding: dropping the clock a resume_at waits on (state() then panics)",
        assumptions=["a Stopped sound is unloaded at the next callback and the persisting track is examined before that, so it is removed one callback later", "DC levels 2^-(b+2) sum exactly in f32"],
        quick=[rel(30)],
        thorough=[rel(600), dict(engine="native-dev", shards=16, budget=120)],
        level_text="Model-based monitoring of ~2x10^4 (quick) / 2x10^6 (thorough) random track-tree histories on the real mixer; exploration.",
        level_note="Trusts the harness model of the documented pause/removal rules.",
    ),
    "C13": dict(
        level="exploration",
        technique="runtime monitoring: metamorphic relations between runs of fresh Box<dyn Effect> instances (dry identity, silence, finiteness, exact homogeneity, noise-calibrated superposition, partition independence); thorough tier repeats the workload in an overflow-checked build",
        design_ref="DESIGN.md §3 C13",
        rule=("Random effect specifications over all 8 built-in effects (delay with 0-2 nested feedback effects), parameters drawn from documented ranges plus their edges (mix -0.5/0/1/1.5, resonance 0/1, cutoff 0/1 Hz/Nyquist/2xNyquist, Q 0/0.01/20, gain +-24 dB, -60/-80 dB, zero attack/release), "
              "8 sample rates 8k..192k, internal buffer sizes 1..1024, 8 signal classes (noise, impulses, step, DC, full-scale square, denormals, sine, burst then silence), random partitions into process calls. Each case checks one law on fresh instances built through the public EffectBuilder::build: "
              "dry identity (bit-exact), silence->silence (exact zeros), finite output, superposition+scaling for linear effects (tolerance = the instance's measured f32 rounding-noise floor; E(-2x) == -2E(x) exactly), partition independence (<= 1e-6). "
              "A case is distinct and non-trivial when (effect kind, law, sample rate, signal class, coarse parameter cell) is new and the input is non-zero (except the silence law). One partition case in four runs on an instance that first lived at another device rate (init at R0, warm-up, on_change_sample_rate(R)). Dry identity also through the handle: a filter set fully dry / a volume control set to 0 dB instantly, then a further instant move written one callback later with its start delayed by 4-9 buffers: bit-exact identity while that is pending."),
        domain="D0 U B of DESIGN.md 2.3; not generated because they diverge by construction: feedback-loop gain > 0 dB (delay feedback x nested effect gain bound), expander ratios < 0.25, expanders inside feedback loops",
        assumptions=["effects are driven as the mixer drives them: init(sr, ibs) once, then on_start_processing + process on slices <= ibs with MockInfoBuilder info",
                     "superposition tolerance is calibrated per instance from E(s*x)/s - E(x) (s = 1+2^-7+2^-13) with a 64x margin; gross non-homogeneity (> 5 %) is itself reported"],
        quick=[rel(35)],
        thorough=[rel(900), dict(engine="native-dev", shards=16, budget=120)],
        level_text="Metamorphic oracles over ~4x10^5 (quick) / ~10^7 (thorough) generated (effect, parameters, signal, partition) cases of the real effect code; exploration of an unbounded space.",
        level_note="Trusts the harness signal generators and that MockInfoBuilder info equals what effects see in the mixer for fixed parameters.",
    ),
    "C14": dict(
        level="exploration",
        technique="runtime monitoring: measured sine-probe gains, DC/Nyquist gains, impulse responses and step responses of real Box<dyn Effect> instances compared with closed forms and with independent f64 reference implementations of the cited algorithms; thorough tier repeats the workload in an overflow-checked build",
        design_ref="DESIGN.md §3 C14",
        rule=("Random parameter cells x 8 sample rates. Filter: 3 sine probes vs analytic |H| of the bilinear (pre-warped) SVF, plus mapping-free checks at the requested hertz: LP/HP gains cross at the cutoff, notch nulls there, band-pass peaks there, LP DC gain and HP Nyquist gain 0 dB +-0.05. "
              "EQ: bell centre gain / low-shelf DC gain / high-shelf Nyquist gain == requested dB +-0.1 with the opposite band at 0 dB, 3 sine probes vs SvfLinearTrapOptimised2 response. Volume/panning/distortion: point-wise against the dB, equal-power and clip laws (4e-6). "
              "Delay: two impulses -> echoes at exact multiples of floor(delay*sr) frames scaled by (feedback x nested volume)^k and the sqrt mix law (1e-5). Reverb: sample-by-sample against an independent f64 Freeverb network (tunings x sr/44100, spread 23, 8 combs, 4 all-passes) and tail-energy decay for feedback < 1. "
              "Compressor: below threshold unchanged, steady-state reduction (level-threshold)(1-1/ratio) dB +-0.1, attack/release reach 1-1/e within +-5 %. A case is distinct when its (effect, mode/kind, sample rate, coarse parameter cell) is new. Compressor attack/release shorter than a sample period against the one-pole model; a hard/soft clip in a delay's feedback loop (delay line -> effect -> feedback gain). One compressor case in four at the far end of the ranges: thresholds down to -90 dB with ratios 8..200 (reductions of 60 dB and more) and make-up gains -70..+40 dB; test levels are plain 10^(dB/20). A low-pass filter in the delay's feedback loop, input cut into slices of 1..ibs frames: compared frame by frame (2e-4) with a model line whose reads pass, once and in order, through a second instance of the same filter. The compressor's attack time linked to a (mock) modulator through a mapping from a long to a short duration or back: the measured 63 % time equals the interpolated duration (+-6 %). One compressor step response in three is measured on an instance that processed quiet audio at another device rate first (time constants are seconds whatever the rate was before)."),
        domain="cutoffs 40 Hz..0.45 sr, resonance 0..0.85, Q 0.3..8, gains +-24 dB, delays 1..3000 frames, feedback <= 0 dB, reverb feedback <= 0.98, compressor ratio 1..50, attack 2..100 ms, release 5..300 ms; measurement domains are narrower than C13's so that settling fits the run length",
        assumptions=["reference models were written from the cited sources (Simper/Cytomic SVF papers, Freeverb) and from kira's documentation, not from kira's code paths; the resonance->k mapping (k = 2 - 1.9 res) is taken from the cited baseplug example",
                     "sine gains are measured by quadrature over a whole number of periods after 12 time constants of settling"],
        quick=[rel(35)],
        thorough=[rel(900), dict(engine="native-dev", shards=16, budget=120)],
        level_text="Measured behaviour of the real effects on ~10^5 (quick) / 10^6 (thorough) generated settings against closed forms and independent references; exploration, the parameter space is continuous.",
        level_note="Trusts the harness reference implementations and measurement procedure (tolerances stated in the rule).",
    ),
    "C15": dict(
        level="exploration",
        technique="runtime monitoring: metamorphic relations between renderings of the real spatial mixer (same-distance, radial sweep, mirror, rigid motion, listener removal), plus distance-mapped parameters measured through a real VolumeControl effect against the documented Mapping law",
        design_ref="DESIGN.md §3 C15",
        rule=("Random scenes (listener position/orientation incl. identity and axis-aligned, emitter coincident / inside min / between / beyond max distance, min 0..10, range 0.5..100, all easings or attenuation disabled, strength {0,0.3,0.5,0.75,1}, mono or unbalanced stereo DC source) rendered through AudioManager + spatial track. "
              "Judged: strength 0 leaves the stereo balance unchanged (1e-5); gain exactly 1 inside min and exactly 0 beyond max; gain equal (2e-4) for another direction and listener orientation at the same distance; non-increasing (1e-7) along a 12-point radial sweep; ear gains after removing the attenuation within [1-strength, 1] (1e-3); "
              "left >= right for emitters on the listener's left (and conversely); mirroring the emitter through the median plane swaps the ears (5e-4); a random rotation+translation of listener and emitter together leaves the output unchanged (2e-3); a dropped or never-existing listener gives exact silence from the next callback; "
              "a VolumeControl driven by Value::FromListenerDistance outputs amplitude(map(distance)) (2e-4) on the spatial track itself, on a non-spatial descendant (parent's distance) and on a nested spatial track (its own distance); during position/orientation tweens output stays finite and afterwards equals a static scene at the final poses. "
              "0 allocations in callbacks. A case is distinct when (distance zone, strength, easing on/off, source balance, identity orientation | history kind, variant) is new. The attenuation curve itself (0 dB at min, -60 dB at max, easing applied to 1 - relative distance); emitters exactly on an ear; the listener rule for every attenuation/panning combination; distance mappings installed through an effect handle, then the emitter moves. Every other rendering of a static scene uses an internal buffer of one frame or callbacks ending in a one-frame chunk; a quarter of the distance mappings have a descending input range."),
        domain="coordinates within +-50 (+ distances up to 3 x max), min < max distance; one listener per scene",
        assumptions=["relations are those stated in the property; the panning law itself is not modelled, so a different law that keeps all relations passes",
                     "tolerances absorb f32 rounding of glam quaternion products for coordinates up to ~10^2"],
        quick=[rel(20)],
        thorough=[rel(600), dict(engine="native-dev", shards=16, budget=120)],
        level_text="Relations between ~10^5 (quick) / 10^7 (thorough) renderings of the real spatial mixer; exploration of a continuous geometry space.",
        level_note="Trusts the harness geometry (glam) used to construct mirrored and rigidly moved scenes.",
    ),
    "C16": dict(
        level="exploration",
        technique="runtime monitoring: probe effect recording the sample rate it was told vs the dt it is processed with over exhaustively enumerated add/change/callback histories and scheduler-enumerated interleavings of the add-track race; seconds/hertz quantities measured on renderings at 8 device rates and across mid-stream rate changes; thorough tier repeats the workload under ThreadSanitizer",
        design_ref="DESIGN.md §3 C16",
        rule=("(A) every history of length <= 5 (quick) / 6 (thorough) over {add_sub_track with/without effects, TrackHandle::add_sub_track with/without effects, add_spatial_sub_track, nested add_spatial_sub_track, add_send_track, change_sample_rate, callback} plus random histories of 6..24 ops (internal buffer 1/7/16/64): at every Effect::process, round(1/dt) must equal the last rate given to init/on_change_sample_rate, and after the history every processed probe was last told the device rate. "
              "(A') for each of the 7 add-track paths, all interleavings (depth-first over the controlled scheduler, yield points game.add, hook track.add.loaded, audio.change, audio.cb) of one add call with 1 or 2 {rate change, callback} pairs on the renderer thread; same invariant. "
              "(B) random cells (rate R1 in 8 rates 8k..192k, optional change to R2 at a callback boundary 2..30 ms in, internal buffer 16..128, random callback sizes): a tone keeps its duration (+-5 sound frames + 4 device frames) and mean-crossing count (+-3); a sound scheduled at clock tick k starts at k/tps s (+- one internal chunk); a linear -40 dB volume tween of D s passes -20 dB at D/2 and ends at D (+- one chunk); "
              "a wet delay of T s on main/top/nested (plain, with-effect or 2 levels deep group parents)/send/spatial/nested-spatial tracks, for the orders add-callback-change, add-change-callback and change-add-callback, repeats a 2 ms burst at k*floor(T*R)/R s (+-3 frames, k <= 4); low/high/band-pass gain at the cutoff agrees (0.25 dB) between early/late windows, before/after a change and another device rate. "
              "A case is distinct when its (history length, op set) / (race path, event order) / (measurement kind, R1, R2) is new. A probe effect inside a delay's feedback loop is part of the history alphabet; the reverb's first reflections arrive after 1116/44100 s (left) and 1139/44100 s (right) at every rate. The delay holding the probe has a line of 5 ms, 40 ms, 0 or 10 us (the same number of frames at both rates) and the probe may sit one delay deeper. The alphabet includes dropping the handle of a track that has children (it lives on and must learn later rate changes); a compressor that has already run reaches 63 % of its final reduction one attack time (8-40 ms, +-7 %) after a loud signal begins, at the rate then in force. Filter cutoffs from 70 Hz; an EQ band (high/low shelf, bell; +-12, 6 dB) at 500..3000 Hz (up to 0.3 of the lowest rate) measures half its gain (shelves) / its gain (bell) at its frequency, +-0.35 dB, before and after a change."),
        domain="rates 8000..192000 (8 values); tone frequencies <= min(sound rate, device rate)/10; delays 4..30 ms; filter cutoffs 200..1500 Hz, resonance <= 0.6; the rate change is applied between callbacks by the thread that owns the renderer (as the cpal backend does)",
        assumptions=["the rate-in-force invariant is judged on a harness Effect implementation; built-in effects are covered by the delay/filter measurements",
                     "reverb and compressor time constants are not measured here (C14 measures them per rate)"],
        quick=[rel(30)],
        thorough=[rel(600), dict(engine="native-dev", shards=16, budget=120), dict(engine="tsan", shards=16, budget=60)],
        exhaustive_quick=False,
        level_text="All add/change/callback histories up to length 5 (quick) / 6 (thorough) and all interleavings of the add-track race are enumerated against a probe monitor; second/hertz measurements sample ~10^4 (quick) / 10^6 (thorough) rate cells. Exploration: longer histories and the continuous parameter space are sampled.",
        level_note="Trusts the harness probe Effect and the controlled scheduler (only hook sites and explicit yields are scheduling points).",
    ),
    "C17": dict(
        level="exploration",
        technique="runtime monitoring: probe Effect holding kira::Parameter values linked to real LFO/tweener/custom modulators (and a DC sound with linked volume) compared chunk by chunk with an independent interval model of the documented curves; master probe modulator numbering chunks for the exactly-once / before-readers check",
        design_ref="DESIGN.md §3 C17",
        rule=("Scenes: 1-8 modulators (LFO sine/triangle/saw/pulse widths {0,0.1,0.25,0.5,0.9,1}; tweener; custom probe modulator) whose frequency/amplitude/offset are fixed or linked to earlier modulators through random mappings (inverted input ranges, all easings), read by probe-effect parameters through identity and random mappings and by a DC sound's volume; "
              "histories of 4-14 callbacks of random sizes (sr 1000/8000/44100, internal buffer 1/4/16/50/128) with handle commands between callbacks: tweener set, LFO set_frequency/amplitude/offset (fixed or linked targets, tweens incl. zero duration), set_waveform, set_phase, drops of any modulator, late additions. "
              "Every chunk: each linked parameter must lie in the image of the model's value (an exact point, or an interval while an LFO's frequency is changing) of the SAME chunk (1e-9 relative; 2e-5 for the audible gain at the chunk's last frame); parameters of removed modulators hold bit-exactly; the effect must see the master modulator already updated for this chunk; "
              "every probe modulator is updated exactly once per chunk with dt = frames/sample rate. Constant-parameter LFOs are additionally compared with the analytic waveform at phase0/2pi + f t and with offset +- |amplitude|. "
              "Reads whose value the model cannot know (downstream of an interval) are counted separately, not judged. A dedicated case re-links an LFO to a later-created tweener (known finding). A case is distinct when (modulator count, event kinds, sound present, buffer size) is new. A clock whose speed is mapped from a moving modulator advances by the same chunk's value; LFOs faster than the chunk rate and starting phases of several turns. A tweener transition scheduled with a delay, a clock time or an idle clock and called off, before it begins, by set(<exactly the held value>): the tweener stays there in every later chunk. The clock-speed link uses ranges in ticks per second, ticks per minute, seconds per tick and mixed units (interpolation happens in the unit of the range's second end)."),
        domain="frequencies 0..0.35/chunk duration (so adjacent chunks differ), amplitudes/offsets in [-2,2], mapping ranges within [-10,10], tweens 0..6 chunks, immediate start; links only to earlier-created modulators except in the dedicated forward-link case",
        assumptions=["while an LFO's frequency is being tweened any integration rule between the chunk's two end frequencies is accepted", "tween start times other than Immediate are C06's subject"],
        quick=[rel(25)],
        thorough=[rel(600), dict(engine="native-dev", shards=16, budget=120)],
        level_text="Chunk-by-chunk comparison of real modulators and everything linked to them against an independent model over ~5x10^4 (quick) / 10^7 (thorough) random scenes; exploration.",
        level_note="Trusts the harness model of the documented modulator/parameter behaviour and the probe Effect/Modulator implementations of the public traits.",
    ),
    "C18": dict(
        level="exploration",
        technique="runtime monitoring: independent WAV encoder + strict RIFF reader as oracle for StaticSoundData::from_cursor; file-frame follower (every streamed output frame must be the next file frame, the loop start, or the landing frame of the oldest pending seek) on the real Symphonia decoder and decoder thread kept ahead through the dec.* hooks; corruption/truncation outcomes judged against the independent reader; AddressSanitizer build in the thorough tier; ThreadSanitizer build in the thorough tier",
        design_ref="DESIGN.md §3 C18",
        rule=("(F) WAV files from the harness encoder (u8/i16/i24/i32/f32/f64, 1/2/3/6 channels, 9 rates incl. 1 and 12345 Hz, lengths 0/1/odd/1151..1154/up to 20000, plain or WAVE_FORMAT_EXTENSIBLE headers, fact/unknown/LIST chunks around the data, odd chunk sizes): from_cursor must give the encoded rate, frame count and every sample (exact for f32, f32-rounded for f64, <= 1 LSB for integers), mono in both channels, UnsupportedChannelConfiguration for > 2 channels; StreamingSoundData::num_frames must agree. "
              "(S) index-coded WAVs (3000..71500 frames, every frame unique and non-zero) streamed at rate 1 with slices, start positions, loop regions and up to 3 seek_to commands (incl. targets next to the decoder's current packet): the output must follow the loaded frames as described, every seek issued while the decoder thread lives must land on the frame a static sound lands on, the sound must end after the last frame of the file/slice and report no error; the shipped assets (ogg, wav) likewise, from 0 strictly. "
              "(X) truncation at a random byte, one flipped bit in the header region, or one byte set to 00/7F/80/FF anywhere, on files of 0..600 frames: from_cursor must return an error value or frames that are a prefix (same rate) of what the independent reader derives from the same bytes when the header is still self-consistent (otherwise counted as not judged); streaming the same bytes must be refused or end, playing only frames that loading gives; no panic on any thread, <= 5 s CPU. "
              "A case is distinct when its (kind, format, channels, header variant, length class / slice, loop, seeks, start / asset) key is new. Seek targets include rewinds to 0, packet-aligned frames, the same target twice and relative seek_by (relative to the reported position, +-2 frames); in 30 % of the loop-free cases every seek_to is written together with a seek_by (before or after it, while the decoder thread is parked): the seek_to target is the one landing. A third of the start positions are given in seconds (a quarter frame past the frame); before the first callback the handle must already report the start position; a decoder thread that passes no hook point while a reference thread completes 3000 sleeps of 1 ms on a corrupted file is a hang (violation), slower progress is inconclusive."),
        domain="PCM and IEEE-float WAV only for fidelity (no independent Vorbis/FLAC/MP3 decoder exists offline: compressed assets get the equality half only); seek targets at (k+0.25)/rate, inside the loop region when one is set, at least one callback apart; device rate = file rate, playback rate 1",
        assumptions=["the decoder is kept ahead of playback (the harness waits for two dec.wait hook hits, an end or an error before every callback); starvation is C10's subject",
                     "integer sample scaling conventions: (s-128)/128, s/2^15, s/2^23, s/2^31"],
        quick=[dict(engine="native-rel", shards=64, budget=40, parallel=64)],
        thorough=[dict(engine="native-rel", shards=64, budget=900, parallel=64), dict(engine="asan", shards=32, budget=300, parallel=32), dict(engine="tsan", shards=32, budget=120, parallel=32)],
        level_text="Oracle-judged decoding of ~10^4 (quick) / 10^6 (thorough) generated, corrupted and shipped files through the real Symphonia glue and decoder thread; exploration.",
        level_note="Trusts the harness WAV encoder/reader (they are checked against each other on every generated file) and the dec.* hook observations used to keep the decoder ahead.",
    ),
    "C19": dict(
        level="exploration",
        technique="runtime monitoring: exhaustive f32 sweeps + dense boundary-biased sampling of the public conversion functions against independent f64 oracles; thorough tier repeats the workload in an overflow-checked build",
        design_ref="DESIGN.md §3 C19",
        rule=("Decibels::as_amplitude and Frame::panned are walked over f32 bit patterns in numeric order (thorough: all 2^32, "
              "quick: every 61st plus +-2048 neighbours of each boundary); semitones, clock speeds, ClockTime (+,- with u64/f64, "
              "ordering, constructors), easings (via Mapping::map, 0->0, 1->1, monotone on a grid) and Mapping clamping are sampled "
              "with boundary-biased generators. A case is distinct and non-trivial when its (function, sign/exponent class of the "
              "input, operation, boundary class) key is new and the input is not NaN. Compound operators (+=, -=) on ClockTime must agree with the binary ones. Mappings over every output type with its own Tweenable impl (Duration, f32, Panning, PlaybackRate, Mix, Semitones; ascending and descending): the ends and the middle of the input range map to the ends and the middle of the output range, without panicking."),
        exhaustive_thorough=True,
        exhaustive_quick=False,
        domain="all f32 bit patterns for decibels/panning (NaN inputs counted, not judged); ticks <= 2^53, fractions within 1 ulp of 0 and 1; easing powers powi 1..8, powf 0.1..8; mapping ranges with input_range.0 != input_range.1",
        assumptions=["f64 powf/sqrt of the Rust std library as reference", "tolerance for as_amplitude is the f32 conditioning bound eps*(2+|dB/20|*ln10)",
                     "exhaustive:true refers to the two f32 sweeps (thorough tier); the f64 domains are sampled"],
        quick=[rel(20)],
        thorough=[rel(600), dict(engine="native-dev", shards=16, budget=120)],
        level_text="Every f32 input of the two f32 functions is evaluated (thorough) and judged by an oracle; f64 domains are sampled densely with boundary bias. Exploration, not proof: the f64 spaces are not enumerable.",
        level_note="Trusts the harness oracles (f64 reference arithmetic) and that release-build float semantics equal the user's build.",
    ),
}
