"""Per-property metadata used by ./check (engines, budgets) and by tools/gen_manifest.py."""

NC = 16

def rel(budget, shards=NC, **kw):
    return dict(engine="native-rel", shards=shards, budget=budget, **kw)

META = {
    "C06": dict(
        level="exploration",
        technique="runtime monitoring: trace-specification monitor over kira::Parameter / tweener modulator driven with MockInfoBuilder, independent easing oracle; end-to-end gain envelopes through the renderer",
        design_ref="DESIGN.md §3 C06",
        rule=("Random scenarios: tweenable type (f64,f32,Decibels,Panning,PlaybackRate,Semitones,Mix,Vec3,Duration,ClockSpeed x3 units,Quat) or the tweener modulator; "
              "1-3 overlapping set() calls with duration {0, < one update, == one update, random}, every easing kind (powi 1..8, powf 0.1..8), start Immediate/Delayed(0)/Delayed/ClockTime (mock clock advancing, optionally paused before the target)/missing clock; "
              "random update partitions (uniform, jittered, with 20x outliers, with microsecond steps). After every update the monitor checks: old value kept bit-exactly before the start instant; exact law start+(target-start)*ease(elapsed/duration) "
              "for immediate starts; value within the [ref(tau-one update), ref(tau+one update)] interval for delayed/clock starts; == target from the end on; never outside [start,target]; previous_value()==last value(); interpolated_value(0/1) endpoints; "
              "retarget starts from the current value. Plus coarse-vs-fine partition comparison and DC-sound gain envelopes through AudioManager. A case is distinct and non-trivial when (type, easing kind, start kind, duration class, number of sets) is new and target != start."),
        domain="values in documented ranges (dB -80..24, panning +-1, rate +-16, speeds 0.05..500 ticks/s), durations 0..~10 s quantised to ns as the Duration API does, positive easing powers",
        assumptions=["reference easing curves written independently from the Easing documentation", "timing slack of one update either side of the start instant for delayed/clock starts, as the property allows",
                     "ClockSpeed values are compared as physical speed (ticks/s), tolerance 1e-11 relative"],
        quick=[rel(25)],
        thorough=[rel(600)],
        level_text="Online monitor over ~10^5 (quick) / 10^7 (thorough) generated tween histories of the real Parameter/Tweener code with an independent oracle; exploration of an unbounded input space, not a proof.",
        level_note="Trusts the harness reference easing implementation and the MockInfoBuilder-provided clock info as a faithful stand-in for real clocks (C05 covers the real ones).",
    ),
    "C19": dict(
        level="exploration",
        technique="runtime monitoring: exhaustive f32 sweeps + dense boundary-biased sampling of the public conversion functions against independent f64 oracles",
        design_ref="DESIGN.md §3 C19",
        rule=("Decibels::as_amplitude and Frame::panned are walked over f32 bit patterns in numeric order (thorough: all 2^32, "
              "quick: every 61st plus +-2048 neighbours of each boundary); semitones, clock speeds, ClockTime (+,- with u64/f64, "
              "ordering, constructors), easings (via Mapping::map, 0->0, 1->1, monotone on a grid) and Mapping clamping are sampled "
              "with boundary-biased generators. A case is distinct and non-trivial when its (function, sign/exponent class of the "
              "input, operation, boundary class) key is new and the input is not NaN."),
        exhaustive_thorough=True,
        exhaustive_quick=False,
        domain="all f32 bit patterns for decibels/panning (NaN inputs counted, not judged); ticks <= 2^53, fractions within 1 ulp of 0 and 1; easing powers powi 1..8, powf 0.1..8; mapping ranges with input_range.0 != input_range.1",
        assumptions=["f64 powf/sqrt of the Rust std library as reference", "tolerance for as_amplitude is the f32 conditioning bound eps*(2+|dB/20|*ln10)",
                     "exhaustive:true refers to the two f32 sweeps (thorough tier); the f64 domains are sampled"],
        quick=[rel(20)],
        thorough=[rel(600)],
        level_text="Every f32 input of the two f32 functions is evaluated (thorough) and judged by an oracle; f64 domains are sampled densely with boundary bias. Exploration, not proof: the f64 spaces are not enumerable.",
        level_note="Trusts the harness oracles (f64 reference arithmetic) and that release-build float semantics equal the user's build.",
    ),
}
