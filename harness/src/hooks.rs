//! Harness side of kira's `verif-hooks`: one process-global callback dispatching on the site name.
//! - decoder thread observation / pacing (dec.*)
//! - generic per-site hit counters
//! - an optional scheduler callback (used by the controlled-schedule explorations)

use std::cell::Cell;
use std::collections::HashMap;
use std::sync::atomic::{AtomicBool, AtomicI64, AtomicU64, Ordering};
use std::sync::{Arc, Mutex, OnceLock};
use std::time::{Duration, Instant};

#[derive(Default)]
pub struct DecState {
	pub steps: AtomicU64,
	pub waits: AtomicU64,
	pub ends: AtomicU64,
	pub errors: AtomicU64,
	/// when gated: number of `dec.step` hits the decoder may still pass
	pub gated: AtomicBool,
	pub permits: AtomicI64,
	/// set to abandon gating (teardown)
	pub released: AtomicBool,
	pub parked: AtomicBool,
}

impl DecState {
	/// Waits (logically: by observing hook hits, not by sleeping a fixed time) until the decoder has
	/// either filled its ring buffer (a `dec.wait` hit after `since`), ended or failed. Returns false on timeout
	/// (the case is then inconclusive).
	pub fn wait_ahead(&self, timeout: Duration) -> bool {
		let w0 = self.waits.load(Ordering::SeqCst);
		let t0 = Instant::now();
		loop {
			if self.ends.load(Ordering::SeqCst) > 0 || self.errors.load(Ordering::SeqCst) > 0 || self.waits.load(Ordering::SeqCst) > w0 + 1 {
				return true;
			}
			if t0.elapsed() > timeout {
				return false;
			}
			std::thread::sleep(Duration::from_micros(200));
		}
	}
	pub fn ended(&self) -> bool {
		self.ends.load(Ordering::SeqCst) > 0
	}
	pub fn allow(&self, n: i64) {
		self.permits.fetch_add(n, Ordering::SeqCst);
	}
	pub fn release(&self) {
		self.released.store(true, Ordering::SeqCst);
	}
}

thread_local! {
	static LAST_DEC_NEW: Cell<u64> = const { Cell::new(0) };
	/// gate newly created decoders from their first step
	static GATE_NEW: Cell<bool> = const { Cell::new(false) };
}

fn registry() -> &'static Mutex<HashMap<u64, Arc<DecState>>> {
	static R: OnceLock<Mutex<HashMap<u64, Arc<DecState>>>> = OnceLock::new();
	R.get_or_init(|| Mutex::new(HashMap::new()))
}

pub static SITE_HITS: [AtomicU64; 8] = [AtomicU64::new(0), AtomicU64::new(0), AtomicU64::new(0), AtomicU64::new(0), AtomicU64::new(0), AtomicU64::new(0), AtomicU64::new(0), AtomicU64::new(0)];

/// optional scheduler callback for non-decoder sites
pub type SchedFn = fn(site: &'static str, a: u64, b: u64);
static SCHED: std::sync::atomic::AtomicPtr<()> = std::sync::atomic::AtomicPtr::new(std::ptr::null_mut());

/// optional observer called (before the scheduler) for every non-decoder hook hit
static TAP: std::sync::atomic::AtomicPtr<()> = std::sync::atomic::AtomicPtr::new(std::ptr::null_mut());

pub fn set_tap(f: Option<SchedFn>) {
	TAP.store(f.map(|f| f as *mut ()).unwrap_or(std::ptr::null_mut()), Ordering::SeqCst);
}

pub fn set_sched(f: Option<SchedFn>) {
	SCHED.store(f.map(|f| f as *mut ()).unwrap_or(std::ptr::null_mut()), Ordering::SeqCst);
}

fn hook(site: &'static str, a: u64, b: u64) {
	if let Some(rest) = site.strip_prefix("dec.") {
		match rest {
			"new" => {
				let st = Arc::new(DecState::default());
				if GATE_NEW.with(|g| g.get()) {
					st.gated.store(true, Ordering::SeqCst);
				}
				registry().lock().unwrap().insert(a, st);
				LAST_DEC_NEW.with(|c| c.set(a));
			}
			_ => {
				let st = registry().lock().unwrap().get(&a).cloned();
				if let Some(st) = st {
					match rest {
						"step" => {
							st.steps.fetch_add(1, Ordering::SeqCst);
							if st.gated.load(Ordering::SeqCst) {
								// park until a permit is available
								loop {
									if st.released.load(Ordering::SeqCst) {
										break;
									}
									let p = st.permits.load(Ordering::SeqCst);
									if p > 0 && st.permits.compare_exchange(p, p - 1, Ordering::SeqCst, Ordering::SeqCst).is_ok() {
										break;
									}
									st.parked.store(true, Ordering::SeqCst);
									std::thread::sleep(Duration::from_micros(100));
								}
								st.parked.store(false, Ordering::SeqCst);
							}
						}
						"wait" => {
							st.waits.fetch_add(1, Ordering::SeqCst);
						}
						"end" => {
							let _ = b;
							st.ends.fetch_add(1, Ordering::SeqCst);
						}
						"error" => {
							st.errors.fetch_add(1, Ordering::SeqCst);
						}
						_ => {}
					}
				}
			}
		}
		return;
	}
	let t = TAP.load(Ordering::Relaxed);
	if !t.is_null() {
		let f: SchedFn = unsafe { std::mem::transmute::<*mut (), SchedFn>(t) };
		f(site, a, b);
	}
	let s = SCHED.load(Ordering::Relaxed);
	if !s.is_null() {
		let f: SchedFn = unsafe { std::mem::transmute::<*mut (), SchedFn>(s) };
		f(site, a, b);
	}
}

pub fn install() {
	kira::verif_hooks::set_hook(Some(hook));
}

/// The DecState of the streaming sound most recently created on this thread (call right after
/// `into_sound()` / `play()`).
pub fn last_decoder() -> Option<Arc<DecState>> {
	let k = LAST_DEC_NEW.with(|c| c.replace(0));
	if k == 0 {
		return None;
	}
	registry().lock().unwrap().get(&k).cloned()
}

pub fn gate_new_decoders(on: bool) {
	GATE_NEW.with(|g| g.set(on));
}

/// Forget finished decoders (keeps the registry small in long runs).
pub fn prune() {
	let mut r = registry().lock().unwrap();
	if r.len() > 4096 {
		r.retain(|_, v| v.ends.load(Ordering::SeqCst) == 0);
	}
}

/// Release every gated decoder (end of a case): parked threads continue and can end.
pub fn release_all() {
	for v in registry().lock().unwrap().values() {
		v.release();
	}
}
