// independent reference implementations (oracles)
