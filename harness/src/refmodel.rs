//! Independent reference implementations (oracles). Nothing here calls into kira's
//! implementation of the same thing.

use kira::Easing;

/// Independent easing curves (written from the documentation of `Easing`).
pub fn ease_ref(e: Easing, x: f64) -> f64 {
	fn inp(x: f64, p: f64) -> f64 {
		x.powf(p)
	}
	fn inout(x: f64, p: f64) -> f64 {
		if x < 0.5 {
			0.5 * (2.0 * x).powf(p)
		} else {
			1.0 - 0.5 * (2.0 - 2.0 * x).powf(p)
		}
	}
	match e {
		Easing::Linear => x,
		Easing::InPowi(p) => inp(x, p as f64),
		Easing::OutPowi(p) => 1.0 - inp(1.0 - x, p as f64),
		Easing::InOutPowi(p) => inout(x, p as f64),
		Easing::InPowf(p) => inp(x, p),
		Easing::OutPowf(p) => 1.0 - inp(1.0 - x, p),
		Easing::InOutPowf(p) => inout(x, p),
	}
}

pub fn db_to_amp(db: f64) -> f64 {
	if db <= -60.0 {
		0.0
	} else {
		10f64.powf(db / 20.0)
	}
}

/// 4-point, 3rd-order Hermite (x-form), written from Niemitalo's paper, in f64.
pub fn hermite(ym1: f64, y0: f64, y1: f64, y2: f64, x: f64) -> f64 {
	let c0 = y0;
	let c1 = 0.5 * (y1 - ym1);
	let c2 = ym1 - 2.5 * y0 + 2.0 * y1 - 0.5 * y2;
	let c3 = 0.5 * (y2 - ym1) + 1.5 * (y0 - y1);
	((c3 * x + c2) * x + c1) * x + c0
}
