//! Scenes built from real kira components (static sounds, tracks, sends, built-in effects)
//! with fixed parameters; used by C11 (buffer-size independence) and C01.

use kira::sound::static_sound::{StaticSoundData, StaticSoundHandle, StaticSoundSettings};
use kira::sound::{EndPosition, PlaybackPosition, Region};
use kira::track::{MainTrackBuilder, SendTrackBuilder, SendTrackHandle, TrackBuilder, TrackHandle};
use kira::{Decibels, Frame, Panning, PlaybackRate};

use crate::probes::{BuiltFx, FxSpec};
use crate::rig::{Rig, RigConfig};
use crate::util::Rng;

#[derive(Clone, Debug)]
pub struct SoundSpec {
	pub seed: u64,
	pub len: usize,
	pub sr: u32,
	pub rate: f64,
	pub lp: Option<(usize, usize)>,
	pub start: usize,
	pub reverse: bool,
	pub pan: f32,
	pub vol_db: f32,
	pub amp: f32,
}

impl SoundSpec {
	pub fn gen(r: &mut Rng, dev_sr: u32, amp: f32) -> SoundSpec {
		let len = if r.chance(0.2) { r.usize_in(1, 40) } else { r.usize_in(200, 6000) };
		let lp = if r.chance(0.5) {
			let a = r.below(len as u64) as usize;
			Some((a, r.usize_in(a + 1, len)))
		} else {
			None
		};
		SoundSpec {
			seed: r.next(),
			len,
			sr: if r.chance(0.5) { dev_sr } else { *r.pick(&[8000u32, 22050, 44100, 48000, 96000]) },
			rate: if r.chance(0.4) { 1.0 } else { r.f64_in(0.2, 3.0) * if r.chance(0.2) { -1.0 } else { 1.0 } },
			lp,
			start: if r.chance(0.3) { r.below(len as u64) as usize } else { 0 },
			reverse: r.chance(0.2),
			pan: if r.chance(0.5) { 0.0 } else { r.f32_in(-1.0, 1.0) },
			vol_db: if r.chance(0.5) { 0.0 } else { r.f32_in(-20.0, 6.0) },
			amp,
		}
	}

	pub fn data(&self) -> StaticSoundData {
		let frames = crate::probes::noise_frames(self.seed, self.len, self.amp);
		let mut st = StaticSoundSettings::new()
			.start_position(PlaybackPosition::Samples(self.start.min(self.len.saturating_sub(1))))
			.reverse(self.reverse)
			.playback_rate(PlaybackRate(self.rate))
			.panning(Panning(self.pan))
			.volume(Decibels(self.vol_db));
		if let Some((a, b)) = self.lp {
			st = st.loop_region(Region {
				start: PlaybackPosition::Samples(a),
				end: EndPosition::Custom(PlaybackPosition::Samples(b)),
			});
		}
		StaticSoundData {
			sample_rate: self.sr,
			frames: frames.into(),
			settings: st,
			slice: None,
		}
	}
}

#[derive(Clone, Debug)]
pub struct TrackSpec {
	pub vol_db: f32,
	pub fx: Vec<FxSpec>,
	pub routes: Vec<(usize, f32)>,
	pub sounds: Vec<SoundSpec>,
	pub children: Vec<TrackSpec>,
}

#[derive(Clone, Debug)]
pub struct SendSpec {
	pub vol_db: f32,
	pub fx: Vec<FxSpec>,
}

#[derive(Clone, Debug)]
pub struct SceneSpec {
	pub sr: u32,
	pub main_vol_db: f32,
	pub main_fx: Vec<FxSpec>,
	pub sends: Vec<SendSpec>,
	pub tracks: Vec<TrackSpec>,
	pub main_sounds: Vec<SoundSpec>,
}

/// Effects for fixed-parameter scenes: stable settings only (loop gains below unity etc. are
/// guaranteed by FxSpec::gen), known-finding trigger classes are skipped when `skip_known` says so.
pub fn gen_fx_chain(r: &mut Rng, sr: u32, max: usize, skip: &dyn Fn(&FxSpec) -> bool) -> Vec<FxSpec> {
	let n = r.below(max as u64 + 1) as usize;
	let mut v = vec![];
	for _ in 0..n {
		for _try in 0..30 {
			let f = FxSpec::gen(r, sr, 0);
			if !skip(&f) {
				v.push(f);
				break;
			}
		}
	}
	v
}

impl TrackSpec {
	pub fn gen(r: &mut Rng, sr: u32, depth: u32, n_sends: usize, amp: f32, skip: &dyn Fn(&FxSpec) -> bool) -> TrackSpec {
		let n_children = if depth < 2 { r.below(3) as usize } else { 0 };
		let mut routes = vec![];
		for s in 0..n_sends {
			if r.chance(0.5) {
				routes.push((s, r.f32_in(-20.0, 0.0)));
			}
		}
		TrackSpec {
			vol_db: if r.chance(0.4) { 0.0 } else { r.f32_in(-20.0, 3.0) },
			fx: gen_fx_chain(r, sr, 2, skip),
			routes,
			sounds: (0..r.below(3)).map(|_| SoundSpec::gen(r, sr, amp)).collect(),
			children: (0..n_children).map(|_| TrackSpec::gen(r, sr, depth + 1, n_sends, amp, skip)).collect(),
		}
	}
	pub fn count_sounds(&self) -> usize {
		self.sounds.len() + self.children.iter().map(|c| c.count_sounds()).sum::<usize>()
	}
}

impl SceneSpec {
	pub fn gen(r: &mut Rng, sr: u32, amp: f32, skip: &dyn Fn(&FxSpec) -> bool) -> SceneSpec {
		let n_sends = r.below(3) as usize;
		let n_tracks = r.below(4) as usize;
		SceneSpec {
			sr,
			main_vol_db: if r.chance(0.5) { 0.0 } else { r.f32_in(-12.0, 3.0) },
			main_fx: gen_fx_chain(r, sr, 2, skip),
			sends: (0..n_sends).map(|_| SendSpec { vol_db: r.f32_in(-12.0, 0.0), fx: gen_fx_chain(r, sr, 2, skip) }).collect(),
			tracks: (0..n_tracks).map(|_| TrackSpec::gen(r, sr, 0, n_sends, amp, skip)).collect(),
			main_sounds: (0..1 + r.below(2)).map(|_| SoundSpec::gen(r, sr, amp)).collect(),
		}
	}
	pub fn has_recursive_fx(&self) -> bool {
		fn tr(t: &TrackSpec) -> bool {
			t.fx.iter().any(|f| f.recursive()) || t.children.iter().any(tr)
		}
		self.main_fx.iter().any(|f| f.recursive()) || self.sends.iter().any(|s| s.fx.iter().any(|f| f.recursive())) || self.tracks.iter().any(tr)
	}
	pub fn count_sounds(&self) -> usize {
		self.main_sounds.len() + self.tracks.iter().map(|t| t.count_sounds()).sum::<usize>()
	}
	pub fn describe(&self) -> String {
		format!("{:?}", self)
	}
}

pub struct Built {
	pub rig: Rig,
	pub sends: Vec<SendTrackHandle>,
	pub tracks: Vec<TrackHandle>,
	pub sounds: Vec<StaticSoundHandle>,
}

fn build_track(spec: &TrackSpec, sends: &[SendTrackHandle]) -> TrackBuilder {
	let mut b = TrackBuilder::new().volume(Decibels(spec.vol_db));
	for f in &spec.fx {
		b = b.with_effect(BuiltFx(f.build()));
	}
	for (s, db) in &spec.routes {
		b = b.with_send(&sends[*s], Decibels(*db));
	}
	b
}

fn add_children(parent: &mut TrackHandle, spec: &TrackSpec, sends: &[SendTrackHandle], tracks: &mut Vec<TrackHandle>, sounds: &mut Vec<StaticSoundHandle>) {
	for s in &spec.sounds {
		sounds.push(parent.play(s.data()).expect("play"));
	}
	for c in &spec.children {
		let mut h = parent.add_sub_track(build_track(c, sends)).expect("sub track");
		add_children(&mut h, c, sends, tracks, sounds);
		tracks.push(h);
	}
}

pub fn build(spec: &SceneSpec, ibs: usize, channels: u16) -> Built {
	let mut main = MainTrackBuilder::new().volume(Decibels(spec.main_vol_db));
	for f in &spec.main_fx {
		main = main.with_effect(BuiltFx(f.build()));
	}
	let mut rig = Rig::new(
		RigConfig {
			sample_rate: spec.sr,
			ibs,
			channels,
			..Default::default()
		},
		main,
	);
	let mut sends = vec![];
	for s in &spec.sends {
		let mut b = SendTrackBuilder::new().volume(Decibels(s.vol_db));
		for f in &s.fx {
			b = b.with_effect(BuiltFx(f.build()));
		}
		sends.push(rig.mgr.add_send_track(b).expect("send"));
	}
	let mut tracks = vec![];
	let mut sounds = vec![];
	for t in &spec.tracks {
		let mut h = rig.mgr.add_sub_track(build_track(t, &sends)).expect("track");
		add_children(&mut h, t, &sends, &mut tracks, &mut sounds);
		tracks.push(h);
	}
	for s in &spec.main_sounds {
		sounds.push(rig.mgr.play(s.data()).expect("play"));
	}
	Built { rig, sends, tracks, sounds }
}

/// Renders `total` frames with callbacks of the given sizes (cycled); returns interleaved samples.
pub fn render(b: &mut Built, total: usize, sizes: &[usize]) -> Vec<f32> {
	let ch = b.rig.cfg.channels as usize;
	let mut out = Vec::with_capacity(total * ch);
	let mut done = 0;
	let mut i = 0;
	while done < total {
		let n = sizes[i % sizes.len()].max(1).min(total - done);
		i += 1;
		let buf = b.rig.callback(n);
		out.extend_from_slice(buf);
		done += n;
	}
	out
}

pub fn silent_frame() -> Frame {
	Frame::ZERO
}
