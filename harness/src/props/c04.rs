//! C04 — static playback is sample-accurate: slice, loop, reverse, seek, resample, end.

use kira::info::MockInfoBuilder;
use kira::sound::static_sound::{StaticSoundData, StaticSoundHandle, StaticSoundSettings};
use kira::sound::{EndPosition, PlaybackPosition, PlaybackState, Region, Sound, SoundData};
use kira::{Frame, PlaybackRate};

use crate::jobj;
use crate::refmodel::hermite;
use crate::util::{Ctx, Rng, J};

const POISON: f32 = 1.0e6;

#[derive(Clone, Debug)]
pub struct Case {
	pub total: usize,
	pub slice: Option<(usize, usize)>,
	pub start: usize,
	pub lp: Option<(usize, usize)>,
	pub reverse: bool,
	pub rate: f64,
	pub sr_sound: u32,
	pub sr_dev: u32,
	pub chunk: usize,
}

impl Case {
	fn len(&self) -> usize {
		self.slice.map(|(s, e)| e - s).unwrap_or(self.total)
	}
	fn json(&self) -> J {
		jobj! {"frames" => self.total, "slice" => format!("{:?}", self.slice), "start_position" => self.start, "loop_region" => format!("{:?}", self.lp),
		"reverse" => self.reverse, "rate" => self.rate, "sound_rate" => self.sr_sound, "device_rate" => self.sr_dev, "chunk" => self.chunk}
	}
	fn backwards(&self) -> bool {
		(self.rate < 0.0) ^ self.reverse
	}
	/// source frame i (slice coordinates): value code i+1; frames outside the slice are poison
	fn data(&self) -> StaticSoundData {
		let (s, e) = self.slice.unwrap_or((0, self.total));
		let frames: Vec<Frame> = (0..self.total)
			.map(|i| {
				if i >= s && i < e {
					let v = (i - s + 1) as f32;
					Frame::new(v, -v)
				} else {
					Frame::new(POISON + i as f32, -(POISON + i as f32))
				}
			})
			.collect();
		let mut st = StaticSoundSettings::new()
			.start_position(PlaybackPosition::Samples(self.start))
			.reverse(self.reverse)
			.playback_rate(PlaybackRate(self.rate));
		if let Some((a, b)) = self.lp {
			// (a loop that runs to the end of the sound is given, every other time, in its open-ended form: `..` / `a..`)
			let to_end = b == self.len() && (a + self.total + self.start) % 2 == 0;
			st = if to_end && a == 0 {
				st.loop_region(..)
			} else if to_end {
				st.loop_region(Region { start: PlaybackPosition::Samples(a), end: EndPosition::EndOfAudio })
			} else {
				st.loop_region(Region { start: PlaybackPosition::Samples(a), end: EndPosition::Custom(PlaybackPosition::Samples(b)) })
			};
		}
		let mut d = StaticSoundData { sample_rate: self.sr_sound, frames: frames.into(), settings: st, slice: None };
		// the slice is given in one of the equivalent ways: the field, `.slice(a..b)`, a second `.slice()` replacing an earlier one
		// (positions always refer to the whole audio data), and - when it ends at the end of the data - the open-ended `a..`
		if let Some((a, b)) = self.slice {
			let reg = |a: usize, b: usize| Region { start: PlaybackPosition::Samples(a), end: EndPosition::Custom(PlaybackPosition::Samples(b)) };
			d = match (a + 3 * b + self.total + self.start) % 4 {
				_ if b > self.total => {
					d.slice = Some((a, b));
					d
				}
				0 => {
					d.slice = Some((a, b));
					d
				}
				1 => d.slice(reg(a, b)),
				2 => d.slice(reg(a / 2, b / 2 + 1)).slice(reg(a, b)),
				_ if b == self.total => d.slice(reg(a / 2, b / 2 + 1)).slice(Region { start: PlaybackPosition::Samples(a), end: EndPosition::EndOfAudio }),
				_ => d.slice(reg(b / 3, b)).slice(reg(a, b)),
			};
		}
		d
	}
}

/// Independent transport model: the playback index sequence in slice coordinates (None = end).
/// Forwards: next index, wrapping from loop end straight to loop start; ends after the last frame.
/// Backwards: previous index, wrapping from loop start straight to loop end - 1; ends after frame 0.
pub struct Model {
	pub pos: usize,
	pub playing: bool,
	pub len: usize,
	pub lp: Option<(usize, usize)>,
}

impl Model {
	pub fn new(c: &Case) -> Model {
		let len = c.len();
		let pos = if c.reverse { len.saturating_sub(1).saturating_sub(c.start) } else { c.start };
		Model { pos, playing: true, len, lp: c.lp }
	}
	pub fn advance(&mut self, backwards: bool) {
		if !self.playing {
			return;
		}
		if backwards {
			if let Some((ls, le)) = self.lp {
				while self.pos <= ls {
					self.pos += le - ls;
				}
			}
			if self.pos == 0 {
				self.playing = false;
			} else {
				self.pos -= 1;
			}
		} else {
			self.pos += 1;
			if let Some((ls, le)) = self.lp {
				while self.pos >= le {
					self.pos -= le - ls;
				}
			}
			if self.pos >= self.len {
				self.playing = false;
			}
		}
	}
	/// the sequence of played indices (bounded)
	pub fn sequence(c: &Case, max: usize) -> Vec<usize> {
		let mut m = Model::new(c);
		let mut v = vec![];
		while m.playing && v.len() < max {
			v.push(m.pos);
			m.advance(c.backwards());
		}
		v
	}
}

fn value_of(c: &Case, idx: usize) -> f64 {
	// a slice may extend past the end of the audio data: the part that has no data is silence
	let abs = c.slice.map(|(s, _)| s).unwrap_or(0) + idx;
	if idx < c.len() && abs < c.total {
		(idx + 1) as f64
	} else {
		0.0 // a position past the end of the slice is silence
	}
}

/// Runs one fixed-settings case. Returns Err(description) on violation.
pub fn run_fixed(c: &Case, frames_to_render: usize, stats: &mut Stats) -> Result<(), String> {
	let (mut sound, handle) = c.data().into_sound().map_err(|_| "into_sound failed".to_string())?;
	let info = MockInfoBuilder::new().build();
	let dt = 1.0 / c.sr_dev as f64;
	let step = c.sr_sound as f64 * c.rate.abs() * dt;
	let unity = step == 1.0;
	let seq = Model::sequence(c, frames_to_render * (step.ceil() as usize + 1) + 16);
	let ended_len = if seq.len() < frames_to_render * (step.ceil() as usize + 1) + 16 { Some(seq.len()) } else { None };
	let g = |m: i64| -> f64 {
		if m < 0 || m as usize >= seq.len() {
			0.0
		} else {
			value_of(c, seq[m as usize])
		}
	};
	let mut out = vec![Frame::ZERO; c.chunk];
	let mut k = 0usize; // output frame counter
	let mut j: i64 = 0; // model: index into seq of the "current" frame
	let mut frac = 0.0f64;
	let mut stopped_at: Option<usize> = None;
	while k < frames_to_render {
		sound.on_start_processing();
		let n = c.chunk.min(frames_to_render - k);
		for f in out.iter_mut() {
			*f = Frame::new(f32::NAN, f32::NAN);
		}
		sound.process(&mut out[..n], dt, &info);
		stats.frames += n as u64;
		for i in 0..n {
			let o = out[i];
			if !(o.left.abs() < POISON / 4.0) || !(o.right.abs() < POISON / 4.0) {
				return Err(format!("output frame {}: ({:e},{:e}) — read outside the slice (poison) or non-finite", k, o.left, o.right));
			}
			let want = if unity || frac == 0.0 {
				g(j)
			} else {
				hermite(g(j - 1), g(j), g(j + 1), g(j + 2), (frac as f32) as f64)
			};
			if unity {
				if o.left as f64 != want || o.right as f64 != -want {
					return Err(format!(
						"output frame {}: heard ({},{}) but the source frame to play is index {:?} = ({},{}) [bit-exact at rate ±1]",
						k, o.left, o.right, seq.get(j as usize), want, -want
					));
				}
				stats.exact += 1;
			} else {
				let mag = g(j - 1).abs().max(g(j).abs()).max(g(j + 1).abs()).max(g(j + 2).abs()).max(1.0);
				let tol = 8e-6 * mag;
				if (o.left as f64 - want).abs() > tol || (o.right as f64 + want).abs() > tol {
					return Err(format!(
						"output frame {}: heard ({},{}) but Hermite(src, pos index {} + {:.6}) = {} (window {:?})",
						k, o.left, o.right, j, frac, want, [g(j - 1), g(j), g(j + 1), g(j + 2)]
					));
				}
				stats.hermite += 1;
			}
			frac += step;
			while frac >= 1.0 {
				frac -= 1.0;
				j += 1;
			}
			k += 1;
		}
		let st = handle.state();
		if st == PlaybackState::Stopped && stopped_at.is_none() {
			stopped_at = Some(k);
			// Stopped must not be reported before the last in-slice frame has been output
			if let Some(el) = ended_len {
				// the last frame (sequence index el-1) has been heard once the model has moved past it
				if (j as usize) < el {
					return Err(format!("Stopped reported after {} output frames, before the last frame (sequence length {}) was heard (playback at sequence index {})", k, el, j));
				}
			} else {
				return Err(format!("Stopped reported after {} output frames but the sound is looping / not finished", k));
			}
		}
		if st != PlaybackState::Stopped && st != PlaybackState::Playing {
			return Err(format!("unexpected state {:?}", st));
		}
		if let (Some(el), None) = (ended_len, stopped_at) {
			// bounded progress: by the end of the callback containing playback index el+3 the sound must be Stopped
			if j as usize >= el + 4 + 1 {
				return Err(format!("sound not Stopped although playback passed index {} (sequence length {}): state {:?}", j, el, st));
			}
		}
	}
	if ended_len.is_some() && stopped_at.is_some() {
		stats.ended += 1;
	}
	Ok(())
}

#[derive(Default)]
pub struct Stats {
	pub frames: u64,
	pub exact: u64,
	pub hermite: u64,
	pub ended: u64,
	pub seeks: u64,
	pub outside_seeks: u64,
	pub flips: u64,
	pub loop_changes: u64,
	pub pair_checks: u64,
}

fn known_class(c: &Case) -> Option<&'static str> {
	if c.reverse && c.start + 1 > c.len() {
		return Some("C04.reverse_start_at_or_past_end");
	}
	None
}

fn run_case(ctx: &mut Ctx, stream: &str, idx: u64, c: &Case, stats: &mut Stats) {
	if let Some(k) = known_class(c) {
		if ctx.known(k) {
			ctx.exclude(k);
			return;
		}
	}
	ctx.eval();
	let step = c.sr_sound as f64 * c.rate.abs() / c.sr_dev as f64;
	let frames = ((c.len() as f64 * 3.0 / step.max(0.05)) as usize + 12).min(4000);
	crate::monitors::set_current(ctx, stream, idx, &format!("static sound case {}", c.json().to_string()), false);
	let r = super::guarded(|| run_fixed(c, frames, stats));
	crate::monitors::clear_current();
	match r {
		Ok(Ok(())) => {}
		Ok(Err(e)) => ctx.violation(stream, idx, &e, c.json()),
		Err(p) => ctx.violation(stream, idx, &format!("panic: {}", p.first().map(|p| p.sig()).unwrap_or_default()), c.json()),
	}
	let seq = if known_class(c).is_none() { Model::sequence(c, 64) } else { vec![] };
	if !seq.is_empty() {
		ctx.distinct_str(&format!("{:?}|{}|{}|{}", seq, c.rate, c.chunk.min(9), c.sr_sound == c.sr_dev));
	}
	if ctx.want_sample() && idx % 9973 == 5 {
		ctx.sample(jobj! {"case" => c.json(), "expected_index_sequence" => seq.iter().take(16).map(|x| J::U(*x as u64)).collect::<Vec<J>>()});
	}
}

const RATES: [f64; 7] = [1.0, -1.0, 0.5, 2.0, 1.5, 0.37, -0.6];

/// exhaustive enumeration for small lengths; `f` is called with a running case number
fn enumerate_small(max_total: usize, srs: &[(u32, u32)], f: &mut dyn FnMut(u64, Case)) {
	let mut n = 0u64;
	for total in 0..=max_total {
		let mut slices: Vec<Option<(usize, usize)>> = vec![None];
		for s in 0..=total {
			for e in s..=total {
				slices.push(Some((s, e)));
			}
		}
		for slice in slices {
			let len = slice.map(|(s, e)| e - s).unwrap_or(total);
			for start in 0..=len + 1 {
				let mut loops: Vec<Option<(usize, usize)>> = vec![None];
				for ls in 0..len {
					for le in ls + 1..=len {
						loops.push(Some((ls, le)));
					}
				}
				for lp in loops {
					for reverse in [false, true] {
						for rate in RATES {
							for chunk in [1usize, 3, len + 2] {
								for &(ss, sd) in srs {
									f(
										n,
										Case { total, slice, start, lp, reverse, rate, sr_sound: ss, sr_dev: sd, chunk },
									);
									n += 1;
								}
							}
						}
					}
				}
			}
		}
	}
}

// ---------------------------------------------------------------- commands: seeks and loop-region changes

/// Long sound at rate 1 with seek_to / seek_by / set_loop_region at random callback boundaries.
/// Local trace monitor: every consecutive pair of heard indices obeys the successor rule of the loop
/// region in force (either the old or the new rule during the 4 frames after a change); after a seek
/// the heard index is within one frame of the requested one; the reported position names the frame
/// being heard to within one frame.
fn run_commands(ctx: &mut Ctx, stream: &str, idx: u64, r: &mut Rng, stats: &mut Stats) {
	// sometimes the sound is a slice of a longer buffer: indices below are relative to the slice, frames outside it carry
	// a poison value that is not a source frame
	let total = r.usize_in(64, 100_000);
	let slice: Option<(usize, usize)> = if r.chance(0.4) && total > 200 {
		let a0 = r.usize_in(0, total / 3);
		Some((a0, r.usize_in(a0 + 64, total - 1)))
	} else {
		None
	};
	let len = slice.map(|(a0, b0)| b0 - a0).unwrap_or(total);
	let sr = *r.pick(&[8000u32, 22050, 44100, 48000, 96000]);
	let chunk = *r.pick(&[1usize, 16, 64, 128, 333]);
	let frames: Vec<Frame> = (0..total)
		.map(|i| match slice {
			Some((a0, b0)) if i < a0 || i >= b0 => Frame::new(3.0e6 + i as f32, 3.0e6),
			Some((a0, _)) => Frame::new((i - a0 + 1) as f32, -((i - a0 + 1) as f32)),
			None => Frame::new((i + 1) as f32, -((i + 1) as f32)),
		})
		.collect();
	let mut lp: Option<(usize, usize)> = if r.chance(0.5) {
		let a = r.below(len as u64 - 1) as usize;
		Some((a, r.usize_in(a + 1, len)))
	} else {
		None
	};
	let mut st = StaticSoundSettings::new().start_position(PlaybackPosition::Samples(r.below(len as u64) as usize));
	if let Some((a, b)) = lp {
		st = st.loop_region(Region { start: PlaybackPosition::Samples(a), end: EndPosition::Custom(PlaybackPosition::Samples(b)) });
	}
	let data = StaticSoundData { sample_rate: sr, frames: frames.into(), settings: st, slice };
	let detail_base = format!("len {} (slice {:?} of {}) sr {} chunk {} initial loop {:?}", len, slice, total, sr, chunk, lp);
	let verbose = ctx.verbose;
	let res = super::guarded(|| -> Result<(), String> {
		let (mut sound, mut handle): (Box<dyn Sound>, StaticSoundHandle) = data.into_sound().map_err(|_| "into_sound".to_string())?;
		let info = MockInfoBuilder::new().build();
		let dt = 1.0 / sr as f64;
		let mut out = vec![Frame::ZERO; chunk];
		let mut prev: Option<usize> = None;
		let mut old_lp = lp;
		let mut since_loop_change = 1000usize;
		let mut pending_seek: Option<(usize, usize, bool)> = None; // (target index, frames since applied, landed)
		let ncb = 40 + r.below(200) as usize;
		let mut log: Vec<String> = vec![];
		for cb in 0..ncb {
			// commands at callback boundaries
			if r.chance(0.08) && pending_seek.is_none() && since_loop_change > 8 {
				let region = if r.chance(0.25) {
					None
				} else {
					let a = r.below(len as u64 - 1) as usize;
					Some((a, r.usize_in(a + 1, len)))
				};
				// (a region that runs to the end of the sound is sometimes given open-ended: `a..`)
				let region = match region {
					Some((a, _)) if r.chance(0.25) => Some((a, len)),
					other => other,
				};
				match region {
					Some((a, b)) if b == len && r.chance(0.7) => handle.set_loop_region(Region { start: PlaybackPosition::Samples(a), end: EndPosition::EndOfAudio }),
					Some((a, b)) => handle.set_loop_region(Region { start: PlaybackPosition::Samples(a), end: EndPosition::Custom(PlaybackPosition::Samples(b)) }),
					None => handle.set_loop_region(None),
				}
				old_lp = lp;
				lp = region;
				since_loop_change = 0;
				stats.loop_changes += 1;
				log.push(format!("cb{} set_loop_region {:?}", cb, region));
			} else if r.chance(0.08) && pending_seek.is_none() && since_loop_change > 8 && prev.is_some()
				// not while playback is about to wrap (the look-ahead has already wrapped; a relative seek is then ambiguous)
				&& lp.map(|(_, b)| prev.unwrap() + 8 < b).unwrap_or(true)
			{
				// seek inside the region that keeps playing (inside the loop if one is set, so the landing index is unambiguous)
				let (lo, hi) = lp.unwrap_or((0, len));
				// ... or, while playback is inside a loop, to a frame outside it: the target is carried into the loop a whole
				// number of loop lengths at a time (backwards targets upwards, forward targets downwards), so a target that
				// is an exact multiple of the loop length away from the loop start lands on the loop start itself
				let outside = match (lp, prev) {
					(Some((a, b)), Some(p)) if b - a > 24 && p >= a && p + 8 < b && r.chance(0.45) => {
						let l = b - a;
						let backwards = if a == 0 { false } else if b >= len { true } else { r.chance(0.5) };
						let target = if backwards {
							if a >= l && r.chance(0.5) { a - l * r.usize_in(1, (a / l).min(3)) } else { r.below(a as u64) as usize }
						} else if r.chance(0.5) {
							b + l * r.usize_in(0, 2)
						} else {
							r.usize_in(b, len + l)
						};
						let mut folded = target;
						while folded >= b {
							folded -= l;
						}
						while folded < a {
							folded += l;
						}
						if folded + 9 <= b && (folded as i64 - p as i64).abs() >= 16 && (backwards || a > 0 || b < len) { Some((target, folded)) } else { None }
					}
					_ => None,
				};
				if let Some((target, folded)) = outside {
					handle.seek_to(target as f64 / sr as f64);
					log.push(format!("cb{} seek_to frame {} outside the loop {:?} while frame {} is playing (lands on frame {})", cb, target, lp, prev.unwrap(), folded));
					pending_seek = Some((folded, 0, false));
					stats.seeks += 1;
					stats.outside_seeks += 1;
				} else if hi - lo > 16 {
					let mut target = r.usize_in(lo, hi - 9);
					if (target as i64 - prev.unwrap_or(0) as i64).abs() < 16 {
						target = if target + 32 < hi - 9 { target + 32 } else { lo };
					}
					if (target as i64 - prev.unwrap_or(0) as i64).abs() < 16 {
						continue;
					}
					// aim at the middle of the frame so truncation/rounding conventions agree
					let t = (target as f64 + 0.5) / sr as f64;
					if r.chance(0.5) {
						handle.seek_to(t);
						log.push(format!("cb{} seek_to frame {}", cb, target));
					} else {
						// relative to the frame that is about to be heard when the command is applied
						let about_to_hear = prev.map(|p| p + 1).unwrap_or(0);
						let delta = (target as f64 + 0.5 - about_to_hear as f64) / sr as f64;
						handle.seek_by(delta);
						log.push(format!("cb{} seek_by {} s from frame {} (target frame {})", cb, delta, about_to_hear, target));
					}
					pending_seek = Some((target, 0, false));
					stats.seeks += 1;
				}
			}
			sound.on_start_processing();
			let reported = handle.position();
			sound.process(&mut out[..chunk], dt, &info);
			stats.frames += chunk as u64;
			if lp.is_some() && since_loop_change > 8 && handle.state() == PlaybackState::Stopped {
				return Err(format!("cb {}: the sound is Stopped although a loop region {:?} has been in force for {} frames [{}]", cb, lp, since_loop_change, log.join("; ")));
			}
			for (i, o) in out[..chunk].iter().enumerate() {
				if o.left == 0.0 && o.right == 0.0 {
					// silence: only legal once the sound has ended
					if handle.state() != PlaybackState::Stopped && lp.is_some() && since_loop_change > 8 {
						// may be within the 4-frame tail of a sound that is about to stop; tolerated only if no loop
					}
					prev = None;
					continue;
				}
				if o.left != -o.right || o.left.fract() != 0.0 || o.left < 1.0 || o.left > len as f32 {
					return Err(format!("cb {} frame {}: heard ({},{}) is not a source frame (rate 1 must be bit-exact) [{}]", cb, i, o.left, o.right, log.join("; ")));
				}
				let cur = o.left as usize - 1;
				if verbose && (pending_seek.is_some() || since_loop_change < 8) {
					eprintln!("cb {} frame {} heard {} prev {:?} lp {:?} pending {:?}", cb, i, cur, prev, lp, pending_seek);
				}
				if i == 0 && pending_seek.is_none() && since_loop_change > 8 {
					// reported position names the frame being heard to within one frame
					let rep_idx = reported * sr as f64;
					if (rep_idx - cur as f64).abs() > 1.0 + 1e-6 {
						// across a loop wrap the distance is measured along the loop
						let along = lp.map(|(a, b)| ((rep_idx - cur as f64).abs() - (b - a) as f64).abs()).unwrap_or(f64::MAX);
						if along > 1.0 + 1e-6 {
							return Err(format!("cb {}: reported position {} (= frame {:.3}) but the frame being heard is {} [{}]", cb, reported, rep_idx, cur, log.join("; ")));
						}
					}
				}
				if let Some((target, n, _landed)) = pending_seek.as_mut() {
					*n += 1;
					let succ_old = |p: usize| -> usize {
						let mut q = p + 1;
						if let Some((a, b)) = lp {
							while q >= b {
								q -= b - a;
							}
						}
						q
					};
					// Transitional window: while the interpolator's four-frame window refills, the frames already
					// looked ahead (old stream) may still be heard; afterwards playback must be at the requested
					// position (+ the frames played since) to within one frame.
					let near_target = |cur: usize, max_ahead: usize| (cur as i64) >= *target as i64 - 1 && (cur as i64) <= (*target + max_ahead) as i64 + 1;
					let oldish = prev.map(|p| cur == succ_old(p) || cur == succ_old(succ_old(p)) || cur == p).unwrap_or(true);
					if *n <= 4 {
						if !(oldish || near_target(cur, *n)) {
							return Err(format!("cb {} frame {}: {} frames after a seek to frame {}: heard {} (previous {:?}) is neither the old stream nor the target [{}]", cb, i, *n, target, cur, prev, log.join("; ")));
						}
					} else {
						if !near_target(cur, *n - 1) {
							return Err(format!("cb {} frame {}: {} frames after a seek to frame {} (window refilled) playback is at frame {} — not within one frame of the requested position [{}]", cb, i, *n, target, cur, log.join("; ")));
						}
						pending_seek = None;
					}
					prev = Some(cur);
					continue;
				}
				if let Some(p) = prev {
					let succ = |rule: Option<(usize, usize)>| -> usize {
						let mut q = p + 1;
						if let Some((a, b)) = rule {
							while q >= b {
								q -= b - a;
							}
						}
						q
					};
					let ok = cur == succ(lp) || (since_loop_change <= 4 && cur == succ(old_lp));
					if !ok {
						return Err(format!("cb {} frame {}: heard frame {} after frame {} but the successor under loop region {:?} is {} [{}]", cb, i, cur, p, lp, succ(lp), log.join("; ")));
					}
					stats.pair_checks += 1;
				}
				prev = Some(cur);
				since_loop_change = since_loop_change.saturating_add(1);
			}
			if handle.state() == PlaybackState::Stopped {
				break;
			}
		}
		Ok(())
	});
	ctx.eval();
	match res {
		Ok(Ok(())) => {}
		Ok(Err(e)) => ctx.violation(stream, idx, &e, jobj! {"scenario" => detail_base.clone()}),
		Err(p) => ctx.violation(stream, idx, &format!("panic: {}", p.first().map(|p| p.sig()).unwrap_or_default()), jobj! {"scenario" => detail_base.clone()}),
	}
	ctx.distinct_str(&format!("cmd|{}|{}|{}", len / 1000, chunk, lp.is_some()));
}

pub fn run(ctx: &mut Ctx) {
	let mut stats = Stats::default();
	// 1. exhaustive small lengths
	let max_total = ctx.t(5usize, 7usize);
	let srs: &[(u32, u32)] = if ctx.quick() { &[(1, 1), (44100, 44100), (48000, 44100)] } else { &[(1, 1), (44100, 44100), (48000, 44100), (8000, 22050), (48000, 48000), (96000, 96000)] };
	let mut cases: Vec<(u64, Case)> = vec![];
	{
		let shard = ctx.shard;
		let nshards = ctx.nshards;
		let only = ctx.only_case.clone();
		enumerate_small(max_total, srs, &mut |n, c| {
			let mine = match &only {
				Some((s, k)) => s == "small" && *k == n,
				None => n % nshards == shard,
			};
			if mine {
				cases.push((n, c));
			}
		});
	}
	ctx.count("exhaustive_small_cases_this_shard", cases.len() as u64);
	for (n, c) in cases {
		run_case(ctx, "small", n, &c, &mut stats);
	}
	// 2. random large
	let nr = ctx.t(60_000u64, 3_000_000u64);
	for i in 0..nr {
		if !ctx.owns("large", i) {
			continue;
		}
		if !ctx.replaying() && !ctx.time_left(0.8) {
			ctx.note("time budget reached in random large cases");
			break;
		}
		let mut r = Rng::for_case(ctx.seed, 401, i);
		let big = r.chance(0.1);
		let total = r.usize_in(7, if big { 100_000 } else { 3000 });
		let slice = if r.chance(0.5) {
			let s = r.below(total as u64) as usize;
			// (sometimes ending past the audio data: the in-range frames play, the rest is silence)
			Some((s, if r.chance(0.15) { total + r.usize_in(1, 40) } else { r.usize_in(s, total) }))
		} else {
			None
		};
		let len = slice.map(|(s, e)| e - s).unwrap_or(total);
		let lp = if len >= 1 && r.chance(0.5) {
			let a = r.below(len as u64) as usize;
			let to_end = r.chance(0.3);
			Some((a, if to_end { len } else { r.usize_in(a + 1, len) }))
		} else {
			None
		};
		let sr_sound = *r.pick(&[8000u32, 11025, 22050, 44100, 48000, 96000, 192000, 12345]);
		let same = r.chance(0.6);
		let c = Case {
			total,
			slice,
			start: if r.chance(0.1) { len } else { r.below(len.max(1) as u64) as usize },
			lp,
			reverse: r.chance(0.4),
			rate: if r.chance(0.5) { *r.pick(&[1.0, -1.0]) } else { r.f64_in(0.1, 4.0) * if r.chance(0.3) { -1.0 } else { 1.0 } },
			sr_sound,
			sr_dev: if same { sr_sound } else { *r.pick(&[8000u32, 44100, 48000, 96000]) },
			chunk: *r.pick(&[1usize, 7, 64, 128, 512]),
		};
		run_case(ctx, "large", i, &c, &mut stats);
	}
	// 3. commands
	let nc = ctx.t(20_000u64, 1_000_000u64);
	for i in 0..nc {
		if !ctx.owns("cmd", i) {
			continue;
		}
		if !ctx.replaying() && !ctx.time_left(1.0) {
			ctx.note("time budget reached in command cases");
			break;
		}
		let mut r = Rng::for_case(ctx.seed, 402, i);
		crate::monitors::set_current(ctx, "cmd", i, "static sound commands", false);
		run_commands(ctx, "cmd", i, &mut r, &mut stats);
		crate::monitors::clear_current();
	}
	// 4. seeks of a reversed sound to frames at or after its loop end (playback is above the loop, moving down)
	let nr = ctx.t(20_000u64, 1_000_000u64);
	for i in 0..nr {
		if !ctx.owns("rev", i) {
			continue;
		}
		if !ctx.replaying() && !ctx.time_left(1.0) {
			break;
		}
		let mut r = Rng::for_case(ctx.seed, 403, i);
		crate::monitors::set_current(ctx, "rev", i, "reverse seek", false);
		let res = super::guarded(|| run_reverse_seek(&mut r, &mut stats));
		crate::monitors::clear_current();
		ctx.eval();
		match res {
			Ok(Ok(())) => ctx.distinct_key(0xC04_0004_0000 | (i % 97)),
			Ok(Err(e)) => ctx.violation("rev", i, &e, J::Null),
			Err(p) => ctx.violation("rev", i, &format!("panic: {}", p.first().map(|p| p.sig()).unwrap_or_default()), J::Null),
		}
	}
	// 5. the playback rate changes sign at run time (+1 <-> -1, instantly): the direction changes with the command
	let nf = ctx.t(20_000u64, 1_000_000u64);
	for i in 0..nf {
		if !ctx.owns("flip", i) {
			continue;
		}
		if !ctx.replaying() && !ctx.time_left(0.5) {
			break;
		}
		let mut r = Rng::for_case(ctx.seed, 404, i);
		crate::monitors::set_current(ctx, "flip", i, "direction flip", false);
		let res = super::guarded(|| run_direction_flip(&mut r, &mut stats));
		crate::monitors::clear_current();
		ctx.eval();
		match res {
			Ok(Ok(k)) => ctx.distinct_key(0xC04_0005_0000 | k),
			Ok(Err(e)) => ctx.violation("flip", i, &e, J::Null),
			Err(p) => ctx.violation("flip", i, &format!("panic: {}", p.first().map(|p| p.sig()).unwrap_or_default()), J::Null),
		}
	}
	ctx.count("direction_flips_checked", stats.flips);
	ctx.count("frames_observed", stats.frames);
	ctx.count("frames_bit_exact_checked", stats.exact);
	ctx.count("frames_hermite_checked", stats.hermite);
	ctx.count("cases_reaching_stopped", stats.ended);
	ctx.count("seeks_checked", stats.seeks);
	ctx.count("seeks_to_frames_outside_the_loop", stats.outside_seeks);
	ctx.count("loop_region_changes", stats.loop_changes);
	ctx.count("successor_pairs_checked", stats.pair_checks);
}

/// A reversed sound with a loop region, started above the loop (it plays downwards towards it): a seek to a frame at or
/// after the loop end, below the current position, lands on that frame (within one frame once the interpolator's window
/// has refilled) and playback continues downwards from there into the loop.
fn run_reverse_seek(r: &mut Rng, stats: &mut Stats) -> Result<(), String> {
	let len = r.usize_in(400, 6000);
	let sr = *r.pick(&[8000u32, 44100, 48000]);
	let chunk = *r.pick(&[16usize, 64, 128]);
	let a = r.usize_in(0, len / 4);
	let b = r.usize_in(a + 16, len / 2);
	let frames: Vec<Frame> = (0..len).map(|i| Frame::new((i + 1) as f32, -((i + 1) as f32))).collect();
	let st = StaticSoundSettings::new().reverse(true).loop_region(Region { start: PlaybackPosition::Samples(a), end: EndPosition::Custom(PlaybackPosition::Samples(b)) });
	let data = StaticSoundData { sample_rate: sr, frames: frames.into(), settings: st, slice: None };
	let (mut sound, mut handle): (Box<dyn Sound>, StaticSoundHandle) = data.into_sound().map_err(|_| "into_sound".to_string())?;
	let info = MockInfoBuilder::new().build();
	let dt = 1.0 / sr as f64;
	let mut out = vec![Frame::ZERO; chunk];
	let heard = |f: &Frame| -> Option<usize> {
		if f.left >= 1.0 && f.right == -f.left {
			Some(f.left as usize - 1)
		} else {
			None
		}
	};
	// play downwards from the last frame for a while, staying well above the loop end
	let mut cur = len - 1;
	let n_before = r.usize_in(1, ((len - b) / chunk / 2).max(1));
	for _ in 0..n_before {
		sound.on_start_processing();
		sound.process(&mut out, dt, &info);
		if let Some(i) = out.iter().rev().find_map(heard) {
			cur = i;
		}
	}
	if cur <= b + 32 {
		return Ok(());
	}
	let target = r.usize_in(b, cur - 24);
	handle.seek_to((target as f64 + 0.25) / sr as f64);
	sound.on_start_processing();
	sound.process(&mut out, dt, &info);
	stats.seeks += 1;
	for (j, f) in out.iter().enumerate() {
		if j < 6 {
			continue;
		}
		let want = target as i64 - j as i64;
		if want < b as i64 + 4 {
			break;
		}
		match heard(f) {
			Some(i) if (i as i64 - want).abs() <= 4 => {}
			other => {
				return Err(format!("reversed sound of {} frames, loop {}..{}, playing downwards at frame {}: {} frames after seek_to(frame {}) the frame heard is {:?}, expected about {} (the target lies at or after the loop end and below the current position, so it is not folded into the loop)", len, a, b, cur, j, target, other, want));
			}
		}
		stats.pair_checks += 1;
	}
	Ok(())
}

pub fn confirm(key: &str) -> Option<Option<String>> {
	match key {
		"C04.reverse_start_at_or_past_end" => {
			// reversed 0-frame sound: never reaches Stopped (release) or panics (overflow checks)
			let c = Case { total: 0, slice: None, start: 0, lp: None, reverse: true, rate: 1.0, sr_sound: 1, sr_dev: 1, chunk: 4 };
			let r = super::guarded(|| -> Option<String> {
				let (mut sound, handle) = c.data().into_sound().ok()?;
				let info = MockInfoBuilder::new().build();
				let mut out = [Frame::ZERO; 4];
				for _ in 0..1000 {
					sound.on_start_processing();
					sound.process(&mut out, 1.0, &info);
				}
				if handle.state() != PlaybackState::Stopped {
					Some(format!("reversed sound with start position at/after its end (0 frames, start 0): still {:?} after 4000 frames, never Stopped (`num_frames - 1 - start_position` underflows)", handle.state()))
				} else {
					None
				}
			});
			Some(match r {
				Ok(x) => x,
				Err(p) => Some(format!("reversed sound with start position at/after its end panics: {}", p.first().map(|p| p.sig()).unwrap_or_default())),
			})
		}
		_ => None,
	}
}

/// A long index-coded sound (optionally reversed) at rate +1 on a device running at its own rate; at random callback
/// boundaries the playback rate is set to the opposite sign (instantly). kira moves a parameter from its old to its new
/// value linearly within the callback in which the command is read, so that callback is transitional (the speed passes
/// through zero and the position ends up between two frames). From the next callback on the position accumulates
/// rate x dt again: the source is a linear ramp, which the Hermite interpolation reproduces exactly, so consecutive
/// outputs differ by exactly one source frame in the new direction, starting no further than one callback's worth of
/// frames from the frame heard when the command arrived. Returns a class key.
fn run_direction_flip(r: &mut Rng, stats: &mut Stats) -> Result<u64, String> {
	let len = r.usize_in(8_000, 16_000);
	let sr = *r.pick(&[8000u32, 44100, 48000]);
	let chunk = *r.pick(&[8usize, 16, 64, 128, 333]);
	let reverse = r.chance(0.4);
	let frames: Vec<Frame> = (0..len).map(|i| Frame::new((i + 1) as f32, -((i + 1) as f32))).collect();
	let st = StaticSoundSettings::new().reverse(reverse);
	let data = StaticSoundData { sample_rate: sr, frames: frames.into(), settings: st, slice: None };
	let (mut sound, mut handle): (Box<dyn Sound>, StaticSoundHandle) = data.into_sound().map_err(|_| "into_sound".to_string())?;
	let info = MockInfoBuilder::new().build();
	let dt = 1.0 / sr as f64;
	let mut out = vec![Frame::ZERO; chunk];
	// direction in source-frame terms
	let mut dir: f64 = if reverse { -1.0 } else { 1.0 };
	let mut rate = 1.0f64;
	let mut prev: Option<f64> = None;
	let mut at_flip = 0.0f64;
	let mut log: Vec<String> = vec![];
	let mut played = 0usize;
	let mut next_flip = r.usize_in(2500 / chunk + 1, 4000 / chunk + 2);
	let ncb = 12_000 / chunk;
	let mut nflips = 0u64;
	let mut cbs_since_flip = 1000usize;
	let ctxs = |log: &Vec<String>| format!("len {} sr {} chunk {} reverse {}; {}", len, sr, chunk, reverse, log.join("; "));
	for cb in 0..ncb {
		if cb == next_flip && prev.is_some() {
			rate = -rate;
			dir = -dir;
			handle.set_playback_rate(PlaybackRate(rate), kira::Tween { duration: std::time::Duration::ZERO, ..Default::default() });
			cbs_since_flip = 0;
			at_flip = prev.unwrap();
			log.push(format!("cb{} set_playback_rate({}) while frame {} is heard", cb, rate, at_flip));
			// the next flip comes before playback can run back to where it began
			next_flip = cb + r.usize_in(2, (1800 / chunk).max(3));
			nflips += 1;
			stats.flips += 1;
		}
		sound.on_start_processing();
		sound.process(&mut out[..chunk], dt, &info);
		stats.frames += chunk as u64;
		for (i, o) in out[..chunk].iter().enumerate() {
			if o.left == 0.0 && o.right == 0.0 {
				if handle.state() == PlaybackState::Stopped || played < 4 {
					prev = None;
					continue;
				}
				return Err(format!("cb {} frame {}: silence while the sound is {:?} [{}]", cb, i, handle.state(), ctxs(&log)));
			}
			played += 1;
			// the case ends when playback comes near either end of the source (the window then holds frames of silence)
			if o.left.is_finite() && (o.left < 10.0 || o.left > len as f32 - 10.0) && played > 200 {
				return Ok(((reverse as u64) << 12) | ((chunk as u64 % 7) << 8) | nflips.min(31));
			}
			if !(o.left.is_finite() && o.left >= 0.0 && o.left <= len as f32 + 1.0 && o.left == -o.right) {
				return Err(format!("cb {} frame {}: the output ({},{}) is not within the source's range [{}]", cb, i, o.left, o.right, ctxs(&log)));
			}
			let cur = o.left as f64 - 1.0;
			if cbs_since_flip == 0 {
				// transitional callback
				prev = Some(cur);
				continue;
			}
			if cbs_since_flip == 1 && i == 0 && (cur - at_flip).abs() > chunk as f64 + 5.0 {
				return Err(format!("cb {} frame 0: one callback after the rate changed sign at frame {} playback is at frame {} [{}]", cb, at_flip, cur, ctxs(&log)));
			}
			if let Some(p) = prev {
				// (the first step after the transitional callback is made with that callback's last speed: checked from the second on)
				if !(cbs_since_flip == 1 && i == 0) && ((cur - p) - dir).abs() > 0.01 {
					return Err(format!(
						"cb {} frame {}: heard source position {} after {}, in callback {} after the playback rate was set to {}: the source is to be traversed in steps of {} [{}]",
						cb, i, cur, p, cbs_since_flip, rate, dir, ctxs(&log)
					));
				}
				stats.exact += 1;
			}
			prev = Some(cur);
		}
		cbs_since_flip = cbs_since_flip.saturating_add(1);
		if handle.state() == PlaybackState::Stopped {
			break;
		}
	}
	Ok(((reverse as u64) << 12) | ((chunk as u64 % 7) << 8) | nflips.min(31))
}
