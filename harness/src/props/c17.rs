//! C17 — modulators produce their configured curves; linked parameters follow in the same chunk.
//! Real LFO / tweener / custom modulators run through the renderer; a probe effect holding
//! `kira::Parameter`s linked to them (and a DC sound whose volume is linked) is compared chunk by chunk
//! with an independent model of the documented behaviour. A master probe modulator numbers the chunks so
//! "exactly once per chunk, before every reader" is checked on stamps.

use std::sync::atomic::{AtomicBool, AtomicU64, Ordering};
use std::sync::{Arc, Mutex};
use std::time::Duration;

use kira::effect::{Effect, EffectBuilder};
use kira::info::Info;
use kira::modulator::lfo::{LfoBuilder, LfoHandle, Waveform};
use kira::modulator::tweener::{TweenerBuilder, TweenerHandle};
use kira::modulator::{Modulator, ModulatorBuilder, ModulatorId};
use kira::track::{TrackBuilder, TrackHandle};
use kira::{Decibels, Easing, Frame, Mapping, Parameter, StartTime, Tween, Value};

use crate::jobj;
use crate::props::c06::gen_easing;
use crate::refmodel::{db_to_amp, ease_ref};
use crate::rig::Rig;
use crate::util::{Ctx, Rng, J};

// ---------------------------------------------------------------- model

#[derive(Clone, Copy, Debug)]
struct Map {
	i0: f64,
	i1: f64,
	o0: f64,
	o1: f64,
	easing: Easing,
}

impl Map {
	fn ident() -> Map {
		Map { i0: -1000.0, i1: 1000.0, o0: -1000.0, o1: 1000.0, easing: Easing::Linear }
	}
	fn apply(&self, x: f64) -> f64 {
		let a = ((x - self.i0) / (self.i1 - self.i0)).clamp(0.0, 1.0);
		self.o0 + (self.o1 - self.o0) * ease_ref(self.easing, a)
	}
	fn to_kira(&self) -> Mapping<f64> {
		Mapping { input_range: (self.i0, self.i1), output_range: (self.o0, self.o1), easing: self.easing }
	}
	fn to_kira_db(&self) -> Mapping<Decibels> {
		Mapping { input_range: (self.i0, self.i1), output_range: (Decibels(self.o0 as f32), Decibels(self.o1 as f32)), easing: self.easing }
	}
}

#[derive(Clone, Copy, Debug)]
enum Val {
	Fixed(f64),
	From { src: usize, map: Map },
}

#[derive(Clone, Debug)]
enum PState {
	Idle(Val),
	Tween { start: f64, start_known: bool, target: Val, time: f64, dur: f64, easing: Easing },
}

/// model of a parameter (kira::Parameter as documented: tween towards a value that may itself follow a modulator;
/// holds when the modulator no longer exists). `known` is false while the model cannot tell the value
/// (it depends on a modulator whose value the model only knows as an interval).
#[derive(Clone, Debug)]
struct PModel {
	state: PState,
	raw: f64,
	known: bool,
}

impl PModel {
	fn new(v: Val, default: f64) -> PModel {
		let raw = match v {
			Val::Fixed(x) => x,
			_ => default,
		};
		PModel { state: PState::Idle(v), raw, known: true }
	}
	fn set(&mut self, target: Val, dur: f64, easing: Easing) {
		self.state = PState::Tween { start: self.raw, start_known: self.known, target, time: 0.0, dur, easing };
	}
	/// `get(src)`: None if the modulator no longer exists, Some((value, known)) otherwise
	fn update(&mut self, dt: f64, get: &dyn Fn(usize) -> Option<(f64, bool)>) {
		let ev = |v: &Val| match v {
			Val::Fixed(x) => Some((*x, true)),
			Val::From { src, map } => get(*src).map(|(x, k)| (map.apply(x), k)),
		};
		if let PState::Tween { target, time, dur, .. } = &mut self.state {
			*time += dt;
			if *time >= *dur {
				self.state = PState::Idle(*target);
			}
		}
		match &self.state {
			PState::Idle(v) => {
				if let Some((x, k)) = ev(v) {
					self.raw = x;
					self.known = k;
				}
			}
			PState::Tween { start, start_known, target, time, dur, easing } => {
				if *dur > 0.0 {
					if let Some((t, k)) = ev(target) {
						self.raw = start + (t - start) * ease_ref(*easing, time / dur);
						self.known = k && *start_known;
					}
				}
			}
		}
	}
}

#[derive(Clone, Copy, Debug, PartialEq)]
enum Wave {
	Sine,
	Triangle,
	Saw,
	Pulse(f64),
}

impl Wave {
	fn to_kira(self) -> Waveform {
		match self {
			Wave::Sine => Waveform::Sine,
			Wave::Triangle => Waveform::Triangle,
			Wave::Saw => Waveform::Saw,
			Wave::Pulse(w) => Waveform::Pulse { width: w },
		}
	}
	/// documented shapes over one period p in [0,1): sine; triangle 0 -> 1 -> 0 -> -1 -> 0 at constant speed;
	/// saw rising from 0 to 1 over the first half, jumping to -1, rising back to 0; pulse +1 for p < width, else -1
	fn at(self, p: f64) -> f64 {
		let p = p - p.floor();
		match self {
			Wave::Sine => (p * std::f64::consts::TAU).sin(),
			Wave::Triangle => {
				if p < 0.25 {
					4.0 * p
				} else if p < 0.75 {
					2.0 - 4.0 * p
				} else {
					4.0 * p - 4.0
				}
			}
			Wave::Saw => {
				if p < 0.5 {
					2.0 * p
				} else {
					2.0 * p - 2.0
				}
			}
			Wave::Pulse(w) => {
				if p < w {
					1.0
				} else {
					-1.0
				}
			}
		}
	}
	/// [min, max] of the waveform over the phase interval [lo, hi] (padded)
	fn range(self, lo: f64, hi: f64) -> (f64, f64) {
		if hi - lo >= 1.0 {
			return (-1.0, 1.0);
		}
		let jumps: Vec<f64> = match self {
			Wave::Saw => vec![0.5],
			Wave::Pulse(w) => vec![0.0, w],
			_ => vec![],
		};
		for j in jumps {
			// does [lo,hi] (widened by the rounding of the accumulated phase) contain j + n for some integer n ?
			let e = 1e-9 * (1.0 + hi.abs());
			if (hi + e - j).floor() >= (lo - e - j).ceil() {
				return (-1.0, 1.0);
			}
		}
		if lo == hi {
			let v = self.at(lo);
			return (v, v);
		}
		let n = 32;
		let mut mn = f64::INFINITY;
		let mut mx = f64::NEG_INFINITY;
		for k in 0..=n {
			let v = self.at(lo + (hi - lo) * k as f64 / n as f64);
			mn = mn.min(v);
			mx = mx.max(v);
		}
		let pad = 6.3 * (hi - lo) / n as f64 + 1e-9;
		((mn - pad).max(-1.0), (mx + pad).min(1.0))
	}
}

#[derive(Clone, Debug)]
enum MKind {
	Lfo { wave: Wave, freq: PModel, amp: PModel, off: PModel, lo: f64, hi: f64, phase_known: bool },
	Tweener { tween: Option<(f64, f64, f64, f64, Easing)> },
	/// custom modulator: value = offset parameter + sawtooth of the update count
	Probe { off: PModel, count: u64 },
}

#[derive(Clone, Debug)]
struct MModel {
	kind: MKind,
	/// expected value interval after the last update
	vlo: f64,
	vhi: f64,
	alive: bool,
	/// dropped: disappears at the next callback start
	dropped: bool,
	started: bool,
}

fn probe_wave(count: u64) -> f64 {
	((count * 37) % 100) as f64 / 100.0
}

// ---------------------------------------------------------------- probes (real side)

#[derive(Default)]
struct Stamps {
	chunk: AtomicU64,
}

struct FxLog {
	/// per process call: (chunk number seen, frames, values...)
	rows: Vec<(u64, usize, Vec<f64>)>,
}

struct ReaderFx {
	params: Vec<Parameter<f64>>,
	log: Arc<Mutex<FxLog>>,
	stamps: Arc<Stamps>,
}

impl Effect for ReaderFx {
	fn process(&mut self, input: &mut [Frame], dt: f64, info: &Info) {
		let mut l = self.log.lock().unwrap();
		let i = l.rows.iter().position(|r| r.1 == usize::MAX);
		// rows are pre-allocated (no allocation in the callback): find the first unused one
		if let Some(i) = i {
			let row = &mut l.rows[i];
			row.0 = self.stamps.chunk.load(Ordering::SeqCst);
			row.1 = input.len();
			for (k, p) in self.params.iter_mut().enumerate() {
				p.update(dt * input.len() as f64, info);
				row.2[k] = p.value();
			}
		}
	}
}

struct ReaderFxBuilder(ReaderFx);
impl EffectBuilder for ReaderFxBuilder {
	type Handle = ();
	fn build(self) -> (Box<dyn Effect>, ()) {
		(Box::new(self.0), ())
	}
}

struct ModLog {
	/// (chunk counter after this update for the master / seen by the others, dt)
	rows: Vec<(u64, f64)>,
	n: usize,
}

struct ProbeMod {
	master: bool,
	off: Parameter<f64>,
	count: u64,
	value: f64,
	stamps: Arc<Stamps>,
	log: Arc<Mutex<ModLog>>,
	removed: Arc<AtomicBool>,
}

impl Modulator for ProbeMod {
	fn update(&mut self, dt: f64, info: &Info) {
		let c = if self.master { self.stamps.chunk.fetch_add(1, Ordering::SeqCst) + 1 } else { self.stamps.chunk.load(Ordering::SeqCst) };
		{
			let mut l = self.log.lock().unwrap();
			let n = l.n;
			if n < l.rows.len() {
				l.rows[n] = (c, dt);
			}
			l.n += 1;
		}
		self.off.update(dt, info);
		self.count += 1;
		self.value = self.off.value() + probe_wave(self.count);
	}
	fn value(&self) -> f64 {
		self.value
	}
	fn finished(&self) -> bool {
		self.removed.load(Ordering::SeqCst)
	}
}

struct ProbeModHandle {
	id: ModulatorId,
	removed: Arc<AtomicBool>,
	log: Arc<Mutex<ModLog>>,
}
impl Drop for ProbeModHandle {
	fn drop(&mut self) {
		self.removed.store(true, Ordering::SeqCst);
	}
}

struct ProbeModBuilder {
	master: bool,
	off: Value<f64>,
	stamps: Arc<Stamps>,
}
impl ModulatorBuilder for ProbeModBuilder {
	type Handle = ProbeModHandle;
	fn build(self, id: ModulatorId) -> (Box<dyn Modulator>, ProbeModHandle) {
		let removed = Arc::new(AtomicBool::new(false));
		let log = Arc::new(Mutex::new(ModLog { rows: vec![(0, 0.0); 4096], n: 0 }));
		(Box::new(ProbeMod { master: self.master, off: Parameter::new(self.off, 0.0), count: 0, value: 0.0, stamps: self.stamps, log: log.clone(), removed: removed.clone() }), ProbeModHandle { id, removed, log })
	}
}

enum ModH {
	Lfo(LfoHandle),
	Tw(TweenerHandle),
	Probe(ProbeModHandle),
}
impl ModH {
	fn id(&self) -> ModulatorId {
		match self {
			ModH::Lfo(h) => h.id(),
			ModH::Tw(h) => h.id(),
			ModH::Probe(h) => h.id,
		}
	}
}

// ---------------------------------------------------------------- scene

#[derive(Clone, Debug)]
enum ModSpec {
	Lfo { wave: Wave, freq: Val, amp: Val, off: Val, phase0: f64 },
	Tweener { init: f64 },
	Probe { off: Val },
}

#[derive(Clone, Debug)]
enum Ev {
	Drop(usize),
	TweenerSet { m: usize, target: f64, dur: f64, easing: Easing },
	LfoSet { m: usize, which: u8, target: Val, dur: f64, easing: Easing },
	LfoWave { m: usize, wave: Wave },
	LfoPhase { m: usize, phase: f64 },
	Add(ModSpec),
}

#[derive(Clone, Debug)]
struct Scene {
	sr: u32,
	ibs: usize,
	mods: Vec<ModSpec>,
	/// extra reader parameters: (modulator, mapping)
	readers: Vec<(usize, Map)>,
	/// DC sound volume linked to (modulator, mapping to dB)
	sound: Option<(usize, Map)>,
	/// (callback index before which the event is issued, event)
	events: Vec<(usize, Ev)>,
	callbacks: Vec<usize>,
}

fn qdur(x: f64) -> f64 {
	Duration::from_secs_f64(x).as_secs_f64()
}

fn gen_map(r: &mut Rng, around: (f64, f64)) -> Map {
	let (a, b) = around;
	let span = (b - a).abs().max(1e-3);
	let mut i0 = a + r.f64_in(-0.3, 0.6) * span;
	let mut i1 = i0 + r.f64_in(0.2, 1.2) * span;
	if r.chance(0.3) {
		std::mem::swap(&mut i0, &mut i1); // inverted input range
	}
	let (o0, o1) = if r.chance(0.5) { (r.f64_in(-5.0, 5.0), r.f64_in(-5.0, 5.0)) } else { (r.f64_in(0.0, 10.0), r.f64_in(-10.0, 0.0)) };
	Map { i0, i1, o0, o1, easing: gen_easing(r) }
}

fn gen_val(r: &mut Rng, n_earlier: usize, fixed: (f64, f64), nonneg: bool) -> Val {
	if n_earlier > 0 && r.chance(0.45) {
		let src = r.below(n_earlier as u64) as usize;
		let mut map = gen_map(r, (-1.5, 1.5));
		if nonneg {
			map.o0 = map.o0.abs();
			map.o1 = map.o1.abs();
		}
		Val::From { src, map }
	} else {
		Val::Fixed(r.f64_in(fixed.0, fixed.1))
	}
}

fn gen_wave(r: &mut Rng) -> Wave {
	match r.below(4) {
		0 => Wave::Sine,
		1 => Wave::Triangle,
		2 => Wave::Saw,
		_ => Wave::Pulse(*r.pick(&[0.5, 0.25, 0.1, 0.9, 0.0, 1.0])),
	}
}

fn gen_mod(r: &mut Rng, n_earlier: usize, chunk_dt: f64) -> ModSpec {
	match r.below(5) {
		0 | 1 | 2 => {
			// fast LFOs: adjacent chunks differ by design so a one-chunk lag is visible
			let fmax = 0.35 / chunk_dt;
			ModSpec::Lfo { wave: gen_wave(r), freq: gen_val(r, n_earlier, (0.0, fmax), true), amp: gen_val(r, n_earlier, (-2.0, 2.0), false), off: gen_val(r, n_earlier, (-2.0, 2.0), false), phase0: if r.chance(0.3) { 0.0 } else { r.f64_in(0.0, std::f64::consts::TAU) } }
		}
		3 => ModSpec::Tweener { init: r.f64_in(-2.0, 2.0) },
		_ => ModSpec::Probe { off: gen_val(r, n_earlier, (-1.0, 1.0), false) },
	}
}

fn gen_scene(r: &mut Rng) -> Scene {
	let sr = *r.pick(&[1000u32, 8000, 44100]);
	let ibs = *r.pick(&[1usize, 4, 16, 50, 128]);
	let chunk_dt = ibs as f64 / sr as f64;
	let n = r.usize_in(1, 5);
	let mut mods = vec![];
	for i in 0..n {
		mods.push(gen_mod(r, i, chunk_dt));
	}
	let mut readers = vec![];
	for _ in 0..r.usize_in(0, 4) {
		readers.push((r.below(n as u64) as usize, gen_map(r, (-2.0, 2.0))));
	}
	let sound = if r.chance(0.6) {
		let m = r.below(n as u64) as usize;
		let mut map = gen_map(r, (-2.0, 2.0));
		map.o0 = r.f64_in(-30.0, 0.0);
		map.o1 = r.f64_in(-30.0, 0.0);
		Some((m, map))
	} else {
		None
	};
	let n_cb = r.usize_in(4, 14);
	let callbacks: Vec<usize> = (0..n_cb).map(|_| if r.chance(0.5) { ibs * r.usize_in(1, 3) } else { r.usize_in(1, 3 * ibs + 2) }).collect();
	let mut events = vec![];
	let mut count = n;
	let mut alive: Vec<bool> = vec![true; n];
	let mut kinds: Vec<u8> = mods.iter().map(|m| match m { ModSpec::Lfo { .. } => 0, ModSpec::Tweener { .. } => 1, _ => 2 }).collect();
	for cb in 1..n_cb {
		for _ in 0..r.below(3) {
			let m = r.below(count as u64) as usize;
			if !alive[m] {
				continue;
			}
			let dur = qdur(if r.chance(0.2) { 0.0 } else { chunk_dt * r.f64_in(0.2, 6.0) });
			let easing = gen_easing(r);
			match r.below(6) {
				0 => {
					alive[m] = false;
					events.push((cb, Ev::Drop(m)));
				}
				1 | 2 if kinds[m] == 1 => events.push((cb, Ev::TweenerSet { m, target: r.f64_in(-2.0, 2.0), dur, easing })),
				1 | 2 if kinds[m] == 0 => {
					let which = r.below(3) as u8;
					// links go to modulators created earlier (creation order is dependency order)
					let target = match which {
						0 => gen_val(r, m, (0.0, 0.35 / chunk_dt), true),
						_ => gen_val(r, m, (-2.0, 2.0), false),
					};
					events.push((cb, Ev::LfoSet { m, which, target, dur, easing }));
				}
				3 if kinds[m] == 0 => events.push((cb, Ev::LfoWave { m, wave: gen_wave(r) })),
				4 if kinds[m] == 0 => events.push((cb, Ev::LfoPhase { m, phase: r.f64_in(0.0, std::f64::consts::TAU) })),
				5 if count < 8 => {
					let spec = gen_mod(r, count, chunk_dt);
					kinds.push(match spec { ModSpec::Lfo { .. } => 0, ModSpec::Tweener { .. } => 1, _ => 2 });
					alive.push(true);
					count += 1;
					events.push((cb, Ev::Add(spec)));
				}
				_ => {}
			}
		}
	}
	Scene { sr, ibs, mods, readers, sound, events, callbacks }
}

// ---------------------------------------------------------------- execution

struct Reader {
	/// model parameters: first the identity readers, then the mapped ones
	params: Vec<(usize, Map, PModel)>,
	log: Arc<Mutex<FxLog>>,
	first_chunk: u64,
	_track: TrackHandle,
}

struct World {
	rig: Rig,
	stamps: Arc<Stamps>,
	master: ProbeModHandle,
	handles: Vec<Option<ModH>>,
	ids: Vec<ModulatorId>,
	model: Vec<MModel>,
	readers: Vec<Reader>,
	chunk: u64,
	sound: Option<(usize, Map, PModel)>,
	_sound_handle: Option<kira::sound::static_sound::StaticSoundHandle>,
	checks: u64,
	interval_checks: u64,
	unknown_skipped: u64,
	hold_checks: u64,
	lag_suspects: u64,
}

fn to_value(v: &Val, ids: &[ModulatorId]) -> Value<f64> {
	match v {
		Val::Fixed(x) => Value::Fixed(*x),
		Val::From { src, map } => Value::FromModulator { id: ids[*src], mapping: map.to_kira() },
	}
}

impl World {
	fn add_mod(&mut self, spec: &ModSpec) -> Result<usize, String> {
		let idx = self.model.len();
		let (h, m) = match spec {
			ModSpec::Lfo { wave, freq, amp, off, phase0 } => {
				let b = LfoBuilder::new().waveform(wave.to_kira()).frequency(to_value(freq, &self.ids)).amplitude(to_value(amp, &self.ids)).offset(to_value(off, &self.ids)).starting_phase(*phase0);
				let h = self.rig.mgr.add_modulator(b).map_err(|_| "modulator limit")?;
				let p = phase0 / std::f64::consts::TAU;
				(ModH::Lfo(h), MKind::Lfo { wave: *wave, freq: PModel::new(*freq, 2.0), amp: PModel::new(*amp, 1.0), off: PModel::new(*off, 0.0), lo: p, hi: p, phase_known: true })
			}
			ModSpec::Tweener { init } => {
				let h = self.rig.mgr.add_modulator(TweenerBuilder { initial_value: *init }).map_err(|_| "modulator limit")?;
				(ModH::Tw(h), MKind::Tweener { tween: None })
			}
			ModSpec::Probe { off } => {
				let h = self.rig.mgr.add_modulator(ProbeModBuilder { master: false, off: to_value(off, &self.ids), stamps: self.stamps.clone() }).map_err(|_| "modulator limit")?;
				(ModH::Probe(h), MKind::Probe { off: PModel::new(*off, 0.0), count: 0 })
			}
		};
		let v0 = match spec {
			ModSpec::Tweener { init } => *init,
			_ => 0.0,
		};
		self.ids.push(h.id());
		self.handles.push(Some(h));
		self.model.push(MModel { kind: m, vlo: v0, vhi: v0, alive: true, dropped: false, started: false });
		Ok(idx)
	}

	fn add_reader(&mut self, reads: &[(usize, Map)]) -> Result<(), String> {
		let log = Arc::new(Mutex::new(FxLog { rows: (0..2048).map(|_| (0, usize::MAX, vec![0.0; reads.len()])).collect() }));
		let params = reads.iter().map(|(m, map)| Parameter::new(Value::FromModulator { id: self.ids[*m], mapping: map.to_kira() }, 0.0)).collect();
		let t = self.rig.mgr.add_sub_track(TrackBuilder::new().with_effect(ReaderFxBuilder(ReaderFx { params, log: log.clone(), stamps: self.stamps.clone() }))).map_err(|_| "track limit")?;
		self.readers.push(Reader { params: reads.iter().map(|(m, map)| (*m, *map, PModel::new(Val::From { src: *m, map: *map }, 0.0))).collect(), log, first_chunk: self.chunk + 1, _track: t });
		Ok(())
	}

	fn apply(&mut self, ev: &Ev) -> Result<(), String> {
		match ev {
			Ev::Drop(m) => {
				self.handles[*m] = None;
				self.model[*m].dropped = true;
			}
			Ev::TweenerSet { m, target, dur, easing } => {
				if let Some(ModH::Tw(h)) = self.handles[*m].as_mut() {
					h.set(*target, Tween { start_time: StartTime::Immediate, duration: Duration::from_secs_f64(*dur), easing: *easing });
					if let MKind::Tweener { tween } = &mut self.model[*m].kind {
						// from-value is taken when the command is read (next callback start): mark with NaN
						*tween = Some((f64::NAN, *target, 0.0, *dur, *easing));
					}
				}
			}
			Ev::LfoSet { m, which, target, dur, easing } => {
				if let Some(ModH::Lfo(h)) = self.handles[*m].as_mut() {
					let tw = Tween { start_time: StartTime::Immediate, duration: Duration::from_secs_f64(*dur), easing: *easing };
					let v = to_value(target, &self.ids);
					match which {
						0 => h.set_frequency(v, tw),
						1 => h.set_amplitude(v, tw),
						_ => h.set_offset(v, tw),
					}
					if let MKind::Lfo { freq, amp, off, .. } = &mut self.model[*m].kind {
						let p = match which {
							0 => freq,
							1 => amp,
							_ => off,
						};
						p.set(*target, *dur, *easing);
					}
				}
			}
			Ev::LfoWave { m, wave } => {
				if let Some(ModH::Lfo(h)) = self.handles[*m].as_mut() {
					h.set_waveform(wave.to_kira());
					if let MKind::Lfo { wave: w, .. } = &mut self.model[*m].kind {
						*w = *wave;
					}
				}
			}
			Ev::LfoPhase { m, phase } => {
				if let Some(ModH::Lfo(h)) = self.handles[*m].as_mut() {
					h.set_phase(*phase);
					if let MKind::Lfo { lo, hi, phase_known, .. } = &mut self.model[*m].kind {
						*lo = phase / std::f64::consts::TAU;
						*hi = *lo;
						*phase_known = true;
					}
				}
			}
			Ev::Add(spec) => {
				let i = self.add_mod(spec)?;
				self.add_reader(&[(i, Map::ident())])?;
			}
		}
		Ok(())
	}

	/// model: one internal chunk
	fn model_chunk(&mut self, dt: f64) {
		for i in 0..self.model.len() {
			if !self.model[i].alive {
				continue;
			}
			// values of the modulators as a reader inside modulator i sees them (earlier ones already updated);
			// interval-valued ones count as unknown
			let snapshot: Vec<Option<(f64, bool)>> = self.model.iter().map(|m| if m.alive { Some(if m.vlo == m.vhi { (m.vlo, true) } else { (0.0, false) }) } else { None }).collect();
			let get = |s: usize| snapshot[s];
			let m = &mut self.model[i];
			m.started = true;
			match &mut m.kind {
				MKind::Lfo { wave, freq, amp, off, lo, hi, phase_known } => {
					let f_prev = freq.raw;
					let f_prev_known = freq.known;
					freq.update(dt, &get);
					amp.update(dt, &get);
					off.update(dt, &get);
					if !freq.known || !f_prev_known {
						*phase_known = false;
					}
					// kira integrates with the frequency at the end of the chunk; any value between the two ends is
					// a faithful reading of "the configured frequency" while it is changing
					let (fa, fb) = (f_prev.min(freq.raw), f_prev.max(freq.raw));
					*lo += dt * fa;
					*hi += dt * fb;
					let fl = lo.floor();
					*lo -= fl;
					*hi -= fl;
					if *phase_known && amp.known && off.known {
						let (wl, wh) = wave.range(*lo, *hi);
						let a = amp.raw;
						let (x, y) = (off.raw + a * wl, off.raw + a * wh);
						m.vlo = x.min(y);
						m.vhi = x.max(y);
					} else {
						m.vlo = f64::NEG_INFINITY;
						m.vhi = f64::INFINITY;
					}
				}
				MKind::Tweener { tween } => {
					if let Some((from, to, time, dur, easing)) = tween {
						if from.is_nan() {
							*from = 0.5 * (m.vlo + m.vhi);
						}
						*time += dt;
						if *time >= *dur {
							m.vlo = *to;
							m.vhi = *to;
							*tween = None;
						} else {
							let v = *from + (*to - *from) * ease_ref(*easing, *time / *dur);
							m.vlo = v;
							m.vhi = v;
						}
					}
				}
				MKind::Probe { off, count } => {
					off.update(dt, &get);
					*count += 1;
					let v = off.raw + probe_wave(*count);
					if off.known {
						m.vlo = v;
						m.vhi = v;
					} else {
						m.vlo = f64::NEG_INFINITY;
						m.vhi = f64::INFINITY;
					}
				}
			}
		}
	}

	fn run(&mut self, scene: &Scene) -> Result<(), String> {
		let dt1 = 1.0 / scene.sr as f64;
		for (cb, n) in scene.callbacks.iter().enumerate() {
			for (at, ev) in &scene.events {
				if *at == cb {
					self.apply(ev)?;
				}
			}
			// removal happens at the start of the callback
			for m in self.model.iter_mut() {
				if m.dropped {
					m.alive = false;
				}
			}
			let first_row_of_cb = self.chunk;
			let out = self.rig.callback(*n).to_vec();
			let mut done = 0;
			while done < *n {
				let frames = (*n - done).min(scene.ibs);
				let dt = dt1 * frames as f64;
				self.model_chunk(dt);
				self.chunk += 1;
				let snapshot: Vec<Option<(f64, f64)>> = self.model.iter().map(|m| if m.alive { Some((m.vlo, m.vhi)) } else { None }).collect();
				// ---- reader parameters
				for rd in self.readers.iter_mut() {
					if self.chunk < rd.first_chunk {
						continue;
					}
					let row_ix = (self.chunk - rd.first_chunk) as usize;
					let log = rd.log.lock().unwrap();
					let row = &log.rows[row_ix];
					if row.1 == usize::MAX {
						return Err(format!("reader effect was not processed in chunk {}", self.chunk));
					}
					if row.0 != self.chunk {
						return Err(format!("in chunk {} an effect ran while the master modulator had been updated {} times: modulators must be updated exactly once per chunk, before anything that reads them", self.chunk, row.0));
					}
					if row.1 != frames {
						return Err(format!("chunk {}: effect got {} frames, expected {}", self.chunk, row.1, frames));
					}
					for (k, (src, map, pm)) in rd.params.iter_mut().enumerate() {
						let got = row.2[k];
						match snapshot[*src] {
							Some((a, b)) if !a.is_finite() || !b.is_finite() => {
								pm.raw = got;
								self.unknown_skipped += 1;
							}
							Some((a, b)) => {
								if b > a {
									self.interval_checks += 1;
								}
								let (x, y) = (map.apply(a), map.apply(b));
								// monotone mappings: the image of [a,b] is between the images of the ends (easings are monotone on [0,1])
								let (mut lo, mut hi) = (x.min(y), x.max(y));
								if b - a > 0.0 {
									// be safe with inverted / eased mappings over an interval: sample
									for j in 1..16 {
										let v = map.apply(a + (b - a) * j as f64 / 16.0);
										lo = lo.min(v);
										hi = hi.max(v);
									}
								}
								let tol = 1e-9 * (1.0 + lo.abs().max(hi.abs())) + if b - a > 0.0 { 1e-6 } else { 0.0 };
								if got < lo - tol || got > hi + tol {
									// one-chunk lag?
									let lagged = (got - pm.raw).abs() <= 1e-9 * (1.0 + got.abs());
									if lagged {
										self.lag_suspects += 1;
									}
									return Err(format!("chunk {} ({} frames): parameter linked to modulator #{} through {:?} is {} but the mapping of the modulator's value in this chunk is in [{}, {}]{}", self.chunk, frames, src, map, got, lo, hi, if lagged { " (it equals the previous chunk's value: one chunk late)".to_string() } else if std::env::var("KVH_DEBUG").is_ok() { format!(" prev got {} model {:?}", pm.raw, self.model[*src]) } else { String::new() }));
								}
								pm.raw = got;
								self.checks += 1;
							}
							None => {
								// the modulator no longer exists: the parameter holds its last value, bit-exactly
								if self.model[*src].started && got.to_bits() != pm.raw.to_bits() {
									return Err(format!("chunk {}: parameter linked to removed modulator #{} changed from {} to {} (it must hold its last value)", self.chunk, src, pm.raw, got));
								}
								pm.raw = got;
								self.hold_checks += 1;
							}
						}
					}
				}
				// ---- LFO range invariant (identity readers are the first parameters of reader 0)
				// ---- sound volume linked to a modulator: gain at the last frame of the chunk
				if let Some((src, map, pm)) = self.sound.as_mut() {
					let got = out[2 * (done + frames - 1)] as f64 / 0.5;
					match snapshot[*src] {
						_ if (self.rig.frames as usize + done + frames) < *n + 8 => {}
						Some((a, b)) if !a.is_finite() || !b.is_finite() => {
							pm.raw = got;
						}
						Some((a, b)) => {
							let mut lo = f64::INFINITY;
							let mut hi = f64::NEG_INFINITY;
							for j in 0..=16 {
								let v = db_to_amp(map.apply(a + (b - a) * j as f64 / 16.0));
								lo = lo.min(v);
								hi = hi.max(v);
								if b == a {
									break;
								}
							}
							let tol = 2e-5 * (1.0 + hi) + if b - a > 0.0 { 1e-4 } else { 0.0 };
							if got < lo - tol || got > hi + tol {
								return Err(format!("chunk {} ({} frames): gain of a sound whose volume is linked to modulator #{} through {:?} is {} at the chunk's last frame, expected [{}, {}]", self.chunk, frames, src, map, got, lo, hi));
							}
							pm.raw = got;
							self.checks += 1;
						}
						None => {
							if pm.raw.is_nan() {
								pm.raw = got;
							}
							if self.model[*src].started && (got - pm.raw).abs() > 1e-6 {
								return Err(format!("chunk {}: volume linked to removed modulator #{} moved from gain {} to {}", self.chunk, src, pm.raw, got));
							}
						}
					}
				}
				done += frames;
			}
			let _ = first_row_of_cb;
		}
		Ok(())
	}

	/// stamps: every live probe modulator was updated exactly once per chunk with dt = frames/sr, after the master
	fn check_stamps(&self, scene: &Scene) -> Result<u64, String> {
		let mut chunk_dts = vec![];
		for n in &scene.callbacks {
			let mut done = 0;
			while done < *n {
				let f = (*n - done).min(scene.ibs);
				chunk_dts.push(f as f64 / scene.sr as f64);
				done += f;
			}
		}
		let ml = self.master.log.lock().unwrap();
		if ml.n != chunk_dts.len() {
			return Err(format!("the master modulator was updated {} times in {} chunks", ml.n, chunk_dts.len()));
		}
		let mut n_checked = 0;
		for (k, dt) in chunk_dts.iter().enumerate() {
			if k < ml.rows.len() {
				if ml.rows[k].0 != k as u64 + 1 {
					return Err("master chunk numbering broken".into());
				}
				if (ml.rows[k].1 - dt).abs() > 1e-12 {
					return Err(format!("chunk {}: modulator update got dt = {} but the chunk lasts {} s", k + 1, ml.rows[k].1, dt));
				}
				n_checked += 1;
			}
		}
		Ok(n_checked)
	}
}

fn run_scene(scene: &Scene) -> Result<(u64, u64, [u64; 3]), String> {
	let mut rig = Rig::simple(scene.sr, scene.ibs);
	let stamps = Arc::new(Stamps::default());
	let master = rig.mgr.add_modulator(ProbeModBuilder { master: true, off: Value::Fixed(0.0), stamps: stamps.clone() }).map_err(|_| "master")?;
	let mut w = World { rig, stamps, master, handles: vec![], ids: vec![], model: vec![], readers: vec![], chunk: 0, sound: None, _sound_handle: None, checks: 0, interval_checks: 0, unknown_skipped: 0, hold_checks: 0, lag_suspects: 0 };
	for m in &scene.mods {
		w.add_mod(m)?;
	}
	let mut reads: Vec<(usize, Map)> = (0..scene.mods.len()).map(|i| (i, Map::ident())).collect();
	reads.extend(scene.readers.iter().cloned());
	w.add_reader(&reads)?;
	if let Some((m, map)) = &scene.sound {
		let d = crate::probes::dc_sound(scene.sr, 64, 0.5).loop_region(..).volume(Value::FromModulator { id: w.ids[*m], mapping: map.to_kira_db() });
		w._sound_handle = Some(w.rig.mgr.play(d).map_err(|_| "play")?);
		w.sound = Some((*m, *map, PModel::new(Val::Fixed(f64::NAN), f64::NAN)));
	}
	w.run(scene)?;
	let stamped = w.check_stamps(scene)?;
	// non-master probe modulators: exactly one update per chunk while alive, each seeing the master's count of that chunk
	for (i, h) in w.handles.iter().enumerate() {
		if let Some(ModH::Probe(h)) = h {
			let l = h.log.lock().unwrap();
			for k in 1..l.n.min(l.rows.len()) {
				if l.rows[k].0 != l.rows[k - 1].0 + 1 {
					return Err(format!("probe modulator #{} was updated in chunk {} and next in chunk {} (exactly once per chunk expected)", i, l.rows[k - 1].0, l.rows[k].0));
				}
			}
		}
	}
	if w.rig.alloc_events != 0 {
		return Err("allocation inside a callback".into());
	}
	Ok((w.checks, stamped, [w.interval_checks, w.unknown_skipped, w.hold_checks]))
}

// ---------------------------------------------------------------- direct LFO curve check (constant parameters, analytic phase)

fn lfo_curve_case(r: &mut Rng) -> Result<u64, String> {
	let sr = *r.pick(&[1000u32, 8000, 48000]);
	let ibs = *r.pick(&[1usize, 8, 64]);
	let wave = gen_wave(r);
	// also LFOs faster than the chunk rate (several periods per update) and starting phases of several turns
	let f = if r.chance(0.1) { 0.0 } else if r.chance(0.25) { r.f64_in(0.0, 3.0 * sr as f64 / ibs as f64) } else { r.f64_in(0.0, 0.45 * sr as f64 / ibs as f64) };
	let (a, o) = (r.f64_in(-3.0, 3.0), r.f64_in(-3.0, 3.0));
	let p0 = if r.chance(0.25) { r.f64_in(0.0, 25.0) } else { r.f64_in(0.0, std::f64::consts::TAU) };
	let mut rig = Rig::simple(sr, ibs);
	let lfo = rig.mgr.add_modulator(LfoBuilder::new().waveform(wave.to_kira()).frequency(f).amplitude(a).offset(o).starting_phase(p0)).map_err(|_| "lfo")?;
	let stamps = Arc::new(Stamps::default());
	let log = Arc::new(Mutex::new(FxLog { rows: (0..512).map(|_| (0, usize::MAX, vec![0.0; 1])).collect() }));
	let params = vec![Parameter::new(Value::FromModulator { id: lfo.id(), mapping: Map::ident().to_kira() }, 0.0)];
	let _t = rig.mgr.add_sub_track(TrackBuilder::new().with_effect(ReaderFxBuilder(ReaderFx { params, log: log.clone(), stamps })));
	let mut t = 0.0f64;
	let mut k = 0usize;
	for _ in 0..r.usize_in(3, 12) {
		let n = r.usize_in(1, 3 * ibs + 1);
		rig.callback(n);
		let mut done = 0;
		while done < n {
			let fr = (n - done).min(ibs);
			t += fr as f64 / sr as f64;
			let got = log.lock().unwrap().rows[k].2[0];
			let phase = p0 / std::f64::consts::TAU + f * t;
			let (wl, wh) = wave.range(phase - 1e-9 * (1.0 + phase), phase + 1e-9 * (1.0 + phase));
			let (x, y) = (o + a * wl, o + a * wh);
			let (lo, hi) = (x.min(y) - 1e-9, x.max(y) + 1e-9);
			if got < lo || got > hi {
				return Err(format!("{:?} LFO (frequency {} Hz, amplitude {}, offset {}, starting phase {} rad) after {:.6} s: value {} but the waveform at phase {} gives [{}, {}] (sr {}, buffer {})", wave, f, a, o, p0, t, got, phase - phase.floor(), lo, hi, sr, ibs));
			}
			if (got - o).abs() > a.abs() + 1e-9 {
				return Err(format!("LFO value {} outside offset +- |amplitude| = {} +- {}", got, o, a.abs()));
			}
			k += 1;
			done += fr;
		}
	}
	Ok(k as u64)
}

// ---------------------------------------------------------------- clock speed linked to a modulator

/// A clock whose speed follows a moving modulator must advance, in every chunk, by chunk duration x the speed mapped from
/// the modulator's value of that same chunk (modulators are advanced before clocks).
pub fn clock_link_case(r: &mut Rng) -> Result<u64, String> {
	use kira::clock::ClockSpeed;
	let sr = 1000u32;
	let ibs = *r.pick(&[1usize, 4, 16]);
	let mut rig = Rig::simple(sr, ibs);
	let moving_lfo = r.chance(0.5);
	let mut tw = None;
	let id = if moving_lfo {
		let f = r.f64_in(0.05, 0.3) * sr as f64 / ibs as f64;
		let h = rig.mgr.add_modulator(LfoBuilder::new().waveform(Waveform::Triangle).frequency(f).amplitude(0.5).offset(0.5)).map_err(|_| "lfo")?;
		let id = h.id();
		std::mem::forget(h);
		id
	} else {
		let h = rig.mgr.add_modulator(TweenerBuilder { initial_value: 0.0 }).map_err(|_| "tw")?;
		let id = h.id();
		tw = Some(h);
		id
	};
	let max_tps = r.f64_in(5.0, 400.0);
	// the speed range is given in any of the three units (or in two different ones): a mapping interpolates in the unit of the
	// range's second end, so a range in seconds per tick is linear in the tick period, not in the tick rate
	let unit = r.below(4);
	let slow_tps = r.f64_in(2.0, 20.0);
	let (range, unit_name): ((ClockSpeed, ClockSpeed), &str) = match unit {
		0 => ((ClockSpeed::TicksPerSecond(0.0), ClockSpeed::TicksPerSecond(max_tps)), "0 .. max ticks per second"),
		1 => ((ClockSpeed::TicksPerMinute(0.0), ClockSpeed::TicksPerMinute(max_tps * 60.0)), "0 .. 60 max ticks per minute"),
		2 => ((ClockSpeed::SecondsPerTick(1.0 / slow_tps), ClockSpeed::SecondsPerTick(1.0 / max_tps)), "1/slow .. 1/max seconds per tick"),
		_ => ((ClockSpeed::TicksPerSecond(slow_tps), ClockSpeed::SecondsPerTick(1.0 / max_tps)), "slow ticks per second .. 1/max seconds per tick"),
	};
	let tps_at = move |m: f64| -> f64 {
		let m = m.clamp(0.0, 1.0);
		match unit {
			0 | 1 => max_tps * m,
			_ => 1.0 / (1.0 / slow_tps + (1.0 / max_tps - 1.0 / slow_tps) * m),
		}
	};
	let speed = Value::FromModulator { id, mapping: Mapping { input_range: (0.0, 1.0), output_range: range, easing: Easing::Linear } };
	let mut clock = rig.mgr.add_clock(speed).map_err(|_| "clock")?;
	clock.start();
	let stamps = Arc::new(Stamps::default());
	let log = Arc::new(Mutex::new(FxLog { rows: (0..256).map(|_| (0, usize::MAX, vec![0.0; 1])).collect() }));
	let params = vec![Parameter::new(Value::FromModulator { id, mapping: Map::ident().to_kira() }, 0.0)];
	let _t = rig.mgr.add_sub_track(TrackBuilder::new().with_effect(ReaderFxBuilder(ReaderFx { params, log: log.clone(), stamps })));
	let dt = ibs as f64 / sr as f64;
	let mut prev_t = 0.0f64;
	let mut prev_m = f64::NAN;
	let n = r.usize_in(6, 40);
	let mut checked = 0;
	for k in 0..n {
		if let Some(h) = tw.as_mut() {
			if k == 1 || r.chance(0.1) {
				h.set(r.f64_in(0.0, 1.0), Tween { duration: Duration::from_secs_f64(dt * r.f64_in(0.0, 12.0)), ..Default::default() });
			}
		}
		rig.callback(ibs);
		rig.sync();
		let t = clock.time();
		let now = t.ticks as f64 + t.fraction;
		let m = log.lock().unwrap().rows[k].2[0];
		let inc = now - prev_t;
		let want = dt * tps_at(m);
		let lagged = dt * tps_at(prev_m);
		if (inc - want).abs() > 1e-9 * (1.0 + now) {
			let note = if (inc - lagged).abs() <= 1e-9 * (1.0 + now) { " (that is the modulator's value of the previous chunk: one chunk late)" } else { "" };
			return Err(format!("chunk {}: a clock whose speed is mapped 0..1 -> {} (max {} ticks/s, slow {} ticks/s) from a modulator advanced by {} ticks in {} s; the modulator's value in this chunk is {}, i.e. {} ticks{} (buffer {}, {})", k + 1, unit_name, max_tps, slow_tps, inc, dt, m, want, note, ibs, if moving_lfo { "LFO" } else { "tweener" }));
		}
		prev_t = now;
		prev_m = m;
		checked += 1;
	}
	Ok(checked)
}

// ---------------------------------------------------------------- a scheduled transition called off

/// A tweener holds a value exactly (its initial value, or the target of a finished transition). A transition to a far value is
/// scheduled - delayed start, a clock time ahead, or a clock that is not running - and, before it begins, called off by a
/// second `set()` to exactly the held value (instant or with a duration). The tweener must stay at the held value in every
/// chunk from then on: the second command replaces the first whatever its target. Returns the number of chunks checked.
pub fn tweener_cancel_case(r: &mut Rng) -> Result<u64, String> {
	let sr = 1000u32;
	let ibs = *r.pick(&[1usize, 4, 10]);
	let chunks = |k: f64| Duration::from_secs_f64(k * ibs as f64 / sr as f64);
	let mut rig = Rig::simple(sr, ibs);
	let v0 = if r.chance(0.5) { 0.0 } else { r.f64_in(-2.0, 2.0) };
	let mut b = rig.mgr.add_modulator(TweenerBuilder { initial_value: v0 }).map_err(|_| "b")?;
	let mut clock = rig.mgr.add_clock(kira::clock::ClockSpeed::TicksPerSecond(sr as f64 / ibs as f64)).map_err(|_| "clock")?;
	let stamps = Arc::new(Stamps::default());
	let log = Arc::new(Mutex::new(FxLog { rows: (0..512).map(|_| (0, usize::MAX, vec![0.0; 1])).collect() }));
	let params = vec![Parameter::new(Value::FromModulator { id: b.id(), mapping: Map::ident().to_kira() }, 0.0)];
	let _t = rig.mgr.add_sub_track(TrackBuilder::new().with_effect(ReaderFxBuilder(ReaderFx { params, log: log.clone(), stamps })));
	rig.callback(ibs);
	let mut n_cb = 1usize;
	let mut hist = vec![format!("tweener at {}", v0)];
	let mut held = v0;
	if r.chance(0.5) {
		let x = r.f64_in(-2.0, 2.0);
		let d = r.usize_in(0, 3);
		b.set(x, Tween { duration: chunks(d as f64), ..Default::default() });
		for _ in 0..6 {
			rig.callback(ibs);
		}
		n_cb += 6;
		held = x;
		hist.push(format!("set({}, {} chunks) completed", x, d));
	}
	let held_from = n_cb;
	let far = held + (2.0 + r.f64_in(0.0, 3.0)) * if r.chance(0.5) { 1.0 } else { -1.0 };
	let n = r.usize_in(3, 8);
	let variant = r.below(3);
	let start = match variant {
		0 => StartTime::Delayed(chunks(n as f64 + 0.5)),
		1 => {
			clock.start();
			StartTime::ClockTime(kira::clock::ClockTime::from_ticks_u64(clock.id(), n as u64))
		}
		_ => StartTime::ClockTime(kira::clock::ClockTime::from_ticks_u64(clock.id(), 0)),
	};
	let d1 = r.usize_in(0, 3);
	b.set(far, Tween { start_time: start, duration: chunks(d1 as f64), easing: Easing::Linear });
	hist.push(format!("set({}, {} chunks) scheduled for {}", far, d1, ["a delay of n + 0.5 chunks", "tick n of a running clock (1 tick per chunk)", "tick 0 of a clock that is not running"][variant as usize]));
	let wait = r.usize_in(1, n - 2);
	for _ in 0..wait {
		rig.callback(ibs);
	}
	n_cb += wait;
	let d2 = *r.pick(&[0usize, 0, 2, 5]);
	b.set(held, Tween { duration: chunks(d2 as f64), ..Default::default() });
	hist.push(format!("{} callbacks later (n = {}): set({}, {} chunks)", wait, n, held, d2));
	for _ in 0..n + 8 {
		rig.callback(ibs);
	}
	n_cb += n + 8;
	if variant == 2 {
		clock.start();
		for _ in 0..6 {
			rig.callback(ibs);
		}
		n_cb += 6;
		hist.push("clock started".into());
	}
	let l = log.lock().unwrap();
	let mut checked = 0;
	for k in held_from..n_cb {
		if l.rows[k].1 == usize::MAX {
			break;
		}
		let v = l.rows[k].2[0];
		// (the reading passes through an identity mapping over -1000..1000, which rounds in the 13th digit; the called-off
		// target is at least 2 away)
		if (v - held).abs() > 1e-9 {
			return Err(format!("tweener: a scheduled transition was replaced by set(<the value it holds>) before it began, yet in chunk {} the tweener reads {} instead of {} [{}]", k, v, held, hist.join("; ")));
		}
		checked += 1;
	}
	if checked < 8 {
		return Err(format!("tweener cancel case observed only {} chunks", checked));
	}
	Ok(checked)
}

// ---------------------------------------------------------------- forward link (known behaviour to be judged)

const FWD_KEY: &str = "C17.modulator_relinked_to_later_modulator_lags_one_chunk";

/// LFO A created first, tweener B created later; A's offset is re-linked (through its handle) to B while B is moving.
/// Returns Ok(true) when A follows B in the same chunk, Ok(false) when A is exactly one chunk late.
fn forward_link_case(r: &mut Rng) -> Result<bool, String> {
	let sr = 1000u32;
	let ibs = *r.pick(&[1usize, 4, 10]);
	let mut rig = Rig::simple(sr, ibs);
	let mut a = rig.mgr.add_modulator(LfoBuilder::new().frequency(0.0).amplitude(0.0).offset(0.0)).map_err(|_| "a")?;
	let mut b = rig.mgr.add_modulator(TweenerBuilder { initial_value: 0.0 }).map_err(|_| "b")?;
	let stamps = Arc::new(Stamps::default());
	let log = Arc::new(Mutex::new(FxLog { rows: (0..512).map(|_| (0, usize::MAX, vec![0.0; 2])).collect() }));
	let params = vec![Parameter::new(Value::FromModulator { id: a.id(), mapping: Map::ident().to_kira() }, 0.0), Parameter::new(Value::FromModulator { id: b.id(), mapping: Map::ident().to_kira() }, 0.0)];
	let _t = rig.mgr.add_sub_track(TrackBuilder::new().with_effect(ReaderFxBuilder(ReaderFx { params, log: log.clone(), stamps })));
	rig.callback(ibs);
	a.set_offset(Value::FromModulator { id: b.id(), mapping: Map::ident().to_kira() }, Tween { duration: Duration::ZERO, ..Default::default() });
	b.set(r.f64_in(1.0, 5.0), Tween { duration: Duration::from_secs_f64(ibs as f64 * 20.0 / sr as f64), ..Default::default() });
	let n_chunks = 10;
	for _ in 0..n_chunks {
		rig.callback(ibs);
	}
	let l = log.lock().unwrap();
	let mut same = 0;
	let mut late = 0;
	for k in 2..=n_chunks {
		let (av, bv, bprev) = (l.rows[k].2[0], l.rows[k].2[1], l.rows[k - 1].2[1]);
		if (av - bv).abs() < 1e-12 {
			same += 1;
		} else if (av - bprev).abs() < 1e-12 {
			late += 1;
		} else {
			return Err(format!("LFO offset linked to a tweener: LFO value {} is neither the tweener's value {} nor its previous value {}", av, bv, bprev));
		}
	}
	if same > 0 && late > 0 {
		return Err("mixed same-chunk / late readings".into());
	}
	Ok(late == 0)
}

// ---------------------------------------------------------------- driver

pub fn run(ctx: &mut Ctx) {
	let n = ctx.t(400_000u64, 40_000_000u64);
	let mut checks = 0u64;
	let mut stamped = 0u64;
	let mut curve_points = 0u64;
	let mut fwd_known = 0u64;
	let mut clock_points = 0u64;
	let mut cancel_points = 0u64;
	let mut extra = [0u64; 3];
	for i in 0..n {
		if !ctx.owns("mod", i) {
			continue;
		}
		if !ctx.replaying() && !ctx.time_left(0.92) {
			ctx.note("time budget reached before the case limit");
			break;
		}
		let mut r = Rng::for_case(ctx.seed, 1701, i);
		ctx.eval();
		crate::monitors::set_current(ctx, "mod", i, "modulator scene", false);
		let kind = r.below(10);
		let res = super::guarded(|| -> Result<u64, String> {
			match kind {
				0 | 1 => lfo_curve_case(&mut r).map(|k| {
					curve_points += k;
					1 << 20
				}),
				3 => clock_link_case(&mut r).map(|k| {
					clock_points += k;
					3 << 20
				}),
				4 if i % 3 == 0 => tweener_cancel_case(&mut r).map(|k| {
					cancel_points += k;
					5 << 20
				}),
				2 => forward_link_case(&mut r).and_then(|same| {
					if same {
						Ok(2 << 20)
					} else {
						Err(FWD_KEY.to_string())
					}
				}),
				_ => {
					let scene = gen_scene(&mut r);
					let class = (scene.mods.len() as u64) | (scene.events.iter().fold(0u64, |a, e| a | 1 << match e.1 { Ev::Drop(_) => 0, Ev::TweenerSet { .. } => 1, Ev::LfoSet { .. } => 2, Ev::LfoWave { .. } => 3, Ev::LfoPhase { .. } => 4, Ev::Add(_) => 5 }) << 4) | (scene.sound.is_some() as u64) << 12 | (scene.ibs as u64) << 13;
					run_scene(&scene).map(|(c, s, x)| {
						checks += c;
						stamped += s;
						for k in 0..3 {
							extra[k] += x[k];
						}
						class
					}).map_err(|e| format!("{} [scene: sr {} buffer {} mods {:?} events {:?}]", e, scene.sr, scene.ibs, scene.mods, scene.events).chars().take(1800).collect())
				}
			}
		});
		crate::monitors::clear_current();
		match res {
			Ok(Ok(class)) => ctx.distinct_key(0xC17_0000_0000 | class),
			Ok(Err(e)) if e == FWD_KEY => {
				if ctx.known(FWD_KEY) {
					fwd_known += 1;
				} else {
					ctx.violation("mod", i, "an LFO whose offset was re-linked (through its handle) to a modulator created after it follows that modulator one chunk late", J::Null);
				}
			}
			Ok(Err(e)) => ctx.violation("mod", i, &e, J::Null),
			Err(p) => ctx.violation("mod", i, &format!("panic: {}", p.first().map(|p| p.sig()).unwrap_or_default()), J::Null),
		}
	}
	ctx.count("linked_parameter_chunk_checks", checks);
	ctx.count("master_modulator_update_stamps_checked", stamped);
	ctx.count("of_which_against_an_interval", extra[0]);
	ctx.count("reads_skipped_value_unknown_to_model", extra[1]);
	ctx.count("hold_after_removal_checks", extra[2]);
	ctx.count("lfo_curve_points_checked", curve_points);
	ctx.count("clock_speed_link_chunks_checked", clock_points);
	ctx.count("tweener_called_off_transition_chunks_checked", cancel_points);
	if fwd_known > 0 {
		ctx.count("forward_link_cases_matching_known_finding", fwd_known);
		ctx.exclude(FWD_KEY);
	}
	ctx.sample(jobj! {"monitor" => "probe effect parameters + linked sound gain vs model, per chunk", "note" => "1-8 modulators (LFO 4 waveforms, tweener, custom), links to earlier modulators on LFO frequency/amplitude/offset, mappings with inverted ranges and all easings, handle commands with tweens, drops of earlier/later modulators, late additions"});
}

pub fn confirm(key: &str) -> Option<Option<String>> {
	match key {
		FWD_KEY => {
			let mut r = Rng::new(1);
			Some(match forward_link_case(&mut r) {
				Ok(true) => None,
				Ok(false) => Some("LFO re-linked to a later-created tweener reads the tweener's previous-chunk value".into()),
				Err(e) => Some(e),
			})
		}
		_ => None,
	}
}
