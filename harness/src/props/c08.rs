//! C08 — resource life cycle: exact capacity accounting, prompt removal, no stale ids,
//! resources destroyed on a caller's thread.

use std::sync::atomic::{AtomicBool, AtomicU64, Ordering};
use std::sync::{Arc, Mutex};
use std::time::Duration;

use glam::{Quat, Vec3};
use kira::clock::{ClockHandle, ClockSpeed, ClockTime};
use kira::effect::{Effect, EffectBuilder};
use kira::info::Info;
use kira::listener::ListenerHandle;
use kira::modulator::{Modulator, ModulatorBuilder, ModulatorId};
use kira::sound::{PlaybackState, Sound, SoundData};
use kira::track::{MainTrackBuilder, SendTrackBuilder, SendTrackHandle, SpatialTrackBuilder, TrackBuilder, TrackHandle};
use kira::{Capacities, Decibels, Easing, Frame, Mapping, PlaySoundError, StartTime, Tween, Value};

use crate::jobj;
use crate::rig::{Rig, RigConfig};
use crate::util::{Ctx, Rng, J};

// ------------------------------------------------------------------ probes with Drop accounting

#[derive(Default)]
pub struct Ledger {
	pub created: AtomicU64,
	pub dropped: AtomicU64,
	pub dropped_in_callback: AtomicU64,
	pub double_drop: AtomicU64,
}

pub struct Token {
	ledger: Arc<Ledger>,
	gone: AtomicBool,
}

impl Token {
	pub fn new(ledger: &Arc<Ledger>) -> Token {
		ledger.created.fetch_add(1, Ordering::SeqCst);
		Token { ledger: ledger.clone(), gone: AtomicBool::new(false) }
	}
}

impl Drop for Token {
	fn drop(&mut self) {
		if self.gone.swap(true, Ordering::SeqCst) {
			self.ledger.double_drop.fetch_add(1, Ordering::SeqCst);
		}
		self.ledger.dropped.fetch_add(1, Ordering::SeqCst);
		if crate::monitors::in_callback() {
			self.ledger.dropped_in_callback.fetch_add(1, Ordering::SeqCst);
		}
	}
}

pub struct LSound {
	_t: Token,
	stop: Arc<AtomicBool>,
	value: f32,
}
impl Sound for LSound {
	fn process(&mut self, out: &mut [Frame], _dt: f64, _info: &Info) {
		for f in out.iter_mut() {
			*f = Frame::from_mono(self.value);
		}
	}
	fn finished(&self) -> bool {
		self.stop.load(Ordering::SeqCst)
	}
}
pub struct LSoundData(LSound);
impl SoundData for LSoundData {
	type Error = ();
	type Handle = ();
	fn into_sound(self) -> Result<(Box<dyn Sound>, ()), ()> {
		Ok((Box::new(self.0), ()))
	}
}

/// sound data whose conversion into a sound fails (e.g. a decoder that cannot start): nothing may be reserved or leaked
pub struct LFailingSoundData(Token);
impl SoundData for LFailingSoundData {
	type Error = ();
	type Handle = ();
	fn into_sound(self) -> Result<(Box<dyn Sound>, ()), ()> {
		Err(())
	}
}

pub struct LEffect {
	_t: Token,
}
impl Effect for LEffect {
	fn process(&mut self, _input: &mut [Frame], _dt: f64, _info: &Info) {}
}
pub struct LEffectB(LEffect);
impl EffectBuilder for LEffectB {
	type Handle = ();
	fn build(self) -> (Box<dyn Effect>, ()) {
		(Box::new(self.0), ())
	}
}

pub struct LMod {
	_t: Token,
	stop: Arc<AtomicBool>,
	value: f64,
}
impl Modulator for LMod {
	fn update(&mut self, _dt: f64, _info: &Info) {}
	fn value(&self) -> f64 {
		self.value
	}
	fn finished(&self) -> bool {
		self.stop.load(Ordering::SeqCst)
	}
}
pub struct LModB(LMod);
pub struct LModHandle {
	pub id: ModulatorId,
	pub stop: Arc<AtomicBool>,
}
impl Drop for LModHandle {
	fn drop(&mut self) {
		self.stop.store(true, Ordering::SeqCst);
	}
}
impl ModulatorBuilder for LModB {
	type Handle = LModHandle;
	fn build(self, id: ModulatorId) -> (Box<dyn Modulator>, LModHandle) {
		let stop = self.0.stop.clone();
		(Box::new(self.0), LModHandle { id, stop })
	}
}

// ------------------------------------------------------------------ shadow model

/// one resource: alive (handle held) or awaiting removal; `picked_up` after the first callback
struct Res<H> {
	handle: Option<H>,
	picked_up: bool,
	/// callbacks until the audio thread removes it (set when dropped/finished)
	remove_in: Option<u8>,
}

struct Pool<H> {
	cap: usize,
	items: Vec<Res<H>>,
}

impl<H> Pool<H> {
	fn new(cap: usize) -> Self {
		Pool { cap, items: vec![] }
	}
	fn count(&self) -> usize {
		self.items.len()
	}
	fn live_idx(&self) -> Vec<usize> {
		self.items.iter().enumerate().filter(|(_, r)| r.handle.is_some()).map(|(i, _)| i).collect()
	}
	fn add(&mut self, h: H) {
		self.items.push(Res { handle: Some(h), picked_up: false, remove_in: None });
	}
	fn drop_one(&mut self, i: usize) -> Option<H> {
		let r = &mut self.items[i];
		r.remove_in = Some(if r.picked_up { 1 } else { 2 });
		r.handle.take()
	}
	fn on_callback(&mut self) {
		for r in self.items.iter_mut() {
			if let Some(k) = r.remove_in {
				r.remove_in = Some(k - 1);
			}
			r.picked_up = true;
		}
		self.items.retain(|r| r.remove_in != Some(0));
	}
}

pub struct Stats {
	pub ops: u64,
	pub callbacks: u64,
	pub limit_errors: u64,
	pub slots_reused: u64,
	pub queries: u64,
	pub failed_plays: u64,
}

/// a top-level track of either kind (the rules are the same for both)
enum AnyTrackH {
	Plain(TrackHandle),
	Spatial(kira::track::SpatialTrackHandle),
}
impl AnyTrackH {
	fn play<D: SoundData>(&mut self, d: D) -> Result<D::Handle, PlaySoundError<D::Error>> {
		match self {
			AnyTrackH::Plain(h) => h.play(d),
			AnyTrackH::Spatial(h) => h.play(d),
		}
	}
	fn num_sounds(&self) -> usize {
		match self {
			AnyTrackH::Plain(h) => h.num_sounds(),
			AnyTrackH::Spatial(h) => h.num_sounds(),
		}
	}
	fn sound_capacity(&self) -> usize {
		match self {
			AnyTrackH::Plain(h) => h.sound_capacity(),
			AnyTrackH::Spatial(h) => h.sound_capacity(),
		}
	}
	fn add_sub_track(&mut self, b: TrackBuilder) -> Result<TrackHandle, kira::ResourceLimitReached> {
		match self {
			AnyTrackH::Plain(h) => h.add_sub_track(b),
			AnyTrackH::Spatial(h) => h.add_sub_track(b),
		}
	}
	fn pause(&mut self) {
		let t = kira::Tween { duration: std::time::Duration::ZERO, ..Default::default() };
		match self {
			AnyTrackH::Plain(h) => h.pause(t),
			AnyTrackH::Spatial(h) => h.pause(t),
		}
	}
	fn resume(&mut self) {
		let t = kira::Tween { duration: std::time::Duration::ZERO, ..Default::default() };
		match self {
			AnyTrackH::Plain(h) => h.resume(t),
			AnyTrackH::Spatial(h) => h.resume(t),
		}
	}
}

struct SoundH {
	stop: Arc<AtomicBool>,
}
impl Drop for SoundH {
	fn drop(&mut self) {
		self.stop.store(true, Ordering::SeqCst);
	}
}

fn expect_create<T, E>(what: &str, res: &Result<T, E>, count: usize, cap: usize, hist: &[String]) -> Result<(), String> {
	let should = count < cap;
	match (res.is_ok(), should) {
		(true, true) | (false, false) => Ok(()),
		(true, false) => Err(format!("{}: creation succeeded although {} of {} are alive or awaiting removal [{}]", what, count, cap, hist.join("; "))),
		(false, true) => Err(format!("{}: creation failed (limit error) although only {} of {} are alive or awaiting removal [{}]", what, count, cap, hist.join("; "))),
	}
}

/// Sequential history over every resource kind with an exact shadow model.
fn history_case(ctx: &mut Ctx, r: &mut Rng, stats: &mut Stats) -> Result<(), String> {
	let zero_known = ctx.known("C08.capacity_zero_panics");
	let capv: Vec<usize> = if zero_known { vec![1, 2, 3, 128] } else { vec![0, 1, 2, 3, 128] };
	let mut cap = |r: &mut Rng| *r.pick(&capv);
	if zero_known {
		ctx.exclude("C08.capacity_zero_panics");
	}
	let caps = Capacities { sub_track_capacity: cap(r), send_track_capacity: cap(r), clock_capacity: cap(r), modulator_capacity: cap(r), listener_capacity: cap(r) };
	let main_sound_cap = cap(r);
	let ledger = Arc::new(Ledger::default());
	let mut rig = Rig::new(RigConfig { sample_rate: 8000, ibs: 16, channels: 2, capacities: caps }, MainTrackBuilder::new().sound_capacity(main_sound_cap).with_effect(LEffectB(LEffect { _t: Token::new(&ledger) })));
	let mut hist: Vec<String> = vec![format!("caps {:?} main sounds {}", caps, main_sound_cap)];
	let mut tracks: Pool<(AnyTrackH, Pool<SoundH>, usize, Vec<TrackHandle>)> = Pool::new(caps.sub_track_capacity);
	let mut sends: Pool<SendTrackHandle> = Pool::new(caps.send_track_capacity);
	let mut clocks: Pool<ClockHandle> = Pool::new(caps.clock_capacity);
	let mut mods: Pool<LModHandle> = Pool::new(caps.modulator_capacity);
	let mut listeners: Pool<ListenerHandle> = Pool::new(caps.listener_capacity);
	let mut main_sounds: Pool<SoundH> = Pool::new(main_sound_cap);
	// sounds on dropped tracks die with the track: tracked separately for conservation only
	let n_ops = r.usize_in(20, 500);
	for _ in 0..n_ops {
		stats.ops += 1;
		match r.below(16) {
			0 | 1 if r.chance(0.15) && !tracks.live_idx().is_empty() => {
				// pause or resume a live track: removal of its finished sounds and dropped children does not wait for a resume
				let live = tracks.live_idx();
				let ti = live[r.below(live.len() as u64) as usize];
				let (h, _, _, _) = tracks.items[ti].handle.as_mut().unwrap();
				if r.chance(0.6) {
					h.pause();
					hist.push(format!("pause track #{}", ti));
				} else {
					h.resume();
					hist.push(format!("resume track #{}", ti));
				}
			}
			0 | 1 if r.chance(0.3) && !tracks.live_idx().is_empty() => {
				// a child track under a live track; it is dropped together with its parent (same interval): the parent's
				// slot must still be free after the next callback
				let live = tracks.live_idx();
				let ti = live[r.below(live.len() as u64) as usize];
				let (h, _, _, kids) = tracks.items[ti].handle.as_mut().unwrap();
				if kids.len() < 3 {
					if let Ok(k) = h.add_sub_track(TrackBuilder::new().with_effect(LEffectB(LEffect { _t: Token::new(&ledger) }))) {
						kids.push(k);
						hist.push(format!("add child track under track #{}", ti));
					}
				}
			}
			0 | 1 => {
				let sc = cap(r);
				// plain or spatial (the listener may or may not still exist: irrelevant for resource accounting)
				// (spatial tracks use the id of a listener that exists at this moment; it may be dropped later)
				let lid = listeners.live_idx().first().map(|i| listeners.items[*i].handle.as_ref().unwrap().id());
				let spatial = r.chance(0.3) && lid.is_some();
				let res = if spatial {
					rig.mgr.add_spatial_sub_track(lid.unwrap(), Vec3::ZERO, SpatialTrackBuilder::new().sound_capacity(sc).with_effect(LEffectB(LEffect { _t: Token::new(&ledger) }))).map(AnyTrackH::Spatial)
				} else {
					rig.mgr.add_sub_track(TrackBuilder::new().sound_capacity(sc).with_effect(LEffectB(LEffect { _t: Token::new(&ledger) }))).map(AnyTrackH::Plain)
				};
				hist.push(format!("add_{}sub_track(sound cap {}) -> {}", if spatial { "spatial_" } else { "" }, sc, res.is_ok()));
				expect_create("sub-track", &res, tracks.count(), tracks.cap, &hist)?;
				match res {
					Ok(h) => tracks.add((h, Pool::new(sc), sc, vec![])),
					Err(_) => stats.limit_errors += 1,
				}
			}
			2 => {
				let res = rig.mgr.add_send_track(SendTrackBuilder::new().with_effect(LEffectB(LEffect { _t: Token::new(&ledger) })));
				hist.push(format!("add_send_track -> {}", res.is_ok()));
				expect_create("send track", &res, sends.count(), sends.cap, &hist)?;
				match res {
					Ok(h) => sends.add(h),
					Err(_) => stats.limit_errors += 1,
				}
			}
			3 => {
				let res = rig.mgr.add_clock(ClockSpeed::TicksPerSecond(10.0));
				hist.push(format!("add_clock -> {}", res.is_ok()));
				expect_create("clock", &res, clocks.count(), clocks.cap, &hist)?;
				match res {
					Ok(h) => clocks.add(h),
					Err(_) => stats.limit_errors += 1,
				}
			}
			4 => {
				let stop = Arc::new(AtomicBool::new(false));
				let res = rig.mgr.add_modulator(LModB(LMod { _t: Token::new(&ledger), stop, value: 0.5 }));
				hist.push(format!("add_modulator -> {}", res.is_ok()));
				expect_create("modulator", &res, mods.count(), mods.cap, &hist)?;
				match res {
					Ok(h) => mods.add(h),
					Err(_) => stats.limit_errors += 1,
				}
			}
			5 => {
				let res = rig.mgr.add_listener(Vec3::ZERO, Quat::IDENTITY);
				hist.push(format!("add_listener -> {}", res.is_ok()));
				expect_create("listener", &res, listeners.count(), listeners.cap, &hist)?;
				match res {
					Ok(h) => listeners.add(h),
					Err(_) => stats.limit_errors += 1,
				}
			}
			6 | 7 => {
				// a play whose sound data fails to become a sound: an error value, and no slot is used up
				if r.chance(0.2) {
					let live = tracks.live_idx();
					let data = LFailingSoundData(Token::new(&ledger));
					if !live.is_empty() && r.chance(0.6) {
						let ti = live[r.below(live.len() as u64) as usize];
						let (h, pool, _, _) = tracks.items[ti].handle.as_mut().unwrap();
						let res = h.play(data);
						hist.push(format!("play failing sound data on track #{} -> {}", ti, res.is_ok()));
						if res.is_ok() {
							return Err(format!("play of sound data whose into_sound fails returned Ok [{}]", hist.join("; ")));
						}
						let n = h.num_sounds();
						if n > pool.count() {
							return Err(format!("after a failed play num_sounds() = {} but only {} sounds are alive or awaiting removal on the track [{}]", n, pool.count(), hist.join("; ")));
						}
					} else {
						let res = rig.mgr.play(data);
						hist.push(format!("play failing sound data on main -> {}", res.is_ok()));
						if res.is_ok() {
							return Err(format!("play of sound data whose into_sound fails returned Ok [{}]", hist.join("; ")));
						}
						let n = rig.mgr.main_track().num_sounds();
						if n > main_sounds.count() {
							return Err(format!("after a failed play main num_sounds() = {} but only {} sounds are alive or awaiting removal [{}]", n, main_sounds.count(), hist.join("; ")));
						}
					}
					stats.failed_plays += 1;
					continue;
				}
				// play a sound on the main track or on a live sub-track
				let stop = Arc::new(AtomicBool::new(false));
				let data = LSoundData(LSound { _t: Token::new(&ledger), stop: stop.clone(), value: 0.01 });
				let live = tracks.live_idx();
				if !live.is_empty() && r.chance(0.6) {
					let ti = live[r.below(live.len() as u64) as usize];
					let (h, pool, _, _) = tracks.items[ti].handle.as_mut().unwrap();
					let res = h.play(data);
					hist.push(format!("play on track #{} -> {}", ti, res.is_ok()));
					if let Err(PlaySoundError::IntoSoundError(_)) = res {
						return Err("unexpected IntoSoundError".into());
					}
					expect_create("sound on sub-track", &res, pool.count(), pool.cap, &hist)?;
					match res {
						Ok(()) => pool.add(SoundH { stop }),
						Err(_) => stats.limit_errors += 1,
					}
				} else {
					let res = rig.mgr.play(data);
					hist.push(format!("play on main -> {}", res.is_ok()));
					expect_create("sound on main track", &res, main_sounds.count(), main_sounds.cap, &hist)?;
					match res {
						Ok(()) => main_sounds.add(SoundH { stop }),
						Err(_) => stats.limit_errors += 1,
					}
				}
			}
			8 | 9 => {
				// drop something
				match r.below(7) {
					0 => {
						let l = tracks.live_idx();
						if !l.is_empty() {
							let i = l[r.below(l.len() as u64) as usize];
							hist.push(format!("drop track #{}", i));
							tracks.drop_one(i);
						}
					}
					1 => {
						let l = sends.live_idx();
						if !l.is_empty() {
							hist.push("drop send".into());
							sends.drop_one(l[r.below(l.len() as u64) as usize]);
						}
					}
					2 => {
						let l = clocks.live_idx();
						if !l.is_empty() {
							hist.push("drop clock".into());
							clocks.drop_one(l[r.below(l.len() as u64) as usize]);
						}
					}
					3 => {
						let l = mods.live_idx();
						if !l.is_empty() {
							hist.push("drop modulator".into());
							mods.drop_one(l[r.below(l.len() as u64) as usize]);
						}
					}
					4 => {
						let l = listeners.live_idx();
						if !l.is_empty() {
							hist.push("drop listener".into());
							listeners.drop_one(l[r.below(l.len() as u64) as usize]);
						}
					}
					5 => {
						let l = main_sounds.live_idx();
						if !l.is_empty() {
							hist.push("finish main sound".into());
							main_sounds.drop_one(l[r.below(l.len() as u64) as usize]);
						}
					}
					_ => {
						let l = tracks.live_idx();
						if !l.is_empty() {
							let ti = l[r.below(l.len() as u64) as usize];
							let (_, pool, _, _) = tracks.items[ti].handle.as_mut().unwrap();
							let ls = pool.live_idx();
							if !ls.is_empty() {
								hist.push(format!("finish sound on track #{}", ti));
								pool.drop_one(ls[r.below(ls.len() as u64) as usize]);
							}
						}
					}
				}
			}
			_ => {
				// a callback
				let frames = r.usize_in(1, 40);
				rig.callback(frames);
				stats.callbacks += 1;
				hist.push("callback".into());
				let before = tracks.count() + sends.count() + clocks.count() + mods.count() + listeners.count() + main_sounds.count();
				tracks.on_callback();
				sends.on_callback();
				clocks.on_callback();
				mods.on_callback();
				listeners.on_callback();
				main_sounds.on_callback();
				for t in tracks.items.iter_mut() {
					if let Some((_, pool, _, _)) = t.handle.as_mut() {
						pool.on_callback();
					}
				}
				let after = tracks.count() + sends.count() + clocks.count() + mods.count() + listeners.count() + main_sounds.count();
				if after < before {
					stats.slots_reused += (before - after) as u64;
				}
				if ledger.dropped_in_callback.load(Ordering::SeqCst) > 0 {
					return Err(format!("a resource (probe sound/effect/modulator) was destroyed on the audio thread inside a callback [{}]", hist.join("; ")));
				}
			}
		}
		// ---- queries must equal the model at all times
		stats.queries += 1;
		let q = [
			("num_sub_tracks", rig.mgr.num_sub_tracks(), tracks.count(), rig.mgr.sub_track_capacity(), tracks.cap),
			("num_send_tracks", rig.mgr.num_send_tracks(), sends.count(), rig.mgr.send_track_capacity(), sends.cap),
			("num_clocks", rig.mgr.num_clocks(), clocks.count(), rig.mgr.clock_capacity(), clocks.cap),
			("num_modulators", rig.mgr.num_modulators(), mods.count(), rig.mgr.modulator_capacity(), mods.cap),
			("main num_sounds", rig.mgr.main_track().num_sounds(), main_sounds.count(), rig.mgr.main_track().sound_capacity(), main_sounds.cap),
		];
		for (name, got, want, gcap, wcap) in q {
			if got != want || gcap != wcap || got > gcap {
				return Err(format!("{} = {} (capacity {}) but created minus removed = {} (capacity {}) [{}]", name, got, gcap, want, wcap, hist.join("; ")));
			}
		}
		for (ti, t) in tracks.items.iter().enumerate() {
			if let Some((h, pool, sc, _)) = t.handle.as_ref() {
				if h.num_sounds() != pool.count() || h.sound_capacity() != *sc || h.num_sounds() > *sc {
					return Err(format!("track #{} num_sounds = {} (capacity {}) but created minus removed = {} (capacity {}) [{}]", ti, h.num_sounds(), h.sound_capacity(), pool.count(), sc, hist.join("; ")));
				}
			}
		}
	}
	// ---- teardown: the renderer goes back to the caller's thread before anything is destroyed
	let created_before = ledger.created.load(Ordering::SeqCst);
	drop(tracks);
	drop(sends);
	drop(clocks);
	drop(mods);
	drop(listeners);
	drop(main_sounds);
	drop(rig);
	let (c, d) = (ledger.created.load(Ordering::SeqCst), ledger.dropped.load(Ordering::SeqCst));
	if c != created_before || c != d {
		return Err(format!("conservation: {} probe resources created but {} destroyed after the manager and renderer were dropped [{}]", c, d, hist.iter().rev().take(6).cloned().collect::<Vec<_>>().join("; ")));
	}
	if ledger.double_drop.load(Ordering::SeqCst) > 0 {
		return Err("a probe resource was destroyed twice".into());
	}
	if ledger.dropped_in_callback.load(Ordering::SeqCst) > 0 {
		return Err("a resource was destroyed inside an audio callback".into());
	}
	Ok(())
}

// ------------------------------------------------------------------ stale ids

/// A chain of tracks (top -> middle -> leaf, or top -> persisting child) whose handles are dropped one by one, in any order and
/// at any callback boundary: the top-level track is counted (and nothing beneath it is destroyed) for as long as any track of
/// the chain is kept - by a handle, or by persisting until its sounds have finished - and its slot is free again afterwards.
fn chain_case(r: &mut Rng) -> Result<(), String> {
	let ledger = Arc::new(Ledger::default());
	let mut rig = Rig::new(RigConfig { sample_rate: 8000, ibs: 16, channels: 2, capacities: Capacities { sub_track_capacity: 1, ..Default::default() } }, MainTrackBuilder::new());
	let persist_leaf = r.chance(0.4);
	let depth = if persist_leaf { r.usize_in(2, 3) } else { 3 };
	let mut hist = vec![format!("chain of {} tracks, the last one {}", depth, if persist_leaf { "persists until its sound finishes" } else { "plain" })];
	let fxb = |l: &Arc<Ledger>| LEffectB(LEffect { _t: Token::new(l) });
	let mut handles: Vec<Option<TrackHandle>> = vec![];
	let top = rig.mgr.add_sub_track(TrackBuilder::new().with_effect(fxb(&ledger))).map_err(|_| "top")?;
	handles.push(Some(top));
	for k in 1..depth {
		let b = TrackBuilder::new().with_effect(fxb(&ledger)).persist_until_sounds_finish(persist_leaf && k == depth - 1);
		let h = handles[k - 1].as_mut().unwrap().add_sub_track(b).map_err(|_| "nested")?;
		handles.push(Some(h));
	}
	let stop = Arc::new(AtomicBool::new(false));
	handles[depth - 1].as_mut().unwrap().play(LSoundData(LSound { _t: Token::new(&ledger), stop: stop.clone(), value: 0.1 })).map_err(|_| "play")?;
	let made = ledger.created.load(Ordering::SeqCst);
	rig.callback(16);
	rig.callback(16);
	let mut order: Vec<usize> = (0..depth).collect();
	for i in (1..order.len()).rev() {
		order.swap(i, r.below(i as u64 + 1) as usize);
	}
	let mut finished = false;
	for step in 0..depth + 1 {
		if step < depth {
			let k = order[step];
			handles[k] = None;
			hist.push(format!("drop handle {}", k));
		} else if persist_leaf {
			stop.store(true, Ordering::SeqCst);
			finished = true;
			hist.push("the sound finishes".into());
		} else {
			break;
		}
		let kept = handles.iter().any(|h| h.is_some()) || (persist_leaf && !finished);
		for c in 0..r.usize_in(1, 3) {
			rig.callback(16);
			hist.push("cb".into());
			let n = rig.mgr.num_sub_tracks();
			let destroyed = ledger.dropped.load(Ordering::SeqCst);
			if kept {
				if n != 1 {
					return Err(format!("num_sub_tracks() = {} although a track of the chain is still kept (the top-level track and everything beneath it must stay) [{}]", n, hist.join(" ")));
				}
				if destroyed != 0 {
					return Err(format!("{} object(s) of the chain (effects / the sound) were destroyed although a track of the chain is still kept [{}]", destroyed, hist.join(" ")));
				}
				if rig.mgr.add_sub_track(TrackBuilder::new()).is_ok() {
					return Err(format!("a second top-level track was accepted with capacity 1 while the chain's top-level track is alive [{}]", hist.join(" ")));
				}
			} else if c >= 2 && n != 0 {
				return Err(format!("num_sub_tracks() = {} three callbacks after the last track of the chain was released [{}]", n, hist.join(" ")));
			}
		}
	}
	for _ in 0..4 {
		rig.callback(16);
	}
	if rig.mgr.num_sub_tracks() != 0 {
		return Err(format!("num_sub_tracks() = {} after the whole chain was released and 4 more callbacks [{}]", rig.mgr.num_sub_tracks(), hist.join(" ")));
	}
	let t = rig.mgr.add_sub_track(TrackBuilder::new());
	if t.is_err() {
		return Err(format!("the top-level slot is not reusable after the chain was released [{}]", hist.join(" ")));
	}
	drop(t);
	drop(rig);
	let (c, d, cb) = (ledger.created.load(Ordering::SeqCst), ledger.dropped.load(Ordering::SeqCst), ledger.dropped_in_callback.load(Ordering::SeqCst));
	if c != made || d != made || cb != 0 {
		return Err(format!("chain: {} objects created, {} destroyed, {} of them inside an audio callback [{}]", c, d, cb, hist.join(" ")));
	}
	Ok(())
}

/// The built-in modulators free their slot like every other resource - at the next callback after the handle is dropped (the one
/// after, if not yet picked up) - whatever they are in the middle of: a tweener that is idle, waiting for a delayed or
/// clock-timed transition, or half-way through a long one; an LFO.
fn modulator_slot_case(r: &mut Rng) -> Result<(), String> {
	use kira::modulator::lfo::LfoBuilder;
	use kira::modulator::tweener::TweenerBuilder;
	let mut rig = Rig::new(RigConfig { sample_rate: 8000, ibs: 16, channels: 2, capacities: Capacities { modulator_capacity: 1, ..Default::default() } }, MainTrackBuilder::new());
	let clock = rig.mgr.add_clock(ClockSpeed::TicksPerSecond(1.0)).map_err(|_| "clock")?;
	let kind = r.below(5);
	let what = ["an idle tweener", "a tweener waiting for a transition delayed by an hour", "a tweener waiting for tick 5 of a clock that is not running", "a tweener one buffer into a transition of an hour", "an LFO"][kind as usize];
	let picked_up = r.chance(0.7);
	if kind == 4 {
		let h = rig.mgr.add_modulator(LfoBuilder::new()).map_err(|_| "lfo")?;
		if picked_up {
			rig.callback(16);
		}
		drop(h);
	} else {
		let mut h = rig.mgr.add_modulator(TweenerBuilder { initial_value: 0.0 }).map_err(|_| "tweener")?;
		let hour = std::time::Duration::from_secs(3600);
		match kind {
			1 => h.set(1.0, kira::Tween { start_time: kira::StartTime::Delayed(hour), ..Default::default() }),
			2 => h.set(1.0, kira::Tween { start_time: kira::StartTime::ClockTime(kira::clock::ClockTime::from_ticks_u64(clock.id(), 5)), ..Default::default() }),
			3 => h.set(1.0, kira::Tween { duration: hour, ..Default::default() }),
			_ => {}
		}
		if picked_up {
			rig.callback(16);
			rig.callback(16);
		}
		drop(h);
	}
	if rig.mgr.num_modulators() != 1 {
		return Err(format!("{}: num_modulators() = {} right after the handle was dropped (the slot is held until the audio thread lets go)", what, rig.mgr.num_modulators()));
	}
	rig.callback(16);
	if !picked_up {
		rig.callback(16);
	}
	let n = rig.mgr.num_modulators();
	let again = rig.mgr.add_modulator(TweenerBuilder { initial_value: 0.0 });
	if n != 0 || again.is_err() {
		return Err(format!("{} ({}): {} callback(s) after its handle was dropped num_modulators() = {} and a new modulator is {} (capacity 1)", what, if picked_up { "picked up" } else { "not yet picked up" }, if picked_up { 1 } else { 2 }, n, if again.is_err() { "refused" } else { "accepted" }));
	}
	Ok(())
}

fn stale_id_case(r: &mut Rng) -> Result<(), String> {
	let mut rig = Rig::new(RigConfig { sample_rate: 8000, ibs: 16, channels: 2, capacities: Capacities { sub_track_capacity: 4, send_track_capacity: 1, clock_capacity: 1, modulator_capacity: 1, listener_capacity: 1 } }, MainTrackBuilder::new());
	let inst = Tween { start_time: StartTime::Immediate, duration: Duration::ZERO, easing: Easing::Linear };
	match r.below(4) {
		0 => {
			// clock: a sound waiting on a removed clock must be cancelled even though a new clock reuses the slot
			let old = rig.mgr.add_clock(ClockSpeed::TicksPerSecond(100.0)).map_err(|_| "clock")?;
			let old_id = old.id();
			rig.callback(16);
			let s = rig.mgr.play(crate::probes::dc_sound(8000, 64, 0.2).loop_region(..).start_time(StartTime::ClockTime(ClockTime::from_ticks_u64(old_id, 3)))).map_err(|_| "play")?;
			drop(old);
			rig.callback(16);
			let mut newc = rig.mgr.add_clock(ClockSpeed::TicksPerSecond(1000.0)).map_err(|_| "the slot of the removed clock is not reusable")?;
			newc.start();
			let mut heard = false;
			for _ in 0..20 {
				let b = rig.callback(64);
				heard |= b.iter().any(|x| *x != 0.0);
			}
			if heard || s.state() != PlaybackState::Stopped {
				return Err(format!("a sound scheduled on a removed clock resolved the old id to the new clock in the same slot (heard: {}, state {:?}; old id {:?}, new id {:?})", heard, s.state(), old_id, newc.id()));
			}
		}
		1 => {
			// modulator: a parameter linked to a removed modulator holds its last value; it must not follow the new one
			let stop = Arc::new(AtomicBool::new(false));
			let ledger = Arc::new(Ledger::default());
			let old = rig.mgr.add_modulator(LModB(LMod { _t: Token::new(&ledger), stop, value: 1.0 })).map_err(|_| "mod")?;
			let map = Mapping { input_range: (0.0, 1.0), output_range: (Decibels(-20.0), Decibels(0.0)), easing: Easing::Linear };
			let _s = rig.mgr.play(crate::probes::dc_sound(8000, 64, 0.2).loop_region(..).volume(Value::FromModulator { id: old.id, mapping: map })).map_err(|_| "play")?;
			rig.callback(64);
			let before = *rig.callback(64).last().unwrap();
			drop(old);
			rig.callback(16);
			let stop2 = Arc::new(AtomicBool::new(false));
			let _new = rig.mgr.add_modulator(LModB(LMod { _t: Token::new(&ledger), stop: stop2, value: 0.0 })).map_err(|_| "the slot of the removed modulator is not reusable")?;
			let mut after = 0.0;
			for _ in 0..6 {
				after = *rig.callback(64).last().unwrap();
			}
			if after != before {
				return Err(format!("a parameter linked to a removed modulator changed from {} to {} after a new modulator reused its slot", before, after));
			}
		}
		2 => {
			// listener: a spatial track whose listener was removed stays silent although a new listener reuses the slot
			let old = rig.mgr.add_listener(Vec3::ZERO, Quat::IDENTITY).map_err(|_| "listener")?;
			let mut t = rig.mgr.add_spatial_sub_track(&old, Vec3::new(0.0, 0.0, 1.0), SpatialTrackBuilder::new()).map_err(|_| "track")?;
			let _s = t.play(crate::probes::dc_sound(8000, 64, 0.2).loop_region(..)).map_err(|_| "play")?;
			rig.callback(64);
			if rig.callback(64).iter().all(|x| *x == 0.0) {
				return Err("spatial track with a live listener is silent".into());
			}
			drop(old);
			rig.callback(16);
			let _new = rig.mgr.add_listener(Vec3::ZERO, Quat::IDENTITY).map_err(|_| "the slot of the removed listener is not reusable")?;
			for _ in 0..4 {
				rig.callback(64);
			}
			if rig.callback(64).iter().any(|x| *x != 0.0) {
				return Err("a spatial track whose listener was removed became audible again when a new listener reused the slot".into());
			}
		}
		_ => {
			// send track: a route to a removed send feeds nothing, also after the slot is reused
			let old = rig.mgr.add_send_track(SendTrackBuilder::new()).map_err(|_| "send")?;
			let mut t = rig.mgr.add_sub_track(TrackBuilder::new().with_send(&old, Decibels(0.0))).map_err(|_| "track")?;
			let _s = t.play(crate::probes::dc_sound(8000, 64, 0.2).loop_region(..)).map_err(|_| "play")?;
			rig.callback(64);
			let with_send = *rig.callback(64).last().unwrap();
			drop(old);
			rig.callback(16);
			let _new = rig.mgr.add_send_track(SendTrackBuilder::new()).map_err(|_| "the slot of the removed send track is not reusable")?;
			let mut after = 0.0;
			for _ in 0..4 {
				after = *rig.callback(64).last().unwrap();
			}
			t.set_volume(Decibels(0.0), inst);
			if (with_send - 0.4).abs() > 1e-4 || (after - 0.2).abs() > 1e-4 {
				return Err(format!("route to a removed send track: level with the send {} (expected 0.4), after removal and slot reuse {} (expected 0.2: the route must feed nothing)", with_send, after));
			}
		}
	}
	Ok(())
}

// ------------------------------------------------------------------ concurrency: create path vs remove-and-add

/// Game thread creating/dropping clocks while the audio thread runs callbacks, under the controlled
/// scheduler at the res.* hook points. Capacity accounting must be linearizable and never exceeded.
fn concurrent_case(prefix: Vec<usize>, rng: Option<Rng>, cap: usize, n_game_ops: usize, n_cb: usize) -> (crate::sched::RunResult, Result<(), String>) {
	let mut rig = Rig::new(RigConfig { sample_rate: 8000, ibs: 4, channels: 2, capacities: Capacities { clock_capacity: cap, ..Default::default() } }, MainTrackBuilder::new());
	rig.watch_alloc = false;
	let renderer = rig.renderer.take().unwrap();
	let err: Arc<Mutex<Option<String>>> = Arc::new(Mutex::new(None));
	// removals that the audio thread has performed are only known approximately: bound the count
	let e1 = err.clone();
	let cb_done = Arc::new(AtomicU64::new(0));
	let cbd = cb_done.clone();
	let audio: Box<dyn FnOnce() + Send> = Box::new(move || {
		let mut renderer = renderer;
		let mut buf = vec![0.0f32; 8];
		for _ in 0..n_cb {
			crate::sched::yield_now("audio.cb");
			renderer.on_start_processing();
			renderer.process(&mut buf, 2);
			cbd.fetch_add(1, Ordering::SeqCst);
		}
		// the renderer is dropped on this (harness) thread after the run; nothing in it is a probe
		drop(renderer);
	});
	let game: Box<dyn FnOnce() + Send> = Box::new(move || {
		let mut mgr = rig.mgr;
		let mut live: Vec<ClockHandle> = vec![];
		let mut dropped_pending = 0usize; // dropped handles whose removal may or may not have happened yet
		for k in 0..n_game_ops {
			crate::sched::yield_now("game.op");
			if k % 3 == 2 && !live.is_empty() {
				live.remove(0);
				dropped_pending += 1;
			} else {
				let cbs_before = cb_done.load(Ordering::SeqCst);
				let res = mgr.add_clock(ClockSpeed::TicksPerSecond(1.0));
				let max_count = live.len() + dropped_pending; // if none of the pending removals happened yet
				let min_count = live.len(); // if all of them happened
				if res.is_ok() && min_count >= cap {
					*e1.lock().unwrap() = Some(format!("add_clock succeeded although {} clocks are alive (capacity {})", min_count, cap));
				}
				if res.is_err() && max_count < cap {
					*e1.lock().unwrap() = Some(format!("add_clock failed although at most {} clocks are alive or awaiting removal (capacity {})", max_count, cap));
				}
				if let Ok(h) = res {
					live.push(h);
				}
				let _ = cbs_before;
				let n = mgr.num_clocks();
				if n > cap {
					*e1.lock().unwrap() = Some(format!("num_clocks() = {} exceeds the capacity {}", n, cap));
				}
				if n < live.len() || n > live.len() + dropped_pending {
					*e1.lock().unwrap() = Some(format!("num_clocks() = {} outside [{} alive, {} alive+awaiting removal]", n, live.len(), live.len() + dropped_pending));
				}
			}
		}
		drop(live);
		drop(mgr);
	});
	let res = crate::sched::run(vec![audio, game], prefix, rng);
	let e = err.lock().unwrap().clone();
	(res, match e {
		Some(x) => Err(x),
		None => Ok(()),
	})
}

/// Same exploration for the sound storage of the main track (ResourceStorage: the arena slot is freed,
/// then the removed sound is handed to the 'unused' ring - the hook `res.raa.removing` sits in between).
fn concurrent_sounds_case(prefix: Vec<usize>, rng: Option<Rng>, cap: usize, n_game_ops: usize, n_cb: usize) -> (crate::sched::RunResult, Result<(), String>) {
	let ledger = Arc::new(Ledger::default());
	let mut rig = Rig::new(RigConfig { sample_rate: 8000, ibs: 4, channels: 2, capacities: Capacities::default() }, MainTrackBuilder::new().sound_capacity(cap));
	rig.watch_alloc = false;
	let renderer = rig.renderer.take().unwrap();
	let err: Arc<Mutex<Option<String>>> = Arc::new(Mutex::new(None));
	let e1 = err.clone();
	let e2 = err.clone();
	let audio: Box<dyn FnOnce() + Send> = Box::new(move || {
		let mut renderer = renderer;
		let mut buf = vec![0.0f32; 8];
		for _ in 0..n_cb {
			crate::sched::yield_now("audio.cb");
			crate::monitors::arm_alloc(false);
			let r = std::panic::catch_unwind(std::panic::AssertUnwindSafe(|| {
				renderer.on_start_processing();
				renderer.process(&mut buf, 2);
			}));
			crate::monitors::disarm_alloc();
			if r.is_err() {
				let p = crate::monitors::take_panics();
				*e2.lock().unwrap() = Some(format!("the audio callback panicked: {}", p.iter().map(|p| p.sig()).collect::<Vec<_>>().join(" | ")));
				break;
			}
		}
		drop(renderer);
	});
	let l2 = ledger.clone();
	let game: Box<dyn FnOnce() + Send> = Box::new(move || {
		let mut mgr = rig.mgr;
		let mut live: Vec<SoundH> = vec![];
		let mut pending = 0usize;
		for k in 0..n_game_ops {
			crate::sched::yield_now("game.op");
			if k % 2 == 1 && !live.is_empty() {
				live.remove(0); // finished
				pending += 1;
			} else {
				let stop = Arc::new(AtomicBool::new(false));
				let res = mgr.play(LSoundData(LSound { _t: Token::new(&l2), stop: stop.clone(), value: 0.0 }));
				if res.is_ok() && live.len() >= cap {
					*e1.lock().unwrap() = Some(format!("play succeeded although {} sounds are alive (capacity {})", live.len(), cap));
				}
				if res.is_err() && live.len() + pending < cap {
					*e1.lock().unwrap() = Some(format!("play failed although at most {} sounds are alive or awaiting removal (capacity {})", live.len() + pending, cap));
				}
				if res.is_ok() {
					live.push(SoundH { stop });
				}
				let n = mgr.main_track().num_sounds();
				if n > cap {
					*e1.lock().unwrap() = Some(format!("num_sounds() = {} exceeds the capacity {}", n, cap));
				}
			}
		}
		drop(live);
		drop(mgr);
	});
	let res = crate::sched::run(vec![audio, game], prefix, rng);
	let mut e = err.lock().unwrap().clone();
	if e.is_none() && ledger.dropped_in_callback.load(Ordering::SeqCst) > 0 {
		e = Some("a sound was destroyed inside an audio callback".into());
	}
	(res, match e {
		Some(x) => Err(x),
		None => Ok(()),
	})
}

fn free_running_stress(ctx: &mut Ctx) {
	// game thread creating/dropping sub-tracks, clocks and sounds while an audio thread runs callbacks
	let rounds = if ctx.engine == "miri" { 1 } else { ctx.t(4u64, 40u64) };
	let n_ops = match ctx.engine.as_str() {
		"miri" => 60usize,
		"tsan" => 20_000,
		_ => 60_000,
	};
	for round in 0..rounds {
		let mut r = Rng::new(ctx.seed ^ (ctx.shard << 16) ^ round);
		let caps = Capacities { sub_track_capacity: 3, send_track_capacity: 2, clock_capacity: 2, modulator_capacity: 2, listener_capacity: 2 };
		let ledger = Arc::new(Ledger::default());
		let mut rig = Rig::new(RigConfig { sample_rate: 8000, ibs: 8, channels: 2, capacities: caps }, MainTrackBuilder::new().sound_capacity(3));
		let mut renderer = rig.renderer.take().unwrap();
		let stop = Arc::new(AtomicBool::new(false));
		let stop2 = stop.clone();
		let in_cb_drops = ledger.clone();
		let audio = std::thread::spawn(move || {
			let mut buf = vec![0.0f32; 32];
			let mut n = 0u64;
			while !stop2.load(Ordering::SeqCst) {
				crate::monitors::arm_alloc(false);
				renderer.on_start_processing();
				renderer.process(&mut buf, 2);
				crate::monitors::disarm_alloc();
				n += 1;
				if n % 64 == 0 {
					std::thread::yield_now();
				}
			}
			let _ = in_cb_drops;
			(renderer, n)
		});
		let mut clocks: Vec<ClockHandle> = vec![];
		let mut tracks: Vec<TrackHandle> = vec![];
		let mut sounds: Vec<SoundH> = vec![];
		let mut violation: Option<String> = None;
		for _ in 0..n_ops {
			match r.below(8) {
				0 | 1 => {
					if let Ok(c) = rig.mgr.add_clock(ClockSpeed::TicksPerSecond(5.0)) {
						clocks.push(c);
					}
				}
				2 => {
					if let Ok(t) = rig.mgr.add_sub_track(TrackBuilder::new().with_effect(LEffectB(LEffect { _t: Token::new(&ledger) }))) {
						tracks.push(t);
					}
				}
				3 | 4 => {
					let st = Arc::new(AtomicBool::new(false));
					if rig.mgr.play(LSoundData(LSound { _t: Token::new(&ledger), stop: st.clone(), value: 0.0 })).is_ok() {
						sounds.push(SoundH { stop: st });
					}
				}
				5 => {
					if !clocks.is_empty() {
						clocks.swap_remove(r.below(clocks.len() as u64) as usize);
					}
				}
				6 => {
					if !tracks.is_empty() {
						tracks.swap_remove(r.below(tracks.len() as u64) as usize);
					}
				}
				_ => {
					if !sounds.is_empty() {
						sounds.swap_remove(r.below(sounds.len() as u64) as usize);
					}
				}
			}
			if rig.mgr.num_clocks() > 2 || rig.mgr.num_sub_tracks() > 3 || rig.mgr.main_track().num_sounds() > 3 {
				violation = Some(format!("a count exceeds its capacity: clocks {} / 2, sub-tracks {} / 3, main sounds {} / 3", rig.mgr.num_clocks(), rig.mgr.num_sub_tracks(), rig.mgr.main_track().num_sounds()));
				break;
			}
			if rig.mgr.num_clocks() < clocks.len() || rig.mgr.num_sub_tracks() < tracks.len() || rig.mgr.main_track().num_sounds() < sounds.len() {
				violation = Some("a count is smaller than the number of live handles".into());
				break;
			}
		}
		stop.store(true, Ordering::SeqCst);
		let (renderer, ncb) = match audio.join() {
			Ok(x) => x,
			Err(_) => {
				let p = crate::monitors::take_panics();
				ctx.eval();
				let msg = p.iter().map(|p| format!("{} (in callback: {})", p.sig(), p.in_callback)).collect::<Vec<_>>().join(" | ");
				if ctx.known("C08.unused_ring_overflow_race") && msg.contains("unused resource producer is full") {
					ctx.count("stress_rounds_hitting_the_known_unused_ring_overflow", 1);
				} else {
					ctx.violation("stress", round, &format!("free-running create/drop stress: the audio thread panicked: {}", msg), J::Null);
				}
				continue;
			}
		};
		drop(clocks);
		drop(tracks);
		drop(sounds);
		drop(rig);
		drop(renderer);
		ctx.eval();
		ctx.count("stress_game_ops", n_ops as u64);
		ctx.count("stress_callbacks", ncb);
		if ledger.dropped_in_callback.load(Ordering::SeqCst) > 0 {
			violation = Some(format!("{} probe resources were destroyed on the audio thread inside a callback", ledger.dropped_in_callback.load(Ordering::SeqCst)));
		}
		if ledger.created.load(Ordering::SeqCst) != ledger.dropped.load(Ordering::SeqCst) {
			violation = Some(format!("conservation: {} created, {} destroyed", ledger.created.load(Ordering::SeqCst), ledger.dropped.load(Ordering::SeqCst)));
		}
		if let Some(v) = violation {
			ctx.violation("stress", round, &format!("free-running create/drop stress: {}", v), J::Null);
		}
	}
}

pub fn run(ctx: &mut Ctx) {
	let sanitizer = ctx.engine == "miri" || ctx.engine == "tsan";
	let only = ctx.only_case.as_ref().map(|x| x.0.clone());
	let mut stats = Stats { ops: 0, callbacks: 0, limit_errors: 0, slots_reused: 0, queries: 0, failed_plays: 0 };
	if !sanitizer {
		let n = ctx.t(6_000u64, 600_000u64);
		for i in 0..n {
			if !ctx.owns("hist", i) {
				continue;
			}
			if !ctx.replaying() && !ctx.time_left(0.5) {
				ctx.note("time budget reached in histories");
				break;
			}
			let mut r = Rng::for_case(ctx.seed, 801, i);
			ctx.eval();
			crate::monitors::set_current(ctx, "hist", i, "resource history", false);
			let before = stats.slots_reused;
			let res = super::guarded(|| history_case(ctx, &mut r, &mut stats));
			crate::monitors::clear_current();
			match res {
				Ok(Ok(())) => {
					if stats.slots_reused > before {
						ctx.distinct_key(0xC08_0001_0000_0000 | (i % 8192));
					}
				}
				Ok(Err(e)) => ctx.violation("hist", i, &e, J::Null),
				Err(p) => ctx.violation("hist", i, &format!("panic: {} (in callback: {})", p.first().map(|p| p.sig()).unwrap_or_default(), p.first().map(|p| p.in_callback).unwrap_or(false)), J::Null),
			}
		}
		let n2 = ctx.t(400u64, 40_000u64);
		for i in 0..n2 {
			if !ctx.owns("stale", i) {
				continue;
			}
			if !ctx.replaying() && !ctx.time_left(0.62) {
				break;
			}
			let mut r = Rng::for_case(ctx.seed, 802, i);
			ctx.eval();
			match super::guarded(|| stale_id_case(&mut r).and_then(|_| chain_case(&mut r)).and_then(|_| modulator_slot_case(&mut r))) {
				Ok(Ok(())) => ctx.distinct_key(0xC08_0002_0000_0000 | (i % 4)),
				Ok(Err(e)) => ctx.violation("stale", i, &e, J::Null),
				Err(p) => ctx.violation("stale", i, &format!("panic: {}", p.first().map(|p| p.sig()).unwrap_or_default()), J::Null),
			}
		}
		// controlled schedules: create path vs remove-and-add
		if only.as_deref().map(|s| s == "sched").unwrap_or(true) {
			crate::sched::set_site_filter(Some(|s: &str| (s.starts_with("res.") && s != "res.raa.removed") || s == "audio.cb" || s == "game.op"));
			let fixed = if ctx.only_case.is_none() && ctx.nshards.is_power_of_two() { ctx.nshards.trailing_zeros() as usize } else { 0 };
			let my_prefix: Vec<usize> = (0..fixed).map(|b| ((ctx.shard >> b) & 1) as usize).collect();
			let mut total = 0u64;
			let race_known = ctx.known("C08.unused_ring_overflow_race");
			for &(cap, ops, cbs, sounds) in &[(1usize, 3usize, 2usize, false), (2, 4, 2, false), (1, 5, 3, false), (1, 4, 3, true), (2, 6, 3, true), (1, 8, 5, true), (2, 8, 4, true), (3, 10, 4, true)] {
				let mut prefix: Option<Vec<usize>> = Some(my_prefix.clone());
				let mut count = 0u64;
				let capn = ctx.t(1500u64, 150_000u64);
				while let Some(p) = prefix {
					let (res, mut verdict) = if sounds { concurrent_sounds_case(p.clone(), None, cap, ops, cbs) } else { concurrent_case(p.clone(), None, cap, ops, cbs) };
					if let Err(e) = &verdict {
						if race_known && e.contains("unused resource producer is full") {
							ctx.count("schedules_hitting_the_known_unused_ring_overflow", 1);
							verdict = Ok(());
						}
					}
					let duplicate = res.log.iter().take(fixed).zip(&my_prefix).any(|((c, n), want)| *n < 2 || c != want);
					if duplicate {
						break;
					}
					ctx.eval();
					if let Err(e) = verdict {
						ctx.violation("sched", total, &format!("{} capacity {} / {} game ops / {} callbacks: {}", if sounds { "sounds" } else { "clocks" }, cap, ops, cbs, e), jobj! {"schedule" => res.steps.iter().map(|(t, s)| J::S(format!("{}:{}", t, s))).collect::<Vec<J>>()});
					}
					ctx.distinct_str(&format!("S{:?}", res.steps));
					if ctx.want_sample() && count == 5 {
						ctx.sample(jobj! {"monitor" => "create path vs remove-and-add under the controlled scheduler", "capacity" => cap, "schedule" => res.steps.iter().map(|(t, s)| J::S(format!("{}:{}", t, s))).collect::<Vec<J>>()});
					}
					prefix = crate::sched::next_prefix_within(&res.log, fixed);
					count += 1;
					total += 1;
					if count >= capn {
						ctx.note(&format!("schedule enumeration (cap {}, {} ops, {} callbacks) capped at {} per shard", cap, ops, cbs, capn));
						break;
					}
				}
				ctx.count(&format!("schedules_{}_cap{}_ops{}_cb{}", if sounds { "sounds" } else { "clocks" }, cap, ops, cbs), count);
			}
			crate::sched::set_site_filter(None);
		}
	}
	if only.as_deref().map(|s| s == "stress").unwrap_or(true) {
		free_running_stress(ctx);
	}
	ctx.count("history_ops", stats.ops);
	ctx.count("history_callbacks", stats.callbacks);
	ctx.count("limit_errors_returned", stats.limit_errors);
	ctx.count("plays_of_failing_sound_data", stats.failed_plays);
	ctx.count("slots_freed_and_reusable", stats.slots_reused);
	ctx.count("count_queries_checked", stats.queries);
	if ctx.sample_count() < 3 {
		ctx.sample(jobj! {"monitor" => "sequential histories", "note" => "create/drop/finish/callback over sub-tracks, sends, clocks, modulators, listeners, sounds with capacities {0,1,2,3,128}; every num_*/capacity query compared with the shadow model"});
	}
}

pub fn confirm(key: &str) -> Option<Option<String>> {
	match key {
		"C08.capacity_zero_panics" => {
			let r = super::guarded(|| {
				let mut rig = Rig::new(RigConfig { sample_rate: 8000, ibs: 16, channels: 2, capacities: Capacities { clock_capacity: 0, ..Default::default() } }, MainTrackBuilder::new());
				rig.mgr.add_clock(ClockSpeed::TicksPerSecond(1.0)).is_err()
			});
			Some(match r {
				Ok(true) => None,
				Ok(false) => Some("add_clock succeeded with clock_capacity 0".into()),
				Err(p) => Some(format!("add_clock with clock_capacity 0 panics instead of returning ResourceLimitReached: {}", p.first().map(|p| p.sig()).unwrap_or_default())),
			})
		}
		"C08.unused_ring_overflow_race" => {
			crate::sched::set_site_filter(Some(|s: &str| (s.starts_with("res.") && s != "res.raa.removed") || s == "audio.cb" || s == "game.op"));
			let mut prefix: Option<Vec<usize>> = Some(vec![]);
			let mut found = None;
			let mut n = 0;
			while let Some(p) = prefix {
				let (res, v) = concurrent_sounds_case(p, None, 1, 4, 3);
				if let Err(e) = v {
					if e.contains("unused resource producer is full") {
						found = Some(format!("capacity-1 main track, play/finish/play/finish against 3 callbacks: {} [schedule: {}]", e, res.steps.iter().map(|(t, s)| format!("{}:{}", t, s)).collect::<Vec<_>>().join(" ")));
						break;
					}
				}
				prefix = crate::sched::next_prefix(&res.log);
				n += 1;
				if n > 200_000 {
					break;
				}
			}
			crate::sched::set_site_filter(None);
			Some(found)
		}
		_ => None,
	}
}
