//! C05 — clocks keep exact audio time; clock-scheduled events fire in the right buffer; handle reads
//! never go backwards or show a value the clock did not have.
//! Three monitors: (1) exact time vs a reference sum, (2) scheduling against chunk boundaries,
//! (3) handle reads under a controlled scheduler (reader thread vs audio thread).

use std::sync::{Arc, Mutex};
use std::time::Duration;

use kira::clock::{ClockHandle, ClockSpeed, ClockTime};
use kira::sound::PlaybackState;
use kira::{Decibels, Easing, StartTime, Tween};

use crate::jobj;
use crate::props::c06::gen_easing;
use crate::refmodel::ease_ref;
use crate::rig::Rig;
use crate::util::{Ctx, Rng, J};

// ------------------------------------------------------------------ monitor 1: exact time

#[derive(Clone, Copy, Debug)]
enum Sp {
	Tps(f64),
	Tpm(f64),
	Spt(f64),
}
impl Sp {
	fn to(self) -> ClockSpeed {
		match self {
			Sp::Tps(v) => ClockSpeed::TicksPerSecond(v),
			Sp::Tpm(v) => ClockSpeed::TicksPerMinute(v),
			Sp::Spt(v) => ClockSpeed::SecondsPerTick(v),
		}
	}
	fn tps(self) -> f64 {
		match self {
			Sp::Tps(v) => v,
			Sp::Tpm(v) => v / 60.0,
			Sp::Spt(v) => 1.0 / v,
		}
	}
	fn gen(r: &mut Rng) -> Sp {
		let tps = r.log_in(0.5, 3000.0);
		match r.below(3) {
			0 => Sp::Tps(tps),
			1 => Sp::Tpm(tps * 60.0),
			_ => Sp::Spt(1.0 / tps),
		}
	}
	/// speed (ticks/s) of a tween from `from_tps` to self at eased fraction x: interpolated in self's unit
	fn interp_from(self, from_tps: f64, x: f64) -> f64 {
		match self {
			Sp::Tps(b) => from_tps + (b - from_tps) * x,
			Sp::Tpm(b) => (from_tps * 60.0 + (b - from_tps * 60.0) * x) / 60.0,
			Sp::Spt(b) => 1.0 / (1.0 / from_tps + (b - 1.0 / from_tps) * x),
		}
	}
}

#[derive(Clone, Debug)]
enum COp {
	Start,
	Pause,
	Stop,
	/// stop() immediately followed by start(): both reach the audio thread in the same callback; the clock restarts from zero
	StopStart,
	/// pause() immediately followed by start(): the last one wins, the clock keeps running
	PauseStart,
	/// two or three of start (0) / pause (1) / stop (2) issued back to back between two callbacks: they reach the audio thread
	/// together; the last one decides whether the clock ticks, and a stop anywhere in the burst resets the time
	Burst(Vec<u8>),
	SetSpeed { target: Sp, dur: f64, easing: Easing, sched: Sched },
}

#[derive(Clone, Copy, Debug, PartialEq)]
enum Sched {
	Immediate,
	/// when the second (constant-speed) clock reaches this many ticks
	OtherClock(f64),
	/// when this clock itself reaches this many ticks
	OwnClock(f64),
}

struct TweenModel {
	from_tps: (f64, f64),
	target: Sp,
	dur: f64,
	easing: Easing,
	/// elapsed tween time: (lower, upper); None = not started
	tau: Option<(f64, f64)>,
	sched: Sched,
}

fn exact_time_case(ctx: &mut Ctx, idx: u64, r: &mut Rng) -> Result<(u64, bool), String> {
	let sr = *r.pick(&[8000u32, 44100, 48000, 96000]);
	let ibs = *r.pick(&[1usize, 7, 16, 64, 128, 333]);
	let dt = 1.0 / sr as f64;
	let mut rig = Rig::simple(sr, ibs);
	let s0 = Sp::gen(r);
	let other_tps = r.log_in(5.0, 500.0);
	// the auxiliary clock is created first: it is updated before the clock under test in every chunk
	let mut other: ClockHandle = rig.mgr.add_clock(ClockSpeed::TicksPerSecond(other_tps)).map_err(|_| "clock")?;
	let mut clock: ClockHandle = rig.mgr.add_clock(s0.to()).map_err(|_| "clock")?;
	other.start();
	let n_ops = r.usize_in(3, 14);
	let self_known = ctx.known("C05.speed_tween_scheduled_on_own_clock_never_starts");
	let mut used_own = false;
	// model
	let mut ticking = false;
	let mut lo = 0.0f64; // lower / upper bound of ticks+fraction
	let mut hi = 0.0f64;
	let mut cur_tps = (s0.tps(), s0.tps());
	let mut tw: Option<TweenModel> = None;
	let mut other_val = 0.0f64;
	let mut other_started = false;
	let mut frames_total = 0u64;
	let mut history: Vec<String> = vec![];
	let mut paused_value: Option<ClockTime> = None;
	for opi in 0..n_ops {
		// ---- one operation on the clock, then 1..4 callbacks
		let op = match r.below(14) {
			0 | 1 | 2 => COp::Start,
			3 => COp::Pause,
			4 => COp::Stop,
			10 => COp::StopStart,
			11 => COp::PauseStart,
			12 | 13 => COp::Burst((0..r.usize_in(2, 3)).map(|_| r.below(3) as u8).collect()),
			_ => COp::SetSpeed {
				target: Sp::gen(r),
				dur: if r.chance(0.3) { 0.0 } else { r.f64_in(0.0, 0.2) },
				easing: gen_easing(r),
				sched: match r.below(5) {
					0 => Sched::OtherClock(other_val + other_tps * r.f64_in(0.0, 0.05)),
					1 if !self_known => Sched::OwnClock(hi + r.f64_in(0.0, 3.0)),
					_ => Sched::Immediate,
				},
			},
		};
		if opi == 0 {
			clock.start();
			history.push("Start".into());
			ticking = true;
		} else {
			history.push(format!("{:?}", op));
			match &op {
				COp::Start => {
					clock.start();
					ticking = true;
					paused_value = None;
				}
				COp::Pause => {
					clock.pause();
					ticking = false;
				}
				COp::Stop => {
					clock.stop();
					ticking = false;
					lo = 0.0;
					hi = 0.0;
					paused_value = None;
				}
				COp::StopStart => {
					clock.stop();
					clock.start();
					ticking = true;
					lo = 0.0;
					hi = 0.0;
					paused_value = None;
				}
				COp::PauseStart => {
					clock.pause();
					clock.start();
					ticking = true;
					paused_value = None;
				}
				COp::Burst(b) => {
					for k in b {
						match k {
							0 => {
								clock.start();
								ticking = true;
								paused_value = None;
							}
							1 => {
								clock.pause();
								ticking = false;
							}
							_ => {
								clock.stop();
								ticking = false;
								lo = 0.0;
								hi = 0.0;
								paused_value = None;
							}
						}
					}
				}
				COp::SetSpeed { target, dur, easing, sched } => {
					let start_time = match sched {
						Sched::Immediate => StartTime::Immediate,
						Sched::OtherClock(t) => StartTime::ClockTime(ClockTime::from_ticks_f64(other.id(), *t)),
						Sched::OwnClock(t) => {
							used_own = true;
							StartTime::ClockTime(ClockTime::from_ticks_f64(clock.id(), *t))
						}
					};
					clock.set_speed(target.to(), Tween { start_time, duration: Duration::from_secs_f64(*dur), easing: *easing });
					// a new tween starts from the current (possibly mid-tween) speed
					tw = Some(TweenModel { from_tps: (0.0, 0.0), target: *target, dur: Duration::from_secs_f64(*dur).as_secs_f64(), easing: *easing, tau: None, sched: *sched });
				}
			}
		}
		for _ in 0..r.usize_in(1, 4) {
			let frames = match r.below(4) {
				0 => 1,
				1 => ibs,
				_ => r.usize_in(1, ibs * 3 + 2),
			};
			// ---- model: chunk by chunk
			let mut left = frames;
			while left > 0 {
				let n = left.min(ibs);
				left -= n;
				let cdt = n as f64 * dt;
				// the auxiliary clock (updated first)
				let other_prev = other_val;
				// its start() was issued before the first callback: it advances from the first chunk on
				let _ = other_started;
				other_val += other_tps * cdt;
				// the speed parameter of the clock under test updates every chunk, ticking or not
				if let Some(t) = tw.as_mut() {
					if t.tau.is_none() {
						let starts_now = match t.sched {
							Sched::Immediate => (true, true),
							// (certainly started, possibly started): the other clock may be observed before or after its update
							Sched::OtherClock(at) => (other_prev >= at, other_val >= at),
							Sched::OwnClock(at) => (ticking && lo >= at, ticking && hi + cur_tps.1 * cdt >= at),
						};
						if starts_now.1 {
							t.tau = Some((0.0, 0.0));
							// speed at the moment the tween starts (bounds)
							t.from_tps = cur_tps;
							if !starts_now.0 {
								// possibly not yet: the lower bound of elapsed time stays one chunk behind
								t.tau = Some((-cdt, 0.0));
							}
						}
					}
					if let Some((a, b)) = t.tau {
						let (a2, b2) = (a + cdt, b + cdt);
						t.tau = Some((a2, b2));
						let s_at = |tau: f64, from: f64| -> f64 {
							let x = if t.dur <= 0.0 { if tau > 0.0 { 1.0 } else { 0.0 } } else { (tau / t.dur).clamp(0.0, 1.0) };
							t.target.interp_from(from, ease_ref(t.easing, x))
						};
						let (f0, f1) = t.from_tps;
						let cands = [s_at(a.max(0.0), f0), s_at(a2.max(0.0), f0), s_at(b.max(0.0), f0), s_at(b2, f0), s_at(a.max(0.0), f1), s_at(a2.max(0.0), f1), s_at(b.max(0.0), f1), s_at(b2, f1)];
						cur_tps = (cands.iter().cloned().fold(f64::INFINITY, f64::min), cands.iter().cloned().fold(f64::NEG_INFINITY, f64::max));
						if a2 >= t.dur && t.dur >= 0.0 && a2 > 0.0 {
							let fin = t.target.tps();
							cur_tps = (cur_tps.0.min(fin), cur_tps.1.max(fin));
							if a >= t.dur {
								cur_tps = (fin, fin);
								tw = None;
							}
						}
					}
				}
				if ticking {
					lo += cur_tps.0 * cdt;
					hi += cur_tps.1 * cdt;
				}
			}
			rig.callback(frames);
			rig.sync();
			frames_total += frames as u64;
			if rig.alloc_events != 0 {
				return Err("allocation inside callback".into());
			}
			// ---- observe
			let t = clock.time();
			let v = t.ticks as f64 + t.fraction;
			if !(t.fraction >= 0.0 && t.fraction < 1.0) {
				return Err(format!("clock fraction {} outside [0,1) [{}]", t.fraction, history.join(", ")));
			}
			if clock.ticking() != ticking {
				return Err(format!("ticking() = {} but the clock was {} [{}]", clock.ticking(), if ticking { "started" } else { "paused/stopped" }, history.join(", ")));
			}
			let tol = 1e-9 * (1.0 + hi.abs()) + 1e-12 * frames_total as f64 + (hi - lo).abs() * 1e-6;
			if v < lo - tol || v > hi + tol {
				return Err(format!(
					"after {} frames the clock reads {} ticks but speed x elapsed audio time is in [{}, {}] (sr {}, ibs {}) [{}]",
					frames_total, v, lo, hi, sr, ibs, history.join(", ")
				));
			}
			if !ticking {
				// pausing freezes it bit-exactly; stopping resets it to zero
				if let Some(pv) = paused_value {
					if pv != t {
						return Err(format!("paused/stopped clock changed from {:?} to {:?}", (pv.ticks, pv.fraction), (t.ticks, t.fraction)));
					}
				}
				paused_value = Some(t);
			}
		}
	}
	Ok((frames_total, used_own))
}

// ------------------------------------------------------------------ monitor 2: scheduling

fn scheduling_case(_ctx: &mut Ctx, _idx: u64, r: &mut Rng) -> Result<u64, String> {
	let sr = *r.pick(&[8000u32, 44100, 48000]);
	let ibs = *r.pick(&[1usize, 5, 16, 64, 128, 333]);
	let dt = 1.0 / sr as f64;
	let mut rig = Rig::simple(sr, ibs);
	let tps = r.log_in(2.0, 2000.0);
	let mut clock = rig.mgr.add_clock(ClockSpeed::TicksPerSecond(tps)).map_err(|_| "clock")?;
	// event time: whole or fractional ticks
	let horizon_frames = r.usize_in(ibs * 2 + 10, ibs * 12 + 400);
	let t_event = {
		let raw = tps * horizon_frames as f64 * dt * r.f64_in(0.1, 0.9);
		if r.chance(0.4) { raw.floor() } else { raw }
	};
	let kind = r.below(4);
	let target = ClockTime::from_ticks_f64(clock.id(), t_event);
	let remove_clock = kind == 3;
	// the scheduled thing
	let data = crate::probes::coded_sound(sr, 100_000, 1.0 / 65536.0);
	let mut sound = match kind {
		0 | 3 => rig.mgr.play(data.start_time(StartTime::ClockTime(target))).map_err(|_| "play")?,
		_ => rig.mgr.play(data).map_err(|_| "play")?,
	};
	match kind {
		1 => sound.set_volume(Decibels(-20.0), Tween { start_time: StartTime::ClockTime(target), duration: Duration::ZERO, easing: Easing::Linear }),
		2 => {
			sound.pause(Tween { duration: Duration::ZERO, ..Default::default() });
			sound.resume_at(StartTime::ClockTime(target), Tween { duration: Duration::ZERO, ..Default::default() });
		}
		_ => {}
	}
	// (a waiting sound whose clock is dropped is cancelled whether or not it was paused in the meantime)
	let paused_waiting = kind == 3 && r.chance(0.5);
	if paused_waiting {
		let d = if r.chance(0.5) { 0.0 } else { r.f64_in(0.0, 0.01) };
		sound.pause(Tween { duration: Duration::from_secs_f64(d), ..Default::default() });
	}
	// clock history: start now or a few callbacks later, optionally one pause window
	let start_after = r.usize_in(0, 3);
	let pause_at = if r.chance(0.4) { Some(r.usize_in(start_after + 1, start_after + 6)) } else { None };
	let pause_len = r.usize_in(1, 4);
	let mut ticking = false;
	let mut c = 0.0f64; // model clock (end of chunk)
	let mut frame_pos = 0usize;
	let mut expected_frame: Option<(usize, bool)> = None; // (first frame of the chunk in which the event begins, ambiguous)
	let mut observed_frame: Option<usize> = None;
	let mut clock_opt = Some(clock);
	let mut cb = 0usize;
	let total_cb = 40;
	let mut removed_at: Option<usize> = None;
	let mut prev_l = 0.0f32;
	while cb < total_cb && frame_pos < horizon_frames * 2 {
		if cb == start_after {
			if let Some(c) = clock_opt.as_mut() {
				c.start();
			}
			ticking = true;
		}
		if let Some(p) = pause_at {
			if cb == p {
				if let Some(c) = clock_opt.as_mut() {
					c.pause();
				}
				ticking = false;
			}
			if cb == p + pause_len {
				if let Some(c) = clock_opt.as_mut() {
					c.start();
				}
				ticking = true;
			}
		}
		if remove_clock && cb == start_after + 1 && clock_opt.is_some() {
			clock_opt = None; // dropped: removed at the next callback
			if expected_frame.is_none() && observed_frame.is_none() {
				// the event had not fired yet: the waiting sound must be cancelled
				removed_at = Some(cb);
			} else {
				return Ok(frame_pos as u64);
			}
		}
		let frames = match r.below(4) {
			0 => 1,
			1 => ibs,
			_ => r.usize_in(1, ibs * 3 + 2),
		};
		// model chunks
		let clock_alive = clock_opt.is_some();
		let mut left = frames;
		let mut off = 0;
		while left > 0 {
			let n = left.min(ibs);
			if ticking && clock_alive {
				c += tps * n as f64 * dt;
			}
			if expected_frame.is_none() && ticking && clock_alive {
				let eps = 1e-9 * (1.0 + c.abs());
				if c >= t_event - eps {
					expected_frame = Some((frame_pos + off, (c - t_event).abs() <= eps));
				}
			}
			off += n;
			left -= n;
		}
		let buf = rig.callback(frames).to_vec();
		for (i, f) in buf.chunks(2).enumerate() {
			let heard = match kind {
				0 | 2 | 3 => f[0] != 0.0,
				_ => {
					// the volume change: the coded ramp changes slope; detect a drop against the index code
					let idx = frame_pos + i;
					let full = (idx + 1) as f32 / 65536.0;
					f[0] < full * 0.9995 && f[0] != 0.0
				}
			};
			if heard && observed_frame.is_none() {
				observed_frame = Some(frame_pos + i);
			}
			prev_l = f[0];
		}
		let _ = prev_l;
		frame_pos += frames;
		cb += 1;
		if let Some(ra) = removed_at {
			// clock removed: the waiting sound is cancelled
			if cb >= ra + 3 {
				if sound.state() != PlaybackState::Stopped {
					return Err(format!("the clock was dropped before callback {} but the sound waiting on it{} is still {:?} after callback {}", ra, if paused_waiting { " (paused while it waited)" } else { "" }, sound.state(), cb - 1));
				}
				if observed_frame.is_some() {
					return Err("sound scheduled on a removed clock became audible".into());
				}
				return Ok(frame_pos as u64);
			}
		}
	}
	if remove_clock {
		return Ok(frame_pos as u64);
	}
	let what = ["sound start", "volume tween start", "resume_at", "sound start"][kind as usize];
	match (expected_frame, observed_frame) {
		(Some((e, amb)), Some(o)) => {
			// kind 1: the change ramps in across the chunk: the first frame that differs is the chunk's first frame
			// kind 2: Resuming starts in that chunk; its fade-in becomes audible in the chunk itself (zero-length fade)
			let ok = o == e || (amb && o > e && o - e <= ibs);
			let ok = ok || (kind == 2 && o >= e && o - e <= ibs);
			if !ok {
				let late = o as i64 - e as i64;
				return Err(format!(
					"{} scheduled for clock time {} (speed {} ticks/s, sr {}, ibs {}): began at output frame {} but the buffer during which the clock reaches that time starts at frame {} ({} frames {})",
					what, t_event, tps, sr, ibs, o, e, late.abs(), if late > 0 { "late" } else { "early" }
				));
			}
		}
		(Some((e, _)), None) => {
			if frame_pos > e + ibs * 3 {
				return Err(format!("{} scheduled for clock time {} never began although the clock reached it at frame {} (rendered {} frames)", what, t_event, e, frame_pos));
			}
		}
		(None, Some(o)) => return Err(format!("{} began at frame {} although the clock never reached {} (clock at {})", what, o, t_event, c)),
		(None, None) => {}
	}
	Ok(frame_pos as u64)
}

// ------------------------------------------------------------------ monitor 3: handle reads under a controlled scheduler

#[derive(Clone, Debug)]
enum Ev {
	Pub { t: u64, f: u64 },
	PubPost,
	PubDone,
	ReadStart,
	ReadDone { t: u64, f: u64 },
	StopStart,
	StopDone,
}

/// One scheduled execution: the audio thread runs `n_cb` callbacks, the reader thread calls time()
/// `n_reads` times (optionally stop() in between). Returns the event log in schedule order.
fn run_schedule(prefix: Vec<usize>, rng: Option<Rng>, n_cb: usize, n_reads: usize, with_stop: bool, speed: f64) -> (crate::sched::RunResult, Vec<Ev>) {
	let log: Arc<Mutex<Vec<Ev>>> = Arc::new(Mutex::new(vec![]));
	// 4 Hz device, 1-frame buffer: every callback is one chunk of 0.25 s
	let mut rig = Rig::simple(4, 1);
	rig.watch_alloc = false;
	let mut clock = rig.mgr.add_clock(ClockSpeed::TicksPerSecond(speed)).expect("clock");
	clock.start();
	rig.callback(1);
	let clock = Arc::new(Mutex::new(clock));
	// record publications from the hook (the writer's true sequence)
	let l2 = log.clone();
	PUB_LOG.with(|_| {});
	*PUB_SINK.lock().unwrap() = Some(l2);
	let l_audio = log.clone();
	let audio: Box<dyn FnOnce() + Send> = Box::new(move || {
		let mut rig = rig;
		for _ in 0..n_cb {
			crate::sched::yield_now("audio.cb");
			rig.callback(1);
			l_audio.lock().unwrap().push(Ev::PubDone);
		}
		drop(rig);
	});
	let l_reader = log.clone();
	let c2 = clock.clone();
	let reader: Box<dyn FnOnce() + Send> = Box::new(move || {
		for i in 0..n_reads {
			crate::sched::yield_now("reader.next");
			if with_stop && i == n_reads / 2 {
				l_reader.lock().unwrap().push(Ev::StopStart);
				c2.lock().unwrap().stop();
				l_reader.lock().unwrap().push(Ev::StopDone);
				crate::sched::yield_now("reader.next");
			}
			l_reader.lock().unwrap().push(Ev::ReadStart);
			let t = c2.lock().unwrap().time();
			l_reader.lock().unwrap().push(Ev::ReadDone { t: t.ticks, f: t.fraction.to_bits() });
		}
	});
	let res = crate::sched::run(vec![audio, reader], prefix, rng);
	*PUB_SINK.lock().unwrap() = None;
	let ev = log.lock().unwrap().clone();
	(res, ev)
}

thread_local! {
	static PUB_LOG: () = const { () };
}
static PUB_SINK: Mutex<Option<Arc<Mutex<Vec<Ev>>>>> = Mutex::new(None);

/// called from the scheduler hook path for clock.pub.pre (installed by `run_schedules`)
pub fn on_clock_pub(t: u64, f: u64) {
	if let Ok(g) = PUB_SINK.lock() {
		if let Some(l) = g.as_ref() {
			l.lock().unwrap().push(Ev::Pub { t, f });
		}
	}
}

#[derive(Default)]
pub struct ReadStats {
	pub schedules: u64,
	pub reads: u64,
	pub reads_overlapping_a_publication: u64,
	pub torn_adjacent: u64,
	pub torn_stop: u64,
	pub exhausted: bool,
}

/// Checks one event log. Ok(known_tears) or Err(violation).
fn check_reads(ev: &[Ev], stats: &mut ReadStats, tear_known: bool) -> Result<(), String> {
	// published values in order: (index of the start of the publication, index of its completion, ticks, fraction)
	let mut pubs: Vec<(usize, usize, u64, u64)> = vec![(0, 0, 0, 0)]; // the initial (0,0) value
	let mut last_read: Option<(f64, usize)> = None;
	let mut stopped_at: Option<usize> = None;
	let mut read_start: Option<usize> = None;
	let val = |t: u64, f: u64| t as f64 + f64::from_bits(f);
	// first pass: completion indices
	{
		let mut open: Option<usize> = None;
		for (i, e) in ev.iter().enumerate() {
			match e {
				Ev::Pub { t, f } => {
					pubs.push((i, usize::MAX, *t, *f));
					open = Some(pubs.len() - 1);
				}
				Ev::PubPost => {
					if let Some(o) = open.take() {
						pubs[o].1 = i;
					}
				}
				_ => {}
			}
		}
	}
	for (i, e) in ev.iter().enumerate() {
		match e {
			Ev::Pub { .. } => {}
			Ev::StopStart => stopped_at = Some(i),
			Ev::ReadStart => read_start = Some(i),
			Ev::ReadDone { t, f } => {
				stats.reads += 1;
				let rs = read_start.unwrap_or(i);
				// candidates: the last value completely published before the read began, and every value whose
				// publication overlaps the read
				let last_before = pubs.iter().filter(|p| p.1 <= rs).last().map(|p| (p.0, p.2, p.3));
				let during: Vec<(usize, u64, u64)> = pubs.iter().filter(|p| p.0 < i && p.1 > rs).map(|p| (p.0, p.2, p.3)).collect();
				if !during.is_empty() {
					stats.reads_overlapping_a_publication += 1;
				}
				let mut ok = false;
				if let Some(lb) = last_before {
					if lb.1 == *t && lb.2 == *f {
						ok = true;
					}
				}
				for d in &during {
					if d.1 == *t && d.2 == *f {
						ok = true;
					}
				}
				// after stop(): zeros (or any value the clock did have) are acceptable until the reset is consumed
				if stopped_at.is_some() && *t == 0 && *f == 0 {
					ok = true;
				}
				if stopped_at.is_some() && pubs.iter().any(|p| p.2 == *t && p.3 == *f) {
					ok = true;
				}
				if !ok {
					// classify: a mix of two adjacent publications overlapping the read?
					let mut cands: Vec<(u64, u64)> = vec![];
					if let Some(lb) = last_before {
						cands.push((lb.1, lb.2));
					}
					for d in &during {
						cands.push((d.1, d.2));
					}
					// the two words come from two different publications that overlap (or immediately precede) the read
					let torn = cands.iter().any(|x| x.0 == *t) && cands.iter().any(|y| y.1 == *f);
					let stop_torn = stopped_at.is_some() && ((*t == 0 && cands.iter().any(|c| c.1 == *f)) || (*f == 0 && cands.iter().any(|c| c.0 == *t)));
					if torn && tear_known {
						stats.torn_adjacent += 1;
					} else if stop_torn && tear_known {
						stats.torn_stop += 1;
					} else if torn || stop_torn {
						return Err(format!(
							"ClockHandle::time() returned ({}, {}) — a value the clock never had: ticks and fraction come from two different publications {:?} (torn read)",
							t, f64::from_bits(*f), cands.iter().map(|c| (c.0, f64::from_bits(c.1))).collect::<Vec<_>>()
						));
					} else {
						return Err(format!("ClockHandle::time() returned ({}, {}) which matches no published value overlapping or preceding the read: {:?}", t, f64::from_bits(*f), cands.iter().map(|c| (c.0, f64::from_bits(c.1))).collect::<Vec<_>>()));
					}
				} else if stopped_at.is_none() {
					// never goes backwards while the clock runs
					let v = val(*t, *f);
					if let Some((pv, _)) = last_read {
						if v < pv {
							return Err(format!("ClockHandle::time() went backwards while the clock runs: {} after {}", v, pv));
						}
					}
					last_read = Some((v, i));
				}
			}
			_ => {}
		}
	}
	Ok(())
}

fn sched_hook_tap(site: &'static str, a: u64, b: u64) {
	if site == "clock.pub.pre" {
		on_clock_pub(a, b);
	}
	if site == "clock.pub.post" {
		if let Ok(g) = PUB_SINK.lock() {
			if let Some(l) = g.as_ref() {
				l.lock().unwrap().push(Ev::PubPost);
			}
		}
	}
}

fn reads_under_scheduler(ctx: &mut Ctx, stats: &mut ReadStats) {
	let tear_known = ctx.known("C05.torn_clock_handle_read");
	crate::hooks::set_tap(Some(sched_hook_tap));
	// scheduling points: the mid-word points of publication, read and stop, plus the harness' own yields
	crate::sched::set_site_filter(Some(|s: &str| s.starts_with("clock.") || s.starts_with("audio.") || s.starts_with("reader.")));
	// exhaustive DFS over all interleavings for small (callbacks, reads)
	let configs: &[(usize, usize, bool)] = if ctx.quick() { &[(1, 1, false), (2, 1, false), (1, 2, false), (2, 2, false), (2, 2, true)] } else { &[(1, 1, false), (2, 1, false), (1, 2, false), (2, 2, false), (3, 2, false), (2, 3, false), (3, 3, false), (2, 2, true), (3, 3, true)] };
	// The depth-first enumeration of one configuration is split over the shards by fixing the first `fixed`
	// binary choices (two threads: every early scheduling point has exactly two options).
	let fixed = if ctx.only_case.is_none() && ctx.nshards.is_power_of_two() { ctx.nshards.trailing_zeros() as usize } else { 0 };
	let my_prefix: Vec<usize> = (0..fixed).map(|b| ((ctx.shard >> b) & 1) as usize).collect();
	for (ci, &(n_cb, n_reads, with_stop)) in configs.iter().enumerate() {
		if ctx.only_case.is_none() && !ctx.nshards.is_power_of_two() && ci as u64 % ctx.nshards != ctx.shard {
			continue;
		}
		let mut case_no = ci as u64 * 10_000_000;
		let mut prefix: Option<Vec<usize>> = Some(my_prefix.clone());
		let mut count = 0u64;
		let cap = ctx.t(3_000u64, 400_000u64);
		let mut capped = false;
		while let Some(p) = prefix {
			let mine = ctx.only_case.as_ref().map(|(s, c)| s == "sched" && *c == case_no).unwrap_or(true);
			case_no += 1;
			// a speed of 3 ticks/s at 4 Hz: ticks and fraction both change at most publications
			let (res, ev) = run_schedule(p.clone(), None, n_cb, n_reads, with_stop, 3.0);
			// the fixed prefix must really have offered two options at each of its points, otherwise this
			// subtree duplicates a sibling's
			let duplicate = res.log.iter().take(fixed).zip(&my_prefix).any(|((c, n), want)| *n < 2 || c != want);
			if mine && !duplicate {
				stats.schedules += 1;
				ctx.eval();
				if let Err(e) = check_reads(&ev, stats, tear_known) {
					ctx.violation("sched", case_no - 1, &e, jobj! {"config" => format!("{} callbacks x {} reads, stop: {}", n_cb, n_reads, with_stop), "schedule" => res.steps.iter().map(|(t, s)| J::S(format!("{}:{}", t, s))).collect::<Vec<J>>(), "choices" => p.iter().map(|c| J::U(*c as u64)).collect::<Vec<J>>()});
				}
				ctx.distinct_str(&format!("{:?}", res.steps));
				if ctx.want_sample() && count == 7 {
					ctx.sample(jobj! {"monitor" => "handle reads under the controlled scheduler", "config" => format!("{} callbacks x {} reads", n_cb, n_reads), "schedule" => res.steps.iter().map(|(t, s)| J::S(format!("{}:{}", t, s))).collect::<Vec<J>>()});
				}
			}
			if duplicate {
				break;
			}
			prefix = crate::sched::next_prefix_within(&res.log, fixed);
			count += 1;
			// the enumeration is also bounded by the shard's time budget (a schedule costs ~0.1 ms natively but
			// tens of ms under Miri / TSan): what was not reached is reported as not enumerated, never as held
			if count % 8 == 0 && prefix.is_some() && !ctx.replaying() && !ctx.time_left(0.92) {
				ctx.note(&format!("schedule enumeration for {}x{}{} stopped by the time budget after {} schedules", n_cb, n_reads, if with_stop { "+stop" } else { "" }, count));
				capped = true;
				break;
			}
			if count >= cap {
				ctx.note(&format!("schedule enumeration for {}x{}{} capped at {} per shard", n_cb, n_reads, if with_stop { "+stop" } else { "" }, cap));
				capped = true;
				break;
			}
		}
		if !capped {
			stats.exhausted = true;
		}
		ctx.count(&format!("schedules_enumerated_{}cb_x_{}reads{}", n_cb, n_reads, if with_stop { "_stop" } else { "" }), count);
		ctx.count(&format!("enumeration_complete_{}cb_x_{}reads{}", n_cb, n_reads, if with_stop { "_stop" } else { "" }), (!capped) as u64);
	}
	// random schedules on a larger configuration
	let n = ctx.t(300u64, 30_000u64);
	for i in 0..n {
		if !ctx.owns("rsched", i) {
			continue;
		}
		if !ctx.replaying() && !ctx.time_left(0.95) {
			break;
		}
		let r = Rng::for_case(ctx.seed, 503, i);
		let (res, ev) = run_schedule(vec![], Some(r), 6, 6, i % 3 == 0, 3.0);
		stats.schedules += 1;
		ctx.eval();
		if let Err(e) = check_reads(&ev, stats, tear_known) {
			ctx.violation("rsched", i, &e, jobj! {"schedule" => res.steps.iter().map(|(t, s)| J::S(format!("{}:{}", t, s))).collect::<Vec<J>>()});
		}
		ctx.distinct_str(&format!("{:?}", res.steps));
	}
	crate::hooks::set_tap(None);
	crate::sched::set_site_filter(None);
}


/// Very large tick counts: a clock that has counted 2^53 .. 2^62 ticks (one buffer at an enormous speed) and then ticks slowly,
/// a fraction of a tick per buffer. A sound scheduled a few ticks ahead must still begin in the buffer during which the clock
/// reaches that tick (at most one buffer early): times are compared by whole ticks first, then by the fraction, not through a
/// floating-point sum in which the fraction (and odd tick counts) are lost.
fn huge_ticks_case(r: &mut Rng) -> Result<(), String> {
	let sr = 1000u32;
	let ibs = *r.pick(&[10usize, 5]);
	let buf_s = ibs as f64 / sr as f64;
	let mut rig = Rig::simple(sr, ibs);
	let exp = r.usize_in(53, 62) as i32;
	let mut clock = rig.mgr.add_clock(ClockSpeed::TicksPerSecond(2f64.powi(exp) / buf_s)).map_err(|_| "clock")?;
	clock.start();
	rig.callback(ibs);
	let per_buffer = *r.pick(&[0.25f64, 0.125, 0.5]);
	clock.set_speed(ClockSpeed::TicksPerSecond(per_buffer / buf_s), Tween { duration: Duration::ZERO, ..Default::default() });
	rig.callback(ibs);
	rig.sync();
	let t0 = clock.time();
	if t0.ticks < (1u64 << 52) {
		return Err(format!("after one buffer at 2^{} ticks per buffer the clock reads {} ticks", exp, t0.ticks));
	}
	let k = r.usize_in(1, 3) as u64;
	let target = (t0.ticks + k, 0.0f64);
	let _s = rig.mgr.play(crate::probes::dc_sound(sr, 64, 0.25).loop_region(..).start_time(StartTime::ClockTime(ClockTime::from_ticks_u64(clock.id(), target.0)))).map_err(|_| "play")?;
	let mut reached: Option<usize> = None;
	let mut audible: Option<usize> = None;
	let mut trace = vec![];
	for b in 0..60 {
		let out = rig.callback(ibs).to_vec();
		if audible.is_none() && out.iter().any(|x| *x != 0.0) {
			audible = Some(b);
		}
		rig.sync();
		let t = clock.time();
		trace.push((t.ticks - t0.ticks, t.fraction));
		if reached.is_none() && (t.ticks > target.0 || (t.ticks == target.0 && t.fraction >= target.1)) {
			reached = Some(b);
		}
		if reached.is_some() && audible.is_some() {
			break;
		}
	}
	match (reached, audible) {
		(Some(br), Some(ba)) if ba + 1 >= br && ba <= br => Ok(()),
		_ => Err(format!("clock at {} ticks (2^{} counted in one buffer), then {} ticks per buffer; a sound scheduled for tick +{}: the clock reaches that tick in buffer {:?}, the sound is first heard in buffer {:?} (clock after each buffer, ticks since scheduling / fraction: {:?})", t0.ticks, exp, per_buffer, k, reached, audible, &trace[..trace.len().min(14)])),
	}
}

pub fn run(ctx: &mut Ctx) {
	// monitor 1
	let n1 = ctx.t(20_000u64, 2_000_000u64);
	let mut frames = 0u64;
	for i in 0..n1 {
		if !ctx.owns("time", i) {
			continue;
		}
		if !ctx.replaying() && !ctx.time_left(0.4) {
			ctx.note("time budget reached in monitor 1");
			break;
		}
		let mut r = Rng::for_case(ctx.seed, 501, i);
		ctx.eval();
		crate::monitors::set_current(ctx, "time", i, "clock exact-time case", false);
		let res = super::guarded(|| exact_time_case(ctx, i, &mut r));
		crate::monitors::clear_current();
		match res {
			Ok(Ok((f, own))) => {
				frames += f;
				ctx.distinct_key(0xC05_0001_0000_0000 | (i % 4096) | ((own as u64) << 20));
			}
			Ok(Err(e)) => ctx.violation("time", i, &e, J::Null),
			Err(p) => ctx.violation("time", i, &format!("panic: {}", p.first().map(|p| p.sig()).unwrap_or_default()), J::Null),
		}
	}
	ctx.count("monitor1_frames_rendered", frames);
	// monitor 1b: a clock whose speed follows a moving modulator advances by chunk duration x the speed mapped from the
	// modulator's value of the same chunk (the oracle is shared with C17)
	let n1b = ctx.t(3_000u64, 300_000u64);
	let mut linked = 0u64;
	for i in 0..n1b {
		if !ctx.owns("modspeed", i) {
			continue;
		}
		if !ctx.replaying() && !ctx.time_left(0.45) {
			break;
		}
		let mut r = Rng::for_case(ctx.seed, 505, i);
		ctx.eval();
		crate::monitors::set_current(ctx, "modspeed", i, "clock speed linked to a modulator", false);
		let res = super::guarded(|| crate::props::c17::clock_link_case(&mut r));
		crate::monitors::clear_current();
		match res {
			Ok(Ok(k)) => {
				linked += k;
				ctx.distinct_key(0xC05_0005_0000_0000 | (i % 64));
			}
			Ok(Err(e)) => ctx.violation("modspeed", i, &e, J::Null),
			Err(p) => ctx.violation("modspeed", i, &format!("panic: {}", p.first().map(|p| p.sig()).unwrap_or_default()), J::Null),
		}
	}
	ctx.count("modulator_linked_speed_chunks_checked", linked);
	// monitor 2
	let n2 = ctx.t(20_000u64, 2_000_000u64);
	let mut frames2 = 0u64;
	for i in 0..n2 {
		if !ctx.owns("event", i) {
			continue;
		}
		if !ctx.replaying() && !ctx.time_left(0.7) {
			ctx.note("time budget reached in monitor 2");
			break;
		}
		let mut r = Rng::for_case(ctx.seed, 502, i);
		ctx.eval();
		crate::monitors::set_current(ctx, "event", i, "clock scheduling case", false);
		let res = super::guarded(|| scheduling_case(ctx, i, &mut r));
		crate::monitors::clear_current();
		match res {
			Ok(Ok(f)) => {
				frames2 += f;
				ctx.distinct_key(0xC05_0002_0000_0000 | (i % 4096));
			}
			Ok(Err(e)) => ctx.violation("event", i, &e, J::Null),
			Err(p) => ctx.violation("event", i, &format!("panic: {}", p.first().map(|p| p.sig()).unwrap_or_default()), J::Null),
		}
	}
	ctx.count("monitor2_frames_rendered", frames2);
	// monitor 2b: scheduling at very large tick counts
	let n2b = ctx.t(160u64, 16_000u64);
	let mut huge = 0u64;
	for i in 0..n2b {
		if !ctx.owns("huge", i) {
			continue;
		}
		if !ctx.replaying() && !ctx.time_left(0.74) {
			break;
		}
		let mut r = Rng::for_case(ctx.seed, 506, i);
		ctx.eval();
		crate::monitors::set_current(ctx, "huge", i, "scheduling at a very large tick count", false);
		let res = super::guarded(|| huge_ticks_case(&mut r));
		crate::monitors::clear_current();
		match res {
			Ok(Ok(())) => {
				huge += 1;
				ctx.distinct_key(0xC05_0006_0000_0000 | (i % 16));
			}
			Ok(Err(e)) => ctx.violation("huge", i, &e, J::Null),
			Err(p) => ctx.violation("huge", i, &format!("panic: {}", p.first().map(|p| p.sig()).unwrap_or_default()), J::Null),
		}
	}
	ctx.count("huge_tick_count_scheduling_cases", huge);
	// monitor 2c: a tweener modulator's transition scheduled for a clock time begins when the clock - a running one - reaches
	// it, not before, and not at all while the clock is idle (oracle shared with C17: a transition called off before it is due
	// must never show)
	let n2c = ctx.t(400u64, 40_000u64);
	let mut twc = 0u64;
	for i in 0..n2c {
		if !ctx.owns("twclock", i) {
			continue;
		}
		if !ctx.replaying() && !ctx.time_left(0.78) {
			break;
		}
		let mut r = Rng::for_case(ctx.seed, 507, i);
		ctx.eval();
		crate::monitors::set_current(ctx, "twclock", i, "tweener transition on a clock", false);
		let res = super::guarded(|| crate::props::c17::tweener_cancel_case(&mut r));
		crate::monitors::clear_current();
		match res {
			Ok(Ok(k)) => {
				twc += k;
				ctx.distinct_key(0xC05_0007_0000_0000 | (i % 16));
			}
			Ok(Err(e)) => ctx.violation("twclock", i, &e, J::Null),
			Err(p) => ctx.violation("twclock", i, &format!("panic: {}", p.first().map(|p| p.sig()).unwrap_or_default()), J::Null),
		}
	}
	ctx.count("tweener_clock_transition_chunks_checked", twc);
	// monitor 3
	let mut rs = ReadStats::default();
	if ctx.only_case.as_ref().map(|(s, _)| s == "sched" || s == "rsched").unwrap_or(true) {
		reads_under_scheduler(ctx, &mut rs);
	}
	ctx.count("monitor3_schedules_executed", rs.schedules);
	ctx.count("monitor3_reads_checked", rs.reads);
	ctx.count("monitor3_reads_overlapping_a_publication", rs.reads_overlapping_a_publication);
	ctx.count("monitor3_torn_reads_adjacent_publications_known_finding", rs.torn_adjacent);
	ctx.count("monitor3_torn_reads_with_stop_known_finding", rs.torn_stop);
	if ctx.sample_count() < 6 {
		ctx.sample(jobj! {"monitor" => "exact time", "note" => "random speed/start/pause/stop/set_speed histories; clock read after every callback compared with the reference interval"});
	}
}

pub fn confirm(key: &str) -> Option<Option<String>> {
	match key {
		"C05.torn_clock_handle_read" => {
			// deterministic schedule search: first schedule in DFS order that tears
			crate::hooks::set_tap(Some(sched_hook_tap));
			crate::sched::set_site_filter(Some(|s: &str| s.starts_with("clock.") || s.starts_with("audio.") || s.starts_with("reader.")));
			let mut prefix: Option<Vec<usize>> = Some(vec![]);
			let mut n = 0;
			let mut found = None;
			while let Some(p) = prefix {
				let (res, ev) = run_schedule(p, None, 2, 2, false, 3.0);
				let mut st = ReadStats::default();
				if let Err(e) = check_reads(&ev, &mut st, false) {
					if e.contains("torn read") {
						found = Some(format!("{} [schedule: {}]", e, res.steps.iter().map(|(t, s)| format!("{}:{}", t, s)).collect::<Vec<_>>().join(" ")));
						break;
					}
				}
				prefix = crate::sched::next_prefix(&res.log);
				n += 1;
				if n > 20000 {
					break;
				}
			}
			crate::hooks::set_tap(None);
			Some(found)
		}
		"C05.speed_tween_scheduled_on_own_clock_never_starts" => {
			let mut rig = Rig::simple(1000, 10);
			let mut clock = rig.mgr.add_clock(ClockSpeed::TicksPerSecond(100.0)).ok()?;
			clock.start();
			clock.set_speed(ClockSpeed::TicksPerSecond(1000.0), Tween { start_time: StartTime::ClockTime(ClockTime::from_ticks_u64(clock.id(), 2)), duration: Duration::ZERO, easing: Easing::Linear });
			for _ in 0..20 {
				rig.callback(10);
			}
			rig.sync();
			let t = clock.time();
			let v = t.ticks as f64 + t.fraction;
			// 0.2 s: 2 ticks at 100/s take 0.02 s, the remaining 0.18 s at 1000/s = 180 more ticks
			Some(if v < 100.0 { Some(format!("a speed change scheduled for the clock's own time 2 never took effect: after 0.2 s the clock reads {} ticks (expected ~182); a clock updating itself sees a placeholder clock that is not ticking", v)) } else { None })
		}
		_ => None,
	}
}
