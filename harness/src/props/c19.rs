//! C19 — unit conversions and clock-time arithmetic.

use kira::clock::{ClockId, ClockSpeed, ClockTime};
use kira::info::MockInfoBuilder;
use kira::{Decibels, Easing, Frame, Mapping, Panning, PlaybackRate, Semitones};

use crate::jobj;
use crate::util::{Ctx, Rng, J};

/// k-th f32 in numeric order (negative NaNs first, then -inf .. -0, +0 .. +inf, NaNs)
fn ordered_f32(k: u64) -> f32 {
	let bits: u32 = if k < (1u64 << 31) {
		(0xFFFF_FFFFu64 - k) as u32
	} else {
		(k - (1u64 << 31)) as u32
	};
	f32::from_bits(bits)
}

fn ulps_f64(a: f64, b: f64) -> f64 {
	if a == b {
		return 0.0;
	}
	let m = a.abs().max(b.abs()).max(f64::MIN_POSITIVE);
	(a - b).abs() / (m * f64::EPSILON)
}

pub fn run(ctx: &mut Ctx) {
	decibels_sweep(ctx);
	panning_sweep(ctx);
	semitones(ctx);
	clock_speed(ctx);
	clock_time(ctx);
	easings(ctx);
	mapping_clamp(ctx);
}

fn db_check(ctx: &mut Ctx, x: f32, prev: &mut Option<(f32, f32)>, k: u64) -> bool {
	let y = Decibels(x).as_amplitude();
	ctx.evaluations += 1;
	if x.is_nan() {
		ctx.count("db_nan_inputs", 1);
		return true;
	}
	let mut ok = true;
	let mut why = String::new();
	if y.is_nan() {
		ok = false;
		why = "NaN output for non-NaN input".into();
	} else if x == 0.0 {
		if y != 1.0 {
			ok = false;
			why = "0 dB must map to exactly 1".into();
		}
	} else if x <= -60.0 {
		if y != 0.0 {
			ok = false;
			why = "<= -60 dB must map to exactly 0".into();
		}
	} else {
		let r = 10f64.powf(x as f64 / 20.0);
		let rf = r as f32;
		if rf.is_infinite() || y.is_infinite() {
			// overflow region: both must be at the top of the range
			if !(y >= f32::MAX * 0.999 && r >= f32::MAX as f64 * 0.999) {
				ok = false;
				why = format!("overflow mismatch ref={:e}", r);
			}
		} else {
			let rel = ((y as f64) - r).abs() / r;
			ctx.maxf("db_max_rel_err", rel);
			// f32 arithmetic: the quotient dB/20 carries half an ulp of relative error, which the
			// exponential amplifies by |dB/20|*ln(10); plus the rounding of powf itself
			let tol = (f32::EPSILON as f64) * (2.0 + (x as f64 / 20.0).abs() * std::f64::consts::LN_10);
			ctx.maxf("db_max_err_over_tol", rel / tol);
			if rel > tol {
				ok = false;
				why = format!("relative error {:e} vs 10^(dB/20)={:e}", rel, r);
			}
		}
	}
	if let Some((px, py)) = *prev {
		if ok && y < py {
			ok = false;
			why = format!("not monotone: f({:e})={:e} > f({:e})={:e}", px, py, x, y);
		}
	}
	*prev = Some((x, y));
	if !ok {
		ctx.violation(
			"db",
			k,
			&format!("Decibels({:e}).as_amplitude() = {:e}: {}", x, y, why),
			jobj! {"bits" => x.to_bits(), "dB" => x, "amplitude" => y},
		);
	}
	ok
}

fn decibels_sweep(ctx: &mut Ctx) {
	let total: u64 = 1u64 << 32;
	if let Some((s, c)) = ctx.only_case.clone() {
		if s == "db" {
			let mut prev = None;
			if c > 0 {
				let x0 = ordered_f32(c - 1);
				if !x0.is_nan() {
					prev = Some((x0, Decibels(x0).as_amplitude()));
				}
			}
			db_check(ctx, ordered_f32(c), &mut prev, c);
		}
		return;
	}
	let mut classes = std::collections::HashSet::new();
	let class_of = |x: f32| -> u32 {
		// (sign, exponent) class: distinct and non-trivial = a new binade of a non-NaN input
		x.to_bits() >> 23
	};
	if !ctx.quick() {
		// exhaustive: contiguous range per shard, numeric order
		let lo = total * ctx.shard / ctx.nshards;
		let hi = total * (ctx.shard + 1) / ctx.nshards;
		let mut prev = None;
		if lo > 0 {
			let x0 = ordered_f32(lo - 1);
			if !x0.is_nan() {
				prev = Some((x0, Decibels(x0).as_amplitude()));
			}
		}
		let mut fails = 0;
		for k in lo..hi {
			let x = ordered_f32(k);
			if !db_check(ctx, x, &mut prev, k) {
				fails += 1;
				if fails > 3 {
					break;
				}
			}
			if !x.is_nan() {
				classes.insert(class_of(x));
			}
		}
		ctx.count("db_exhaustive_patterns", hi - lo);
	} else {
		// every 4099th pattern (numeric order) + dense neighbourhoods of the boundaries
		let stride = 61u64;
		let mut prev = None;
		let mut k = ctx.shard * stride;
		let mut fails = 0;
		// a strided walk is still in numeric order, so monotonicity is checked across samples
		let start_k = total * ctx.shard / ctx.nshards;
		let end_k = total * (ctx.shard + 1) / ctx.nshards;
		k = start_k;
		while k < end_k {
			let x = ordered_f32(k);
			if !db_check(ctx, x, &mut prev, k) {
				fails += 1;
				if fails > 3 {
					break;
				}
			}
			if !x.is_nan() {
				classes.insert(class_of(x));
			}
			k += stride;
		}
		if ctx.shard == 0 {
			for centre in [-60.0f32, 0.0, -0.0, 20.0, -59.999, 770.0, f32::MIN_POSITIVE, -f32::MIN_POSITIVE, 6.0, -6.0] {
				let cb = centre.to_bits();
				let ck: u64 = if cb & 0x8000_0000 != 0 {
					0xFFFF_FFFFu64 - cb as u64
				} else {
					cb as u64 + (1u64 << 31)
				};
				let mut prev = None;
				for k in ck.saturating_sub(2048)..(ck + 2048).min(total) {
					db_check(ctx, ordered_f32(k), &mut prev, k);
				}
			}
		}
	}
	for c in classes {
		ctx.distinct_key(0xDB00_0000_0000 | c as u64);
	}
	ctx.sample(jobj! {"fn" => "Decibels::as_amplitude", "input_dB" => -6.0, "output" => Decibels(-6.0).as_amplitude()});
}

fn pan_check(ctx: &mut Ctx, p: f32, k: u64) -> bool {
	ctx.evaluations += 1;
	if p.is_nan() {
		ctx.count("pan_nan_inputs", 1);
		return true;
	}
	let mut ok = true;
	let mut why = String::new();
	for x in [1.0f32, -0.25] {
		let f = Frame::from_mono(x).panned(Panning(p));
		if p == 0.0 {
			if f.left != x || f.right != x {
				ok = false;
				why = "centre panning must leave the frame unchanged".into();
			}
		} else {
			let pw = (f.left as f64).powi(2) + (f.right as f64).powi(2);
			let want = 2.0 * (x as f64).powi(2);
			let rel = (pw - want).abs() / want;
			ctx.maxf("pan_max_power_rel_err", rel);
			if !(rel <= 1e-6) {
				ok = false;
				why = format!("power {:e} != {:e} (rel {:e})", pw, want, rel);
			}
			// the favoured side
			if ok && ((p > 0.0 && f.right.abs() < f.left.abs()) || (p < 0.0 && f.left.abs() < f.right.abs())) {
				ok = false;
				why = "panning favours the wrong side".into();
			}
		}
		if !ok {
			ctx.violation(
				"pan",
				k,
				&format!("Frame::from_mono({}).panned(Panning({:e})) = ({:e},{:e}): {}", x, p, f.left, f.right, why),
				jobj! {"bits" => p.to_bits(), "panning" => p},
			);
			return false;
		}
	}
	true
}

fn panning_sweep(ctx: &mut Ctx) {
	let total: u64 = 1u64 << 32;
	if let Some((s, c)) = ctx.only_case.clone() {
		if s == "pan" {
			pan_check(ctx, ordered_f32(c), c);
		}
		return;
	}
	let lo = total * ctx.shard / ctx.nshards;
	let hi = total * (ctx.shard + 1) / ctx.nshards;
	let stride = if ctx.quick() { 61 } else { 1 };
	let mut classes = std::collections::HashSet::new();
	let mut k = lo;
	let mut fails = 0;
	while k < hi {
		let p = ordered_f32(k);
		if !pan_check(ctx, p, k) {
			fails += 1;
			if fails > 3 {
				break;
			}
		}
		if !p.is_nan() {
			classes.insert(p.to_bits() >> 23);
		}
		k += stride;
	}
	if !ctx.quick() {
		ctx.count("pan_exhaustive_patterns", hi - lo);
	} else if ctx.shard == 0 {
		for centre in [-1.0f32, 1.0, 0.0, -0.0, 0.5, -0.5] {
			let cb = centre.to_bits();
			let ck: u64 = if cb & 0x8000_0000 != 0 {
				0xFFFF_FFFFu64 - cb as u64
			} else {
				cb as u64 + (1u64 << 31)
			};
			for k in ck.saturating_sub(2048)..(ck + 2048).min(total) {
				pan_check(ctx, ordered_f32(k), k);
			}
		}
	}
	for c in classes {
		ctx.distinct_key(0xFA00_0000_0000 | c as u64);
	}
	let f = Frame::from_mono(1.0).panned(Panning(0.5));
	ctx.sample(jobj! {"fn" => "Frame::panned", "panning" => 0.5, "left" => f.left, "right" => f.right});
}

fn semitones(ctx: &mut Ctx) {
	let n = ctx.t(400_000u64, 8_000_000u64);
	for i in 0..n {
		if !ctx.owns("semi", i) {
			continue;
		}
		let mut r = Rng::for_case(ctx.seed, 1901, i);
		let s = match i % 4 {
			0 => (r.below(241) as f64) - 120.0,
			1 => r.f64_in(-120.0, 120.0),
			2 => r.f64_in(-1.0, 1.0) * 1e-6,
			_ => r.f64_in(-1200.0, 1200.0),
		};
		ctx.eval();
		let a = PlaybackRate::from(Semitones(s)).0;
		let b = PlaybackRate::from(Semitones(s + 12.0)).0;
		let want = 2f64.powf(s / 12.0);
		let mut bad = None;
		if ulps_f64(a, want) > 4.0 {
			bad = Some(format!("rate {:e} != 2^(s/12) = {:e}", a, want));
		}
		// twelve semitones double the rate
		let tol = 8.0 + (s.abs() / 12.0) * 4.0;
		if bad.is_none() && a.is_finite() && a > 0.0 && b.is_finite() && ulps_f64(b, 2.0 * a) > tol {
			bad = Some(format!("rate(s+12)={:e} != 2*rate(s)={:e} ({} ulp)", b, 2.0 * a, ulps_f64(b, 2.0 * a)));
		}
		if s == 12.0 && a != 2.0 {
			bad = Some("12 semitones must be exactly 2".into());
		}
		if s == 0.0 && a != 1.0 {
			bad = Some("0 semitones must be exactly 1".into());
		}
		if let Some(w) = bad {
			ctx.violation("semi", i, &format!("Semitones({:e}): {}", s, w), jobj! {"semitones" => s});
		}
		ctx.distinct_key(0x5E00_0000_0000 | ((s * 4.0).floor() as i64 as u64 & 0xFFFF_FFFF));
	}
	ctx.eval();
	if PlaybackRate::from(Semitones(12.0)).0 != 2.0 || PlaybackRate::from(Semitones(-12.0)).0 != 0.5 {
		ctx.violation("semi", u64::MAX, "±12 semitones must be exactly x2 / x0.5", J::Null);
	}
	ctx.sample(jobj! {"fn" => "PlaybackRate::from(Semitones)", "semitones" => 7.0, "rate" => PlaybackRate::from(Semitones(7.0)).0});
}

fn clock_speed(ctx: &mut Ctx) {
	let n = ctx.t(400_000u64, 8_000_000u64);
	for i in 0..n {
		if !ctx.owns("speed", i) {
			continue;
		}
		let mut r = Rng::for_case(ctx.seed, 1902, i);
		let tps = match i % 3 {
			0 => r.log_in(1e-6, 1e6),
			1 => *r.pick(&[1.0, 2.0, 0.5, 60.0, 120.0, 1.0 / 3.0, 1000.0, 44100.0]),
			_ => r.f64_in(0.01, 100.0),
		};
		ctx.eval();
		let forms = [
			ClockSpeed::TicksPerSecond(tps),
			ClockSpeed::TicksPerMinute(tps * 60.0),
			ClockSpeed::SecondsPerTick(1.0 / tps),
		];
		let mut bad = None;
		for f in forms {
			let a = f.as_ticks_per_second();
			let b = f.as_ticks_per_minute();
			let c = f.as_seconds_per_tick();
			if ulps_f64(a, tps) > 4.0 {
				bad = Some(format!("{:?}.as_ticks_per_second()={:e} want {:e}", f, a, tps));
			}
			if ulps_f64(b, tps * 60.0) > 4.0 {
				bad = Some(format!("{:?}.as_ticks_per_minute()={:e} want {:e}", f, b, tps * 60.0));
			}
			if ulps_f64(c, 1.0 / tps) > 4.0 {
				bad = Some(format!("{:?}.as_seconds_per_tick()={:e} want {:e}", f, c, 1.0 / tps));
			}
			// mutual consistency
			if ulps_f64(a * 60.0, b) > 4.0 || ulps_f64(a * c, 1.0) > 4.0 {
				bad = Some(format!("{:?}: units inconsistent tps={:e} tpm={:e} spt={:e}", f, a, b, c));
			}
		}
		if let Some(w) = bad {
			ctx.violation("speed", i, &w, jobj! {"ticks_per_second" => tps});
		}
		ctx.distinct_key(0xC500_0000_0000 | (tps.to_bits() >> 44));
	}
	ctx.sample(jobj! {"fn" => "ClockSpeed conversions", "input" => "TicksPerMinute(90)", "ticks_per_second" => ClockSpeed::TicksPerMinute(90.0).as_ticks_per_second(), "seconds_per_tick" => ClockSpeed::TicksPerMinute(90.0).as_seconds_per_tick()});
}

fn gen_fraction(r: &mut Rng) -> f64 {
	match r.below(8) {
		0 => 0.0,
		1 => f64::from_bits(1.0f64.to_bits() - 1), // largest < 1
		2 => f64::from_bits(1.0f64.to_bits() - 1 - r.below(4)),
		3 => f64::MIN_POSITIVE * (1 + r.below(4)) as f64,
		4 => f64::EPSILON * r.below(4) as f64,
		5 => 0.5,
		_ => r.f64(),
	}
}

fn gen_ticks(r: &mut Rng) -> u64 {
	match r.below(6) {
		0 => 0,
		1 => r.below(4),
		2 => (1u64 << 53) - r.below(3),
		3 => r.below(1u64 << 53),
		_ => r.below(100_000),
	}
}

fn gen_amount(r: &mut Rng) -> f64 {
	match r.below(8) {
		0 => 0.0,
		1 => r.below(5) as f64,
		2 => r.f64(),
		3 => r.f64() * 1e-12,
		4 => r.below(1000) as f64 + gen_fraction(r),
		5 => r.log_in(1e-9, 1e9),
		6 => (r.below(1u64 << 40)) as f64 + r.f64(),
		_ => r.f64_in(0.0, 100.0),
	}
}

/// value difference (b - a) in ticks, computed without losing the integer part
fn ct_diff(a: &ClockTime, b: &ClockTime) -> f64 {
	(b.ticks as i128 - a.ticks as i128) as f64 + (b.fraction - a.fraction)
}

fn clock_time(ctx: &mut Ctx) {
	let clock: ClockId = MockInfoBuilder::new().add_clock(true, 0, 0.0);
	let clock2: ClockId = {
		let mut b = MockInfoBuilder::new();
		let _ = b.add_clock(true, 0, 0.0);
		b.add_clock(true, 0, 0.0)
	};
	let n = ctx.t(2_000_000u64, 40_000_000u64);
	let sub_u64_known = ctx.known("C19.clocktime_sub_u64_wraps");
	for i in 0..n {
		if !ctx.owns("ct", i) {
			continue;
		}
		let mut r = Rng::for_case(ctx.seed, 1903, i);
		let t = ClockTime {
			clock,
			ticks: gen_ticks(&mut r),
			fraction: gen_fraction(&mut r),
		};
		let x = gen_amount(&mut r);
		let op = r.below(6);
		ctx.eval();
		let tv = |c: &ClockTime| c.ticks as f64 + c.fraction;
		let mag = tv(&t).max(x).max(1.0);
		let tol = 4.0 * f64::EPSILON * mag;
		let mut bad: Option<String> = None;
		let res = super::guarded(|| -> Option<String> {
			match op {
				0 => {
					// add f64
					let s = t + x;
					if !(s.fraction >= 0.0 && s.fraction < 1.0) {
						return Some(format!("({:?}) + {:e}: fraction {:e} outside [0,1)", (t.ticks, t.fraction), x, s.fraction));
					}
					let d = ct_diff(&t, &s);
					if (d - x).abs() > tol {
						return Some(format!("({},{:e}) + {:e} advanced by {:e}", t.ticks, t.fraction, x, d));
					}
					// add then subtract returns the original to rounding
					let back = s - x;
					if !(back.fraction >= 0.0 && back.fraction < 1.0) {
						return Some(format!("({},{:e}) + {:e} - same: fraction {:e} outside [0,1)", t.ticks, t.fraction, x, back.fraction));
					}
					let d2 = ct_diff(&t, &back);
					if d2.abs() > tol {
						return Some(format!("({},{:e}) + {:e} - {:e} = ({},{:e}) off by {:e} ticks", t.ticks, t.fraction, x, x, back.ticks, back.fraction, d2));
					}
					let mut s2 = t;
					s2 += x;
					if s2 != s {
						return Some("AddAssign<f64> differs from Add<f64>".into());
					}
				}
				1 => {
					// sub f64: never below zero, fraction in range, value correct when representable
					let s = t - x;
					if !(s.fraction >= 0.0 && s.fraction < 1.0) {
						return Some(format!("({},{:e}) - {:e}: fraction {:e} outside [0,1)", t.ticks, t.fraction, x, s.fraction));
					}
					if s.ticks > t.ticks {
						return Some(format!("({},{:e}) - {:e} wrapped: ticks {}", t.ticks, t.fraction, x, s.ticks));
					}
					if tv(&t) >= x + tol {
						let d = ct_diff(&s, &t);
						if (d - x).abs() > tol {
							return Some(format!("({},{:e}) - {:e} = ({},{:e}) moved back by {:e}", t.ticks, t.fraction, x, s.ticks, s.fraction, d));
						}
					} else if tv(&t) + tol < x {
						// saturates: result must not exceed the original and must be < 1 tick
						if s.ticks != 0 {
							return Some(format!("({},{:e}) - {:e} should saturate at 0 ticks, got {}", t.ticks, t.fraction, x, s.ticks));
						}
					}
					let mut s2 = t;
					s2 -= x;
					if s2 != s {
						return Some("SubAssign<f64> differs from Sub<f64>".into());
					}
				}
				2 => {
					// add u64 / then sub u64
					let k = r.below(1000);
					let s = t + k;
					if s.ticks != t.ticks + k || s.fraction != t.fraction {
						return Some("Add<u64> wrong".into());
					}
					let b = s - k;
					if b != t {
						return Some("Add<u64> then Sub<u64> does not return the original".into());
					}
					// the compound operators agree with the binary ones
					let mut s2 = t;
					s2 += k;
					if s2 != s {
						return Some("AddAssign<u64> differs from Add<u64>".into());
					}
					let mut b2 = s;
					b2 -= k;
					if b2 != b {
						return Some("SubAssign<u64> differs from Sub<u64>".into());
					}
				}
				3 => {
					// sub u64 larger than ticks must not wrap below zero
					let k = t.ticks.saturating_add(1 + r.below(5));
					if t.ticks < 1000 {
						if sub_u64_known {
							return None;
						}
						let s = t - k;
						if s.ticks > t.ticks {
							return Some(format!("ClockTime{{ticks:{}}} - {}u64 wrapped to ticks {}", t.ticks, k, s.ticks));
						}
						let mut s2 = t;
						s2 -= k;
						if s2 != s {
							return Some(format!("ClockTime{{ticks:{}}} -= {}u64 gives ticks {} but - gives {} (compound subtraction must saturate like the binary one)", t.ticks, k, s2.ticks, s.ticks));
						}
					}
				}
				4 => {
					// ordering agrees with ticks + fraction
					let u = ClockTime {
						clock,
						ticks: if r.chance(0.5) { t.ticks } else { gen_ticks(&mut r) },
						fraction: if r.chance(0.3) { t.fraction } else { gen_fraction(&mut r) },
					};
					let want = (t.ticks, t.fraction).partial_cmp(&(u.ticks, u.fraction));
					let got = t.partial_cmp(&u);
					if got != want {
						return Some(format!("partial_cmp(({},{:e}),({},{:e})) = {:?}, want {:?}", t.ticks, t.fraction, u.ticks, u.fraction, got, want));
					}
					let other = ClockTime { clock: clock2, ..u };
					if t.partial_cmp(&other).is_some() {
						return Some("times of different clocks must not be comparable".into());
					}
				}
				_ => {
					// from_ticks_f64
					let v = tv(&t).min(9.0e15);
					let c = ClockTime::from_ticks_f64(clock, v);
					if !(c.fraction >= 0.0 && c.fraction < 1.0) || ((c.ticks as f64 + c.fraction) - v).abs() > f64::EPSILON * v.max(1.0) {
						return Some(format!("from_ticks_f64({:e}) = ({},{:e})", v, c.ticks, c.fraction));
					}
					let c2 = ClockTime::from_ticks_u64(clock, t.ticks);
					if c2.ticks != t.ticks || c2.fraction != 0.0 {
						return Some("from_ticks_u64 wrong".into());
					}
				}
			}
			None
		});
		match res {
			Ok(b) => bad = b,
			Err(p) => {
				let s = p.first().map(|p| p.sig()).unwrap_or_default();
				if op == 3 && sub_u64_known {
					// excluded class, cannot happen
				} else {
					bad = Some(format!("panic in ClockTime op {} on ({},{:e}) amount {:e}: {}", op, t.ticks, t.fraction, x, s));
				}
			}
		}
		if op == 3 && sub_u64_known {
			ctx.exclude("C19.clocktime_sub_u64_wraps");
		}
		if let Some(w) = bad {
			ctx.violation("ct", i, &w, jobj! {"ticks" => t.ticks, "fraction" => t.fraction, "amount" => x, "op" => op});
		}
		ctx.distinct_key(0xC700_0000_0000 | (op << 32) | ((t.ticks.min(7)) << 16) | ((x.to_bits() >> 52) & 0xFFF) << 3 | ((t.fraction * 7.99) as u64));
	}
	let t = ClockTime { clock, ticks: 3, fraction: 0.25 };
	let s = t + 1.5;
	ctx.sample(jobj! {"fn" => "ClockTime + f64", "t" => "(3, 0.25)", "amount" => 1.5, "result_ticks" => s.ticks, "result_fraction" => s.fraction});
}

fn easing_list(r: &mut Rng) -> Easing {
	match r.below(7) {
		0 => Easing::Linear,
		1 => Easing::InPowi(1 + r.below(8) as i32),
		2 => Easing::OutPowi(1 + r.below(8) as i32),
		3 => Easing::InOutPowi(1 + r.below(8) as i32),
		4 => Easing::InPowf(r.log_in(0.1, 8.0)),
		5 => Easing::OutPowf(r.log_in(0.1, 8.0)),
		_ => Easing::InOutPowf(r.log_in(0.1, 8.0)),
	}
}

pub fn ease(e: Easing, x: f64) -> f64 {
	Mapping {
		input_range: (0.0, 1.0),
		output_range: (0.0f64, 1.0f64),
		easing: e,
	}
	.map(x)
}

fn easings(ctx: &mut Ctx) {
	let n = ctx.t(480u64, 8000u64);
	let grid = ctx.t(20_000usize, 1_000_000usize);
	for i in 0..n {
		if !ctx.owns("ease", i) {
			continue;
		}
		let mut r = Rng::for_case(ctx.seed, 1904, i);
		let e = if i < 50 {
			// deterministic coverage of every kind x integer power
			let p = 1 + (i % 8) as i32;
			match i / 8 {
				0 => Easing::InPowi(p),
				1 => Easing::OutPowi(p),
				2 => Easing::InOutPowi(p),
				3 => Easing::InPowf(p as f64),
				4 => Easing::OutPowf(p as f64 / 2.0),
				5 => Easing::InOutPowf(p as f64 / 3.0),
				_ => Easing::Linear,
			}
		} else {
			easing_list(&mut r)
		};
		ctx.evals(grid as u64);
		let mut bad = None;
		if ease(e, 0.0) != 0.0 {
			bad = Some(format!("{:?}: f(0) = {:e}", e, ease(e, 0.0)));
		}
		if ease(e, 1.0) != 1.0 {
			bad = Some(format!("{:?}: f(1) = {:e}", e, ease(e, 1.0)));
		}
		let mut prev = 0.0f64;
		let mut max_dip = 0.0f64;
		for k in 0..=grid {
			let x = k as f64 / grid as f64;
			let y = ease(e, x);
			if !(y >= 0.0 - 1e-15 && y <= 1.0 + 1e-15) {
				bad = Some(format!("{:?}: f({:e}) = {:e} outside [0,1]", e, x, y));
				break;
			}
			if y < prev {
				max_dip = max_dip.max(prev - y);
				// rounding-level dips (a few ulp at 1.0) are not a loss of monotonicity
				if prev - y > 8.0 * f64::EPSILON {
					bad = Some(format!("{:?}: not monotone at x={:e}: {:e} after {:e}", e, x, y, prev));
					break;
				}
			}
			prev = y;
		}
		// random pairs
		for _ in 0..1000 {
			let a = r.f64();
			let b = a + r.f64() * (1.0 - a) * if r.chance(0.5) { 1e-9 } else { 1.0 };
			let (ya, yb) = (ease(e, a), ease(e, b.min(1.0)));
			if yb < ya - 8.0 * f64::EPSILON {
				bad = Some(format!("{:?}: f({:e})={:e} > f({:e})={:e}", e, a, ya, b, yb));
			}
		}
		ctx.maxf("easing_max_rounding_dip", max_dip);
		if let Some(w) = bad {
			ctx.violation("ease", i, &w, jobj! {"easing" => format!("{:?}", e)});
		}
		ctx.distinct_str(&format!("ease{:?}", e));
		if i == 3 {
			ctx.sample(jobj! {"fn" => "Easing via Mapping::map", "easing" => format!("{:?}", e), "f(0.25)" => ease(e, 0.25), "grid_points" => grid});
		}
	}
}

fn mapping_clamp(ctx: &mut Ctx) {
	let n = ctx.t(400_000u64, 8_000_000u64);
	for i in 0..n {
		if !ctx.owns("map", i) {
			continue;
		}
		let mut r = Rng::for_case(ctx.seed, 1905, i);
		let lo = r.f64_in(-100.0, 100.0);
		let mut hi = r.f64_in(-100.0, 100.0);
		if hi == lo {
			hi = lo + 1.0;
		}
		let (o0, o1) = (r.f64_in(-50.0, 50.0), r.f64_in(-50.0, 50.0));
		let e = easing_list(&mut r);
		// the law does not depend on the unit the input is measured in: one case in three has its input range (and the probe
		// distances) scaled by a power of ten between 1e-30 and 1e30 (a modulator may well produce values of that size)
		let scale = if i % 3 == 2 { 10f64.powi(r.below(61) as i32 - 30) } else { 1.0 };
		if scale != 1.0 {
			ctx.count("mapping_cases_with_scaled_input_range", 1);
		}
		let (lo, hi) = (lo * scale, hi * scale);
		let m = Mapping {
			input_range: (lo, hi),
			output_range: (o0, o1),
			easing: e,
		};
		ctx.eval();
		let d = r.log_in(1e-12, 1e6) * scale;
		let dir = if hi > lo { 1.0 } else { -1.0 };
		let at_lo = m.map(lo);
		let at_hi = m.map(hi);
		let below = m.map(lo - dir * d);
		let above = m.map(hi + dir * d);
		let mut bad = None;
		if at_lo.to_bits() != o0.to_bits() && at_lo != o0 {
			bad = Some(format!("map(input_range.0) = {:e}, want output_range.0 = {:e}", at_lo, o0));
		}
		if (at_hi - o1).abs() > 4.0 * f64::EPSILON * o0.abs().max(o1.abs()).max(1.0) {
			bad = Some(format!("map(input_range.1) = {:e}, want output_range.1 = {:e}", at_hi, o1));
		}
		if below != at_lo {
			bad = Some(format!("input below the range not clamped: map({:e}) = {:e} != {:e}", lo - dir * d, below, at_lo));
		}
		if above != at_hi {
			bad = Some(format!("input above the range not clamped: map({:e}) = {:e} != {:e}", hi + dir * d, above, at_hi));
		}
		// f32 / Decibels outputs too
		let md = Mapping {
			input_range: (lo, hi),
			output_range: (Decibels(o0 as f32), Decibels(o1 as f32)),
			easing: e,
		};
		if md.map(lo - dir * d) != md.map(lo) || md.map(hi + dir * d) != md.map(hi) {
			bad = Some("Decibels mapping does not clamp its input".into());
		}
		// every other output type a mapping can have (each has its own `Tweenable` impl): the ends of the input range map to the
		// ends of the output range, ascending or descending, and the middle lies between them
		{
			let mid_in = lo + (hi - lo) * 0.5;
			let (d0, d1) = (std::time::Duration::from_secs_f64(o0.abs() / 10.0), std::time::Duration::from_secs_f64(o1.abs() / 10.0));
			let lin = Mapping { input_range: (lo, hi), output_range: (d0, d1), easing: Easing::Linear };
			let res = crate::props::guarded(|| (lin.map(lo), lin.map(hi), lin.map(mid_in)));
			match res {
				Ok((a, b, mid)) => {
					let near = |x: std::time::Duration, y: std::time::Duration| (x.as_secs_f64() - y.as_secs_f64()).abs() <= 1e-8;
					let want_mid = std::time::Duration::from_secs_f64((d0.as_secs_f64() + d1.as_secs_f64()) / 2.0);
					if !near(a, d0) || !near(b, d1) || !near(mid, want_mid) {
						bad = Some(format!("Mapping<Duration> {:?} -> {:?}: the ends and the middle of the input range map to {:?}, {:?}, {:?} (want {:?}, {:?}, {:?})", d0, d1, a, b, mid, d0, d1, want_mid));
					}
				}
				Err(p) => bad = Some(format!("Mapping<Duration> {:?} -> {:?} panics: {}", d0, d1, p.first().map(|p| p.sig()).unwrap_or_default())),
			}
			macro_rules! ends {
				($name:expr, $mk:expr, $get:expr) => {{
					let mp = Mapping { input_range: (lo, hi), output_range: ($mk(o0), $mk(o1)), easing: Easing::Linear };
					let (a, b, mid) = ($get(mp.map(lo)), $get(mp.map(hi)), $get(mp.map(mid_in)));
					let (w0, w1) = ($get($mk(o0)), $get($mk(o1)));
					let tol = 1e-5 * (1.0 + w0.abs().max(w1.abs()));
					if (a - w0).abs() > tol || (b - w1).abs() > tol || (mid - (w0 + w1) / 2.0).abs() > tol {
						bad = Some(format!("Mapping<{}> {} -> {}: the ends and the middle of the input range map to {}, {}, {}", $name, w0, w1, a, b, mid));
					}
				}};
			}
			ends!("f32", |v: f64| v as f32, |v: f32| v as f64);
			ends!("Panning", |v: f64| Panning((v / 50.0) as f32), |v: Panning| v.0 as f64);
			ends!("PlaybackRate", |v: f64| PlaybackRate(v / 10.0), |v: PlaybackRate| v.0);
			ends!("Mix", |v: f64| kira::Mix((v.abs() / 50.0) as f32), |v: kira::Mix| v.0 as f64);
			ends!("Semitones", |v: f64| Semitones(v), |v: Semitones| v.0);
		}
		// inside the range the output stays between the endpoints
		let x = r.f64_in(lo.min(hi), lo.max(hi));
		let y = m.map(x);
		let (a, b) = (o0.min(o1), o0.max(o1));
		let slack = 4.0 * f64::EPSILON * a.abs().max(b.abs()).max(1.0);
		if !(y >= a - slack && y <= b + slack) {
			bad = Some(format!("map({:e}) = {:e} outside output range [{:e},{:e}]", x, y, a, b));
		}
		if let Some(w) = bad {
			ctx.violation("map", i, &w, jobj! {"input_range" => vec![lo, hi], "output_range" => vec![o0, o1], "easing" => format!("{:?}", e)});
		}
		ctx.distinct_key(0x3A00_0000_0000 | ((hi > lo) as u64) << 40 | (std::mem::discriminant(&e).hash_u64() & 0xFF) << 32 | ((d.to_bits() >> 52) & 0xFFF));
	}
	ctx.sample(jobj! {"fn" => "Mapping::map", "input_range" => vec![0.0, 10.0], "output_range" => vec![-1.0, 1.0], "input" => 25.0, "output" => Mapping{input_range:(0.0,10.0), output_range:(-1.0f64,1.0f64), easing: Easing::Linear}.map(25.0)});
}

trait HashU64 {
	fn hash_u64(&self) -> u64;
}
impl<T: std::hash::Hash> HashU64 for T {
	fn hash_u64(&self) -> u64 {
		use std::hash::Hasher;
		let mut h = std::collections::hash_map::DefaultHasher::new();
		self.hash(&mut h);
		h.finish()
	}
}

pub fn confirm(key: &str) -> Option<Option<String>> {
	match key {
		"C19.clocktime_sub_u64_wraps" => {
			let clock: ClockId = MockInfoBuilder::new().add_clock(true, 0, 0.0);
			let t = ClockTime { clock, ticks: 3, fraction: 0.0 };
			let r = super::guarded(|| t - 5u64);
			Some(match r {
				Ok(s) if s.ticks > t.ticks => Some(format!("ClockTime{{ticks:3}} - 5u64 wraps to ticks={}", s.ticks)),
				Ok(_) => None,
				Err(p) => Some(format!("ClockTime{{ticks:3}} - 5u64 panics: {}", p.first().map(|p| p.sig()).unwrap_or_default())),
			})
		}
		_ => None,
	}
}
