//! C14 — each effect realises its documented transfer behaviour.
//! Independent f64 reference models (written from the cited sources) run beside kira, and
//! measured behaviour is compared with closed forms that share no code with either.

use std::f64::consts::PI;

use kira::effect::distortion::DistortionKind;
use kira::effect::eq_filter::EqFilterKind;
use kira::effect::filter::FilterMode;
use kira::Frame;

use crate::jobj;
use crate::probes::{run_effect, run_effect_after_rate_change, FxSpec, SAMPLE_RATES};
use crate::refmodel::db_to_amp;
use crate::util::{Ctx, Rng, J};

type C = (f64, f64); // complex
fn cmul(a: C, b: C) -> C {
	(a.0 * b.0 - a.1 * b.1, a.0 * b.1 + a.1 * b.0)
}
fn cdiv(a: C, b: C) -> C {
	let d = b.0 * b.0 + b.1 * b.1;
	((a.0 * b.0 + a.1 * b.1) / d, (a.1 * b.0 - a.0 * b.1) / d)
}
fn cadd(a: C, b: C) -> C {
	(a.0 + b.0, a.1 + b.1)
}
fn cabs(a: C) -> f64 {
	(a.0 * a.0 + a.1 * a.1).sqrt()
}
fn db(x: f64) -> f64 {
	20.0 * x.max(1e-300).log10()
}

/// steady-state gain (left channel) of an effect for a sine of frequency ~f; returns (actual f, gain)
fn sine_gain(spec: &FxSpec, sr: u32, f: f64, settle: usize, amp: f64) -> (f64, f64) {
	sine_gain_live(spec, sr, f, settle, amp, None)
}

/// `before`: the instance has been running at this other device rate until just before the measurement
fn sine_gain_live(spec: &FxSpec, sr: u32, f: f64, settle: usize, amp: f64, before: Option<u32>) -> (f64, f64) {
	// snap f so that the measuring window holds a whole number of periods
	let periods = 24.0f64;
	let m = ((periods * sr as f64 / f).ceil() as usize).clamp(2048, 400_000);
	let cycles = (f * m as f64 / sr as f64).round().max(1.0);
	let f2 = cycles * sr as f64 / m as f64;
	let n = settle + m;
	let w = 2.0 * PI * f2 / sr as f64;
	let x: Vec<Frame> = (0..n)
		.map(|i| {
			let v = (amp * (w * i as f64).sin()) as f32;
			Frame::new(v, v)
		})
		.collect();
	let y = match before {
		Some(b) => run_effect_after_rate_change(spec, b, sr, 128, &x, &[128]),
		None => run_effect(spec, sr, 128, &x, &[128]),
	};
	let (mut s, mut c, mut si, mut ci) = (0.0, 0.0, 0.0, 0.0);
	for i in settle..n {
		let (sn, cs) = ((w * i as f64).sin(), (w * i as f64).cos());
		s += y[i].left as f64 * sn;
		c += y[i].left as f64 * cs;
		si += x[i].left as f64 * sn;
		ci += x[i].left as f64 * cs;
	}
	(f2, (s * s + c * c).sqrt() / (si * si + ci * ci).sqrt())
}

/// analytic response of the trapezoidal (bilinear, pre-warped) SVF: s = j tan(w/2)/g
fn svf_s(f: f64, sr: u32, g: f64) -> C {
	(0.0, (PI * f / sr as f64).tan() / g)
}

fn filter_response(mode: FilterMode, fc: f64, res: f64, mix: f64, sr: u32, f: f64) -> f64 {
	let g = (PI * (fc / sr as f64).clamp(0.0001, 0.5)).tan();
	let k = 2.0 - 1.9 * res.clamp(0.0, 1.0);
	let s = svf_s(f, sr, g);
	let den = cadd(cadd(cmul(s, s), (k * s.0, k * s.1)), (1.0, 0.0));
	let h = match mode {
		FilterMode::LowPass => cdiv((1.0, 0.0), den),
		FilterMode::BandPass => cdiv(s, den),
		FilterMode::HighPass => cdiv(cmul(s, s), den),
		FilterMode::Notch => cdiv(cadd(cmul(s, s), (1.0, 0.0)), den),
	};
	let m = mix.clamp(0.0, 1.0);
	cabs(cadd((h.0 * m.sqrt(), h.1 * m.sqrt()), ((1.0 - m).sqrt(), 0.0)))
}

/// SvfLinearTrapOptimised2 (Cytomic) bell / shelves: H = m0 + m1*BP + m2*LP
fn eq_response(kind: EqFilterKind, fc: f64, gain_db: f64, q: f64, sr: u32, f: f64) -> f64 {
	let a = 10f64.powf(gain_db / 40.0);
	let q = q.max(0.01);
	let g0 = (PI * (fc / sr as f64).clamp(0.0001, 0.5)).tan();
	let (g, k, m0, m1, m2) = match kind {
		EqFilterKind::Bell => (g0, 1.0 / (q * a), 1.0, (1.0 / (q * a)) * (a * a - 1.0), 0.0),
		EqFilterKind::LowShelf => (g0 / a.sqrt(), 1.0 / q, 1.0, (1.0 / q) * (a - 1.0), a * a - 1.0),
		EqFilterKind::HighShelf => (g0 * a.sqrt(), 1.0 / q, a * a, (1.0 / q) * (1.0 - a) * a, 1.0 - a * a),
	};
	let s = svf_s(f, sr, g);
	let den = cadd(cadd(cmul(s, s), (k * s.0, k * s.1)), (1.0, 0.0));
	let bp = cdiv(s, den);
	let lp = cdiv((1.0, 0.0), den);
	cabs(cadd(cadd((m0, 0.0), (m1 * bp.0, m1 * bp.1)), (m2 * lp.0, m2 * lp.1)))
}

fn settle_frames(sr: u32, fc: f64, kq: f64, f: f64) -> usize {
	// ~12 time constants of the resonance plus a few probe periods
	let tau = kq / (PI * fc.max(1.0));
	(((12.0 * tau + 6.0 / f) * sr as f64) as usize + 2000).min(900_000)
}

fn detail(spec: &FxSpec, sr: u32, what: &str) -> J {
	jobj! {"effect" => format!("{:?}", spec), "sample_rate" => sr, "check" => what}
}

// ------------------------------------------------------------------ filter

fn check_filter(ctx: &mut Ctx, idx: u64, r: &mut Rng) -> Option<(String, J)> {
	let sr = *r.pick(&SAMPLE_RATES);
	let nyq = sr as f64 / 2.0;
	let fc = r.log_in(40.0, nyq * 0.45);
	let res = if r.chance(0.3) { 0.0 } else { r.f64_in(0.0, 0.85) };
	let k = 2.0 - 1.9 * res;
	let mode = *r.pick(&[FilterMode::LowPass, FilterMode::BandPass, FilterMode::HighPass, FilterMode::Notch]);
	let mix = if r.chance(0.7) { 1.0 } else { r.f64_in(0.0, 1.0) };
	let spec = FxSpec::Filter { mode, cutoff: fc, resonance: res, mix: mix as f32 };
	ctx.distinct_str(&format!("filter|{:?}|{}|{}|{}", mode, sr, (fc.log2() * 2.0) as i64, (res * 4.0) as i64));
	let kq = 1.0 / k;
	// in a third of the cases the instance has lived at another device rate before (hertz keep their meaning)
	let before = if r.chance(0.33) { Some(*r.pick(&SAMPLE_RATES)) } else { None };
	if before.is_some() {
		ctx.count("filter_cases_after_live_rate_change", 1);
	}
	// (a) response at random probe frequencies vs the analytic bilinear SVF
	for _ in 0..3 {
		let f = r.log_in(10.0f64.max(fc / 30.0), nyq * 0.98);
		let (f2, got) = sine_gain_live(&spec, sr, f, settle_frames(sr, fc, kq, f), 0.25, before);
		let want = filter_response(mode, fc, res, mix, sr, f2);
		ctx.count("filter_sine_probes", 1);
		if want > 1e-3 && (db(got) - db(want)).abs() > 0.05 {
			return Some((format!("filter {:?} fc={:.2} res={:.3} mix={:.3} sr={}: gain at {:.2} Hz is {:.3} dB, the cited SVF gives {:.3} dB", mode, fc, res, mix, sr, f2, db(got), db(want)), detail(&spec, sr, "frequency response")));
		}
		if want <= 1e-3 && got > 2e-3 {
			return Some((format!("filter {:?}: gain at {:.2} Hz is {:e}, expected <= {:e}", mode, f2, got, want), detail(&spec, sr, "frequency response")));
		}
	}
	if mix == 1.0 {
		// (b) mapping-free characteristic-frequency checks at the requested hertz (bilinear pre-warp makes them exact)
		let wet = |m: FilterMode| FxSpec::Filter { mode: m, cutoff: fc, resonance: res, mix: 1.0 };
		let st = settle_frames(sr, fc, kq, fc);
		let (f2, glp) = sine_gain(&wet(FilterMode::LowPass), sr, fc, st, 0.25);
		let (_, ghp) = sine_gain(&wet(FilterMode::HighPass), sr, fc, st, 0.25);
		let (_, gno) = sine_gain(&wet(FilterMode::Notch), sr, fc, st, 0.25);
		let (_, gbp) = sine_gain(&wet(FilterMode::BandPass), sr, fc, st, 0.25);
		let (_, gbp_lo) = sine_gain(&wet(FilterMode::BandPass), sr, fc * 0.93, st, 0.25);
		let (_, gbp_hi) = sine_gain(&wet(FilterMode::BandPass), sr, (fc * 1.07).min(nyq * 0.99), st, 0.25);
		ctx.count("filter_characteristic_frequency_checks", 1);
		// snapping moved the probe by < 1/24 period fraction; tolerance 0.5 % in frequency => small gain slack
		let off = (f2 / fc - 1.0).abs();
		let slack_db = 0.1 + 40.0 * off * (1.0 + kq);
		if (db(glp) - db(ghp)).abs() > slack_db {
			return Some((format!("low-pass and high-pass gains do not cross at the requested cutoff {:.2} Hz (sr {}): LP {:.3} dB, HP {:.3} dB", fc, sr, db(glp), db(ghp)), detail(&spec, sr, "LP/HP crossing at cutoff")));
		}
		if gno > 0.02 + 4.0 * off * kq.max(1.0) {
			return Some((format!("notch does not null at the requested cutoff {:.2} Hz (sr {}): gain {:e}", fc, sr, gno), detail(&spec, sr, "notch null at cutoff")));
		}
		if gbp < gbp_lo * 0.999 || gbp < gbp_hi * 0.999 {
			return Some((format!("band-pass does not peak at the requested cutoff {:.2} Hz (sr {}): {:.4} vs {:.4} / {:.4} at -7%/+7%", fc, sr, gbp, gbp_lo, gbp_hi), detail(&spec, sr, "BP peak at cutoff")));
		}
		// (c) unity pass band: LP at DC and HP at Nyquist
		let dc = run_effect(&wet(FilterMode::LowPass), sr, 128, &vec![Frame::from_mono(0.5); st + 512], &[128]);
		let gdc = dc.last().unwrap().left as f64 / 0.5;
		if db(gdc).abs() > 0.05 {
			return Some((format!("low-pass DC gain {:.4} dB != 0 dB (fc {:.2}, sr {})", db(gdc), fc, sr), detail(&spec, sr, "LP DC gain")));
		}
		let alt: Vec<Frame> = (0..st + 512).map(|i| Frame::from_mono(if i % 2 == 0 { 0.5 } else { -0.5 })).collect();
		let ny = run_effect(&wet(FilterMode::HighPass), sr, 128, &alt, &[128]);
		let gny = ny.last().unwrap().left.abs() as f64 / 0.5;
		if db(gny).abs() > 0.05 {
			return Some((format!("high-pass Nyquist gain {:.4} dB != 0 dB (fc {:.2}, sr {})", db(gny), fc, sr), detail(&spec, sr, "HP Nyquist gain")));
		}
	}
	if ctx.want_sample() && idx % 7 == 0 {
		ctx.sample(detail(&spec, sr, "filter: sine-probe response vs analytic SVF, LP/HP crossing, notch null, BP peak, pass-band gains"));
	}
	None
}

// ------------------------------------------------------------------ EQ

fn check_eq(ctx: &mut Ctx, idx: u64, r: &mut Rng) -> Option<(String, J)> {
	let sr = *r.pick(&SAMPLE_RATES);
	let nyq = sr as f64 / 2.0;
	let kind = *r.pick(&[EqFilterKind::Bell, EqFilterKind::LowShelf, EqFilterKind::HighShelf]);
	let fc = r.log_in(40.0, nyq * 0.4);
	let gain_db = if r.chance(0.2) { *r.pick(&[0.0, 6.0, -6.0, 12.0, -24.0, 24.0]) } else { r.f64_in(-24.0, 24.0) };
	let gain_db = gain_db as f32 as f64;
	let q = r.log_in(0.3, 8.0);
	let spec = FxSpec::Eq { kind, freq: fc, gain_db: gain_db as f32, q };
	ctx.distinct_str(&format!("eq|{:?}|{}|{}|{}|{}", kind, sr, (fc.log2() * 2.0) as i64, (gain_db / 6.0) as i64, (q.log2()) as i64));
	let kq = q * 10f64.powf(gain_db.abs() / 40.0);
	let st = settle_frames(sr, fc / 10f64.powf(gain_db.abs() / 40.0), kq, fc);
	// closed forms independent of the coefficient mapping
	match kind {
		EqFilterKind::Bell => {
			let (f2, g) = sine_gain(&spec, sr, fc, st, 0.05);
			let off = (f2 / fc - 1.0).abs();
			if (db(g) - gain_db).abs() > 0.1 + 200.0 * off * q {
				return Some((format!("bell: gain at the centre {:.2} Hz is {:.3} dB, requested {:.3} dB (q {:.3}, sr {})", fc, db(g), gain_db, q, sr), detail(&spec, sr, "bell centre gain")));
			}
		}
		EqFilterKind::LowShelf | EqFilterKind::HighShelf => {
			let dc = run_effect(&spec, sr, 128, &vec![Frame::from_mono(0.05); st + 512], &[128]);
			let gdc = db(dc.last().unwrap().left as f64 / 0.05);
			let alt: Vec<Frame> = (0..st + 512).map(|i| Frame::from_mono(if i % 2 == 0 { 0.05 } else { -0.05 })).collect();
			let ny = run_effect(&spec, sr, 128, &alt, &[128]);
			let gny = db(ny.last().unwrap().left.abs() as f64 / 0.05);
			let (want_dc, want_ny) = if kind == EqFilterKind::LowShelf { (gain_db, 0.0) } else { (0.0, gain_db) };
			if (gdc - want_dc).abs() > 0.1 || (gny - want_ny).abs() > 0.1 {
				return Some((format!("{:?}: DC gain {:.3} dB (want {:.3}), Nyquist gain {:.3} dB (want {:.3}) (fc {:.2}, q {:.3}, sr {})", kind, gdc, want_dc, gny, want_ny, fc, q, sr), detail(&spec, sr, "shelf DC/Nyquist gains")));
			}
		}
	}
	ctx.count("eq_closed_form_checks", 1);
	// full response against the cited design; in a third of the cases after a live change of the device rate
	let before = if r.chance(0.33) { Some(*r.pick(&SAMPLE_RATES)) } else { None };
	if before.is_some() {
		ctx.count("eq_cases_after_live_rate_change", 1);
	}
	for _ in 0..3 {
		let f = r.log_in(10.0f64.max(fc / 30.0), nyq * 0.98);
		let (f2, got) = sine_gain_live(&spec, sr, f, st, 0.05, before);
		let want = eq_response(kind, fc, gain_db, q, sr, f2);
		ctx.count("eq_sine_probes", 1);
		if (db(got) - db(want)).abs() > 0.1 {
			return Some((format!("{:?} fc={:.2} gain={:.2} q={:.3} sr={}: gain at {:.2} Hz is {:.3} dB, the cited design gives {:.3} dB", kind, fc, gain_db, q, sr, f2, db(got), db(want)), detail(&spec, sr, "frequency response")));
		}
	}
	// a band that rested at exactly 0 dB is the same filter as one that rested a hair off 0 dB: both have been integrating
	// the signal all along, so when the gain is then set (through the handle) both produce the same transient
	if r.chance(0.4) {
		use kira::effect::eq_filter::EqFilterBuilder;
		use kira::effect::EffectBuilder;
		use kira::{Decibels, Tween};
		ctx.count("eq_gain_set_from_exactly_0_dB_checks", 1);
		let amp = 0.25f64;
		let f = r.log_in(10.0f64.max(fc / 10.0), (fc * 10.0).min(nyq * 0.9));
		let n_warm = 128 * r.usize_in(2, 12);
		let n_after = 128 * 8;
		let x: Vec<Frame> = (0..n_warm + n_after).map(|i| Frame::from_mono((amp * (2.0 * PI * f * i as f64 / sr as f64).sin()) as f32)).collect();
		let target = if gain_db.abs() < 0.5 { 6.0 } else { gain_db };
		let tween_s = if r.chance(0.5) { 0.0 } else { r.f64_in(0.0, 0.01) };
		let run = |rest_db: f32| -> Vec<Frame> {
			let (mut fx, mut h) = EqFilterBuilder::new(kind, fc, Decibels(rest_db), q).build();
			fx.init(sr, 128);
			let info = crate::probes::mock_info();
			let mut out = x.clone();
			for (k, c) in out.chunks_mut(128).enumerate() {
				if k * 128 == n_warm {
					h.set_gain(Decibels(target as f32), Tween { duration: std::time::Duration::from_secs_f64(tween_s), ..Default::default() });
				}
				fx.on_start_processing();
				fx.process(c, 1.0 / sr as f64, &info);
			}
			out
		};
		let (ya, yb) = (run(0.0), run(1e-4));
		for i in n_warm..n_warm + n_after {
			let d = (ya[i].left as f64 - yb[i].left as f64).abs();
			if d > 2e-3 * amp * 10f64.powf(target.abs() / 20.0) {
				return Some((
					format!("{:?} fc={:.2} q={:.3} sr={}: a {:.1} Hz sine through a band resting at exactly 0 dB and through one resting at 0.0001 dB, both then set to {:.2} dB (tween {:.4} s) after {} frames: frame {} differs by {:.4} ({:e} vs {:e})", kind, fc, q, sr, f, target, tween_s, n_warm, i, d, ya[i].left, yb[i].left),
					detail(&spec, sr, "gain set from exactly 0 dB"),
				));
			}
		}
	}
	if ctx.want_sample() && idx % 7 == 1 {
		ctx.sample(detail(&spec, sr, "eq: centre/shelf gains and sine-probe response vs SvfLinearTrapOptimised2"));
	}
	None
}

// ------------------------------------------------------------------ volume / panning / distortion (point-wise laws)

fn check_pointwise(ctx: &mut Ctx, _idx: u64, r: &mut Rng) -> Option<(String, J)> {
	let sr = *r.pick(&SAMPLE_RATES);
	let n = 512;
	let x: Vec<Frame> = (0..n).map(|i| if i < 8 { Frame::new([0.0, 1.0, -1.0, 0.5, 1e-6, -1e-3, 0.999, -0.25][i], [0.0, -1.0, 1.0, 0.25, 1e-6, 1e-3, -0.999, 0.75][i]) } else { Frame::new(r.noise(), r.noise()) }).collect();
	let which = r.below(3);
	let spec = match which {
		0 => FxSpec::Volume { db: if r.chance(0.3) { *r.pick(&[0.0f32, -60.0, -6.0, 6.0, -59.99, -80.0]) } else { r.f32_in(-70.0, 24.0) } },
		1 => FxSpec::Panning { p: if r.chance(0.3) { *r.pick(&[0.0f32, -1.0, 1.0, 0.5, -0.5, 1.5, -1.5]) } else { r.f32_in(-1.0, 1.0) } },
		_ => FxSpec::Distortion {
			kind: *r.pick(&[DistortionKind::HardClip, DistortionKind::SoftClip]),
			drive_db: if r.chance(0.3) { *r.pick(&[0.0f32, 6.0, 24.0, -6.0, 40.0]) } else { r.f32_in(-40.0, 40.0) },
			mix: if r.chance(0.6) { 1.0 } else { r.f32_in(0.0, 1.0) },
		},
	};
	let y = run_effect(&spec, sr, 64, &x, &[64, 1, 17]);
	ctx.count("pointwise_frames", n as u64);
	ctx.distinct_str(&format!("pw|{}|{}", spec.kind_name(), match &spec { FxSpec::Volume { db } => (*db / 6.0) as i64, FxSpec::Panning { p } => (*p * 8.0) as i64, FxSpec::Distortion { drive_db, kind, .. } => (*drive_db / 6.0) as i64 * 2 + (*kind == DistortionKind::SoftClip) as i64, _ => 0 }));
	for i in 0..n {
		let (xl, xr) = (x[i].left as f64, x[i].right as f64);
		let (wl, wr) = match &spec {
			FxSpec::Volume { db } => {
				let a = db_to_amp(*db as f64);
				(xl * a, xr * a)
			}
			FxSpec::Panning { p } => {
				if *p == 0.0 {
					(xl, xr)
				} else {
					let m = ((*p as f64).clamp(-1.0, 1.0) + 1.0) * 0.5;
					(xl * (1.0 - m).sqrt() * 2f64.sqrt(), xr * m.sqrt() * 2f64.sqrt())
				}
			}
			FxSpec::Distortion { kind, drive_db, mix } => {
				let d = db_to_amp(*drive_db as f64);
				let f = |v: f64| -> f64 {
					let u = v * d;
					let c = match kind {
						DistortionKind::HardClip => u.clamp(-1.0, 1.0),
						DistortionKind::SoftClip => u / (1.0 + u.abs()),
					};
					let wet = c / d;
					let m = (*mix as f64).clamp(0.0, 1.0);
					wet * m.sqrt() + v * (1.0 - m).sqrt()
				};
				(f(xl), f(xr))
			}
			_ => unreachable!(),
		};
		let tol = |w: f64| 4e-6 * w.abs() + 1e-9;
		let (gl, gr) = (y[i].left as f64, y[i].right as f64);
		if (gl - wl).abs() > tol(wl).max(tol(xl)) || (gr - wr).abs() > tol(wr).max(tol(xr)) {
			return Some((format!("{}: frame {} in ({:e},{:e}) out ({:e},{:e}) but the documented law gives ({:e},{:e})", spec.kind_name(), i, xl, xr, gl, gr, wl, wr), detail(&spec, sr, "point-wise law")));
		}
	}
	// small signals pass a distortion unchanged
	if let FxSpec::Distortion { drive_db, .. } = &spec {
		let d = db_to_amp(*drive_db as f64);
		let tiny = 1e-4 / d.max(1.0);
		let xs = vec![Frame::new(tiny as f32, -(tiny as f32)); 16];
		let wet = FxSpec::Distortion { kind: DistortionKind::SoftClip, drive_db: *drive_db, mix: 1.0 };
		let ys = run_effect(&wet, sr, 16, &xs, &[16]);
		if ((ys[3].left as f64) / tiny - 1.0).abs() > 2e-4 {
			return Some((format!("soft clip is not transparent for a small signal {:e}: out {:e}", tiny, ys[3].left), detail(&wet, sr, "small-signal transparency")));
		}
	}
	None
}

// ------------------------------------------------------------------ delay

fn check_delay(ctx: &mut Ctx, idx: u64, r: &mut Rng) -> Option<(String, J)> {
	let sr = *r.pick(&SAMPLE_RATES);
	let d_frames = r.usize_in(1, 3000);
	// a delay time that lands safely inside frame d_frames after ns quantisation
	let time_s = (d_frames as f64 + 0.5) / sr as f64;
	let fb_db = if r.chance(0.2) { *r.pick(&[0.0f32, -6.0, -60.0, -3.0]) } else { r.f32_in(-30.0, 0.0) };
	let mix = if r.chance(0.3) { *r.pick(&[0.0f32, 1.0, 0.5]) } else { r.f32_in(0.0, 1.0) };
	let inner_db = if r.chance(0.4) { Some(r.f32_in(-12.0, 0.0)) } else { None };
	let inner = inner_db.map(|v| vec![FxSpec::Volume { db: v }]).unwrap_or_default();
	let spec = FxSpec::Delay { time_s, feedback_db: fb_db, mix, inner };
	ctx.distinct_str(&format!("delay|{}|{}|{}|{}", sr, d_frames / 100, (fb_db / 6.0) as i64, inner_db.is_some()));
	let n = (d_frames * 6 + 50).min(20000);
	let mut x = vec![Frame::ZERO; n];
	x[0] = Frame::new(0.5, -0.25);
	if n > 7 {
		x[7] = Frame::new(-0.125, 0.5);
	}
	let ibs = *r.pick(&[1usize, 16, 128, 1000]);
	let y = run_effect(&spec, sr, ibs, &x, &[ibs]);
	// reference: echoes at exact multiples of d_frames, echo k scaled by (feedback x inner gain)^k, sqrt mix law
	let g = db_to_amp(fb_db as f64) * inner_db.map(|v| db_to_amp(v as f64)).unwrap_or(1.0);
	let m = (mix as f64).clamp(0.0, 1.0);
	ctx.count("delay_impulse_frames", n as u64);
	for i in 0..n {
		let mut wl = x[i].left as f64 * (1.0 - m).sqrt();
		let mut wr = x[i].right as f64 * (1.0 - m).sqrt();
		let mut k = 1;
		while k * d_frames <= i {
			let src = x[i - k * d_frames];
			wl += src.left as f64 * g.powi(k as i32) * m.sqrt();
			wr += src.right as f64 * g.powi(k as i32) * m.sqrt();
			k += 1;
		}
		let tol = 1e-5 * (wl.abs().max(wr.abs())) + 1e-9;
		if (y[i].left as f64 - wl).abs() > tol || (y[i].right as f64 - wr).abs() > tol {
			return Some((
				format!("delay of {} frames (sr {}, feedback {:.2} dB, mix {:.3}, inner {:?}): frame {} is ({:e},{:e}), echoes at exact multiples of the delay time give ({:e},{:e})", d_frames, sr, fb_db, mix, inner_db, i, y[i].left, y[i].right, wl, wr),
				detail(&spec, sr, "impulse echoes"),
			));
		}
	}
	// a level-dependent effect in the feedback loop (hard or soft clip, loud impulses): the documented order is
	// delay line -> feedback effects -> feedback gain -> back into the line / out as the wet signal
	if r.chance(0.35) {
		let kind = *r.pick(&[DistortionKind::HardClip, DistortionKind::SoftClip]);
		let fb_db = r.f32_in(-12.0, -1.0);
		let mix = *r.pick(&[1.0f32, 0.5, 0.3]);
		let spec = FxSpec::Delay { time_s, feedback_db: fb_db, mix, inner: vec![FxSpec::Distortion { kind, drive_db: 0.0, mix: 1.0 }] };
		let n = (d_frames * 4 + 20).min(12000);
		let mut x = vec![Frame::ZERO; n];
		x[0] = Frame::new(4.0, -2.5);
		if n > 5 {
			x[5] = Frame::new(-3.0, 0.75);
		}
		let y = run_effect(&spec, sr, ibs, &x, &[ibs]);
		let clip = |v: f64| match kind {
			DistortionKind::HardClip => v.clamp(-1.0, 1.0),
			DistortionKind::SoftClip => v / (1.0 + v.abs()),
		};
		let g = db_to_amp(fb_db as f64);
		let m = (mix as f64).clamp(0.0, 1.0);
		let mut line: Vec<(f64, f64)> = vec![(0.0, 0.0); d_frames];
		ctx.count("delay_nonlinear_feedback_frames", n as u64);
		for i in 0..n {
			let read = line[i % d_frames];
			let fbv = (clip(read.0) * g, clip(read.1) * g);
			line[i % d_frames] = (x[i].left as f64 + fbv.0, x[i].right as f64 + fbv.1);
			let (wl, wr) = (fbv.0 * m.sqrt() + x[i].left as f64 * (1.0 - m).sqrt(), fbv.1 * m.sqrt() + x[i].right as f64 * (1.0 - m).sqrt());
			let tol = 1e-5 * (wl.abs().max(wr.abs())) + 1e-7;
			if (y[i].left as f64 - wl).abs() > tol || (y[i].right as f64 - wr).abs() > tol {
				return Some((
					format!("delay of {} frames (sr {}, feedback {:.2} dB, mix {:.2}) with a {:?} in its feedback loop: frame {} is ({:e},{:e}); delay line -> effect -> feedback gain gives ({:e},{:e})", d_frames, sr, fb_db, mix, kind, i, y[i].left, y[i].right, wl, wr),
					detail(&spec, sr, "order of feedback effects and feedback gain"),
				));
			}
		}
	}
	// an effect with memory (a low-pass filter) in the feedback loop, the input cut into slices shorter than the internal
	// buffer and shorter / longer than the delay line: every frame read from the line passes through the feedback effect
	// exactly once, in order. The reference feeds a second instance of the same filter, frame by frame, from a model line.
	if r.chance(0.35) {
		let fb_db = r.f32_in(-9.0, -1.0);
		let mix = *r.pick(&[1.0f32, 0.5, 0.3]);
		let lp = FxSpec::Filter { mode: FilterMode::LowPass, cutoff: r.f64_in(200.0, 0.2 * sr as f64), resonance: r.f64_in(0.0, 0.5), mix: 1.0 };
		let spec = FxSpec::Delay { time_s, feedback_db: fb_db, mix, inner: vec![lp.clone()] };
		let n = (d_frames * 5 + 40).min(12000);
		let x: Vec<Frame> = (0..n).map(|i| if i < 40 { Frame::new(((i * 37 % 11) as f32 - 5.0) * 0.1, ((i * 17 % 7) as f32 - 3.0) * 0.1) } else { Frame::ZERO }).collect();
		let ibs = *r.pick(&[16usize, 128, 1000]);
		let part: Vec<usize> = (0..5).map(|_| r.usize_in(1, ibs)).collect();
		let y = run_effect(&spec, sr, ibs, &x, &part);
		let mut f = lp.build();
		f.init(sr, 1);
		let info = crate::probes::mock_info();
		let g = 10f64.powf(fb_db as f64 / 20.0);
		let m = (mix as f64).clamp(0.0, 1.0);
		let mut line: Vec<(f64, f64)> = vec![(0.0, 0.0); d_frames];
		ctx.count("delay_filtered_feedback_frames", n as u64);
		for i in 0..n {
			let read = line[i % d_frames];
			let mut one = [Frame::new(read.0 as f32, read.1 as f32)];
			f.on_start_processing();
			f.process(&mut one, 1.0 / sr as f64, &info);
			let fbv = (one[0].left as f64 * g, one[0].right as f64 * g);
			line[i % d_frames] = (x[i].left as f64 + fbv.0, x[i].right as f64 + fbv.1);
			let (wl, wr) = (fbv.0 * m.sqrt() + x[i].left as f64 * (1.0 - m).sqrt(), fbv.1 * m.sqrt() + x[i].right as f64 * (1.0 - m).sqrt());
			let tol = 2e-4 * (wl.abs().max(wr.abs())) + 2e-6;
			if (y[i].left as f64 - wl).abs() > tol || (y[i].right as f64 - wr).abs() > tol {
				return Some((
					format!("delay of {} frames (sr {}, feedback {:.2} dB, mix {:.2}, internal buffer {}, slices {:?}) with a low-pass filter in its feedback loop: frame {} is ({:e},{:e}); feeding every frame read from the line through the filter once, in order, gives ({:e},{:e})", d_frames, sr, fb_db, mix, ibs, part, i, y[i].left, y[i].right, wl, wr),
					detail(&spec, sr, "echoes shaped by a feedback effect with memory"),
				));
			}
		}
	}
	if ctx.want_sample() && idx % 7 == 2 {
		ctx.sample(detail(&spec, sr, "delay: impulse response vs echoes at k*D scaled by feedback^k"));
	}
	None
}

// ------------------------------------------------------------------ reverb (Freeverb reference)

struct RComb {
	buf: Vec<f64>,
	idx: usize,
	store: f64,
}
struct RAllpass {
	buf: Vec<f64>,
	idx: usize,
}
const COMB_TUNING: [usize; 8] = [1116, 1188, 1277, 1356, 1422, 1491, 1557, 1617];
const ALLPASS_TUNING: [usize; 4] = [556, 441, 341, 225];

fn freeverb_ref(x: &[Frame], sr: u32, feedback: f64, damp: f64, width: f64, mix: f64) -> Vec<(f64, f64)> {
	let scale = |n: usize| ((n as f64) * (sr as f64 / 44100.0)) as usize;
	let mut cl: Vec<RComb> = COMB_TUNING.iter().map(|n| RComb { buf: vec![0.0; scale(*n)], idx: 0, store: 0.0 }).collect();
	let mut cr: Vec<RComb> = COMB_TUNING.iter().map(|n| RComb { buf: vec![0.0; scale(*n + 23)], idx: 0, store: 0.0 }).collect();
	let mut al: Vec<RAllpass> = ALLPASS_TUNING.iter().map(|n| RAllpass { buf: vec![0.0; scale(*n)], idx: 0 }).collect();
	let mut ar: Vec<RAllpass> = ALLPASS_TUNING.iter().map(|n| RAllpass { buf: vec![0.0; scale(*n + 23)], idx: 0 }).collect();
	let comb = |c: &mut RComb, input: f64| -> f64 {
		let out = c.buf[c.idx];
		c.store = out * (1.0 - damp) + c.store * damp;
		c.buf[c.idx] = input + c.store * feedback;
		c.idx = (c.idx + 1) % c.buf.len();
		out
	};
	let allpass = |a: &mut RAllpass, input: f64| -> f64 {
		let b = a.buf[a.idx];
		let out = -input + b;
		a.buf[a.idx] = input + b * 0.5;
		a.idx = (a.idx + 1) % a.buf.len();
		out
	};
	let m = mix.clamp(0.0, 1.0);
	x.iter()
		.map(|f| {
			let input = (f.left as f64 + f.right as f64) * 0.015;
			let (mut l, mut rr) = (0.0, 0.0);
			for c in cl.iter_mut() {
				l += comb(c, input);
			}
			for c in cr.iter_mut() {
				rr += comb(c, input);
			}
			for a in al.iter_mut() {
				l = allpass(a, l);
			}
			for a in ar.iter_mut() {
				rr = allpass(a, rr);
			}
			let w1 = width / 2.0 + 0.5;
			let w2 = (1.0 - width) / 2.0;
			let (ol, or) = (l * w1 + rr * w2, rr * w1 + l * w2);
			(ol * m.sqrt() + f.left as f64 * (1.0 - m).sqrt(), or * m.sqrt() + f.right as f64 * (1.0 - m).sqrt())
		})
		.collect()
}

fn check_reverb(ctx: &mut Ctx, idx: u64, r: &mut Rng) -> Option<(String, J)> {
	let sr = *r.pick(&SAMPLE_RATES);
	let feedback = if r.chance(0.2) { *r.pick(&[0.0, 0.5, 0.9, 0.98]) } else { r.f64_in(0.0, 0.98) };
	let damping = if r.chance(0.2) { *r.pick(&[0.0, 0.1, 1.0]) } else { r.f64_in(0.0, 1.0) };
	let width = r.f64_in(0.0, 1.0);
	let mix = if r.chance(0.5) { 1.0 } else { r.f64_in(0.0, 1.0) };
	let spec = FxSpec::Reverb { feedback, damping, width, mix: mix as f32 };
	ctx.distinct_str(&format!("reverb|{}|{}|{}", sr, (feedback * 5.0) as i64, (damping * 3.0) as i64));
	let longest = ((1617 + 23) as f64 * sr as f64 / 44100.0) as usize;
	let n = (longest * 8).min(120_000);
	let sig = r.below(2);
	let x: Vec<Frame> = (0..n)
		.map(|i| {
			if sig == 0 {
				if i == 0 { Frame::new(1.0, 0.5) } else { Frame::ZERO }
			} else if i < n / 8 {
				Frame::new(r.noise() * 0.5, r.noise() * 0.5)
			} else {
				Frame::ZERO
			}
		})
		.collect();
	let y = run_effect(&spec, sr, 128, &x, &[128, 37]);
	let want = freeverb_ref(&x, sr, feedback as f32 as f64, damping as f32 as f64, width as f32 as f64, mix as f32 as f64);
	let scale = want.iter().fold(1e-9f64, |m, w| m.max(w.0.abs()).max(w.1.abs()));
	ctx.count("reverb_frames_compared", n as u64);
	for i in 0..n {
		let e = (y[i].left as f64 - want[i].0).abs().max((y[i].right as f64 - want[i].1).abs());
		if e > 2e-4 * scale + 1e-7 {
			return Some((
				format!("reverb (sr {}, feedback {:.3}, damping {:.3}, width {:.3}, mix {:.3}): frame {} is ({:e},{:e}), the Freeverb network gives ({:e},{:e})", sr, feedback, damping, width, mix, i, y[i].left, y[i].right, want[i].0, want[i].1),
				detail(&spec, sr, "sample-by-sample vs Freeverb reference"),
			));
		}
	}
	// energy decays for feedback < 1 (wet signal only, after the excitation ended)
	if mix == 1.0 && feedback <= 0.9 {
		let w = longest * 2;
		let start = if sig == 0 { w } else { n / 8 + w };
		let e = |a: usize| -> f64 { y[a..(a + w).min(n)].iter().map(|f| (f.left as f64).powi(2) + (f.right as f64).powi(2)).sum() };
		if start + 3 * w <= n {
			let (e1, e2) = (e(start), e(start + 2 * w));
			if e1 > 1e-12 && e2 >= e1 {
				return Some((format!("reverb tail energy does not decay for feedback {:.3} < 1: {:e} then {:e}", feedback, e1, e2), detail(&spec, sr, "energy decay")));
			}
			ctx.count("reverb_decay_checks", 1);
		}
	}
	if ctx.want_sample() && idx % 7 == 3 {
		ctx.sample(detail(&spec, sr, "reverb: sample-by-sample vs independent Freeverb network, tail energy decay"));
	}
	None
}

// ------------------------------------------------------------------ compressor

fn check_compressor(ctx: &mut Ctx, idx: u64, r: &mut Rng) -> Option<(String, J)> {
	let sr = *r.pick(&SAMPLE_RATES);
	// test levels are plain 10^(dB/20): the -60 dB floor of kira's Decibels type is not part of the compressor's law
	let raw_amp = |db: f64| 10f64.powf(db / 20.0);
	// one case in four at the far end of the parameter space: very low thresholds with high ratios (gain reductions of 60 dB
	// and more - the decibel law has no floor inside the compressor) and make-up gains from -70 to +40 dB
	let extreme = r.chance(0.25);
	let threshold = if extreme { r.f64_in(-90.0, -40.0) } else { r.f64_in(-40.0, -6.0) };
	let ratio = if extreme {
		r.log_in(8.0, 200.0)
	} else if r.chance(0.3) {
		*r.pick(&[2.0, 4.0, 10.0, 1.0, 100.0])
	} else {
		r.log_in(1.0, 50.0)
	};
	let attack_s = r.log_in(0.002, 0.1);
	let release_s = r.log_in(0.005, 0.3);
	let makeup = if extreme { r.f32_in(-70.0, 40.0) } else if r.chance(0.5) { 0.0 } else { r.f32_in(-6.0, 6.0) };
	let spec = FxSpec::Compressor { threshold, ratio, attack_s, release_s, makeup_db: makeup, mix: 1.0 };
	ctx.distinct_str(&format!("comp|{}|{}|{}|{}", sr, (threshold / 8.0) as i64, (ratio.log2()) as i64, (attack_s.log10() * 2.0) as i64));
	let q = |x: f64| std::time::Duration::from_secs_f64(x).as_secs_f64();
	let (attack_s, release_s) = (q(attack_s), q(release_s));
	// (a) below threshold: unchanged (makeup aside)
	let below = raw_amp(threshold - 3.0);
	let xb: Vec<Frame> = (0..2000).map(|i| Frame::from_mono((below * (i as f64 * 0.05).sin()) as f32)).collect();
	let yb = run_effect(&spec, sr, 128, &xb, &[128]);
	let mk = 10f64.powf(makeup as f64 / 20.0);
	for i in 0..xb.len() {
		let w = xb[i].left as f64 * mk;
		if (yb[i].left as f64 - w).abs() > 2e-6 * w.abs() + 1e-12 {
			return Some((format!("compressor changed a signal below its threshold ({:.2} dB): in {:e} out {:e}", threshold, xb[i].left, yb[i].left), detail(&spec, sr, "below threshold unchanged")));
		}
	}
	// (b) DC step above threshold: attack time constant and steady-state reduction; then release
	let over_db = if extreme { r.f64_in((-threshold - 0.5).min(40.0), -threshold - 0.5) } else { r.f64_in(3.0, (-threshold - 0.5).min(30.0)) };
	if extreme {
		ctx.count("compressor_cases_with_60_dB_or_more_reduction", (over_db * (1.0 - 1.0 / ratio) >= 60.0) as u64);
	}
	let level = raw_amp(threshold + over_db);
	let n_att = (attack_s * sr as f64).round() as usize;
	let n_on = n_att * 12 + 2000;
	let n_rel = (release_s * sr as f64).round() as usize;
	let tail = raw_amp(threshold - 20.0);
	let mut x = vec![Frame::from_mono(level as f32); n_on];
	x.extend(vec![Frame::from_mono(tail as f32); n_rel * 3 + 100]);
	// in a third of the cases the instance has processed (quiet) audio at another device rate first: its time constants
	// are seconds, whatever rate it was running at before
	let before = if r.chance(0.33) { Some(*r.pick(&SAMPLE_RATES)) } else { None };
	let y = match before {
		None => run_effect(&spec, sr, 128, &x, &[128]),
		Some(b) => {
			ctx.count("compressor_step_checks_after_a_rate_change", 1);
			let mut fx = spec.build();
			fx.init(b, 128);
			let info = crate::probes::mock_info();
			let mut warm = vec![Frame::from_mono(tail as f32); 300];
			for c in warm.chunks_mut(128) {
				fx.on_start_processing();
				fx.process(c, 1.0 / b as f64, &info);
			}
			fx.on_change_sample_rate(sr);
			let mut out = x.clone();
			for (k, c) in out.chunks_mut(128).enumerate() {
				fx.on_start_processing();
				fx.process(c, 1.0 / sr as f64, &info);
				if k % 64 == 0 {
					crate::monitors::bump();
				}
			}
			out
		}
	};
	let spec_detail = |what: &str| {
		match before {
			Some(b) => detail(&spec, sr, &format!("{} (the instance ran at {} Hz before)", what, b)),
			None => detail(&spec, sr, what),
		}
	};
	let gr_db = |i: usize| db((y[i].left as f64 / mk) / x[i].left as f64);
	let want_ss = -over_db * (1.0 - 1.0 / ratio);
	let got_ss = gr_db(n_on - 1);
	ctx.count("compressor_step_checks", 1);
	if (got_ss - want_ss).abs() > 0.1 {
		return Some((format!("compressor steady-state gain {:.3} dB, documented (level-threshold)(1-1/ratio) = {:.3} dB (over {:.2} dB, ratio {:.3})", got_ss, want_ss, over_db, ratio), spec_detail("steady-state reduction")));
	}
	if want_ss.abs() > 0.5 && n_att >= 20 {
		// after one attack time the reduction reached 1 - 1/e of its final value (± 5 % of the final value)
		let frac = gr_db(n_att - 1) / want_ss;
		if (frac - (1.0 - (-1.0f64).exp())).abs() > 0.05 {
			return Some((format!("compressor attack: after {} frames (= attack time {:.4}s at {} Hz) the gain reduction is {:.1} % of its final value, expected 63.2 %{}", n_att, attack_s, sr, frac * 100.0, before.map(|b| format!(" (the effect ran at {} Hz before)", b)).unwrap_or_default()), spec_detail("attack time constant")));
		}
		if n_rel >= 20 {
			let fr = gr_db(n_on + n_rel - 1) / got_ss;
			if (fr - (-1.0f64).exp()).abs() > 0.05 {
				return Some((format!("compressor release: {} frames (= release time {:.4}s) after the level dropped the gain reduction is {:.1} % of its value, expected 36.8 % (reduction {:.3} dB then, {:.3} dB in the steady state; in {:e} out {:e}){}", n_rel, release_s, fr * 100.0, gr_db(n_on + n_rel - 1), got_ss, x[n_on + n_rel - 1].left, y[n_on + n_rel - 1].left, before.map(|b| format!(" (the effect ran at {} Hz before)", b)).unwrap_or_default()), spec_detail("release time constant")));
			}
		}
	}
	// (b2) the attack time given as a link to a modulator, through a mapping whose output range runs from a long to a short
	// duration or the other way round; the modulator rests at m: the attack time is the point m of the way between the two
	if r.chance(0.3) {
		use kira::effect::compressor::CompressorBuilder;
		use kira::effect::EffectBuilder;
		use std::time::Duration;
		let (long, short) = (r.f64_in(0.05, 0.2), r.f64_in(0.005, 0.02));
		let (d0, d1) = if r.chance(0.6) { (long, short) } else { (short, long) };
		let m = r.f64_in(0.2, 0.9);
		let mut ib = kira::info::MockInfoBuilder::new();
		let id = ib.add_modulator(m);
		let info = ib.build();
		let link = kira::Value::FromModulator { id, mapping: kira::Mapping { input_range: (0.0, 1.0), output_range: (Duration::from_secs_f64(d0), Duration::from_secs_f64(d1)), easing: kira::Easing::Linear } };
		let (mut fx, _h) = CompressorBuilder::new().threshold(-30.0).ratio(8.0).attack_duration(link).release_duration(Duration::from_secs(2)).mix(kira::Mix::WET).build();
		fx.init(sr, 128);
		let want = d0 + (d1 - d0) * m;
		let n = (want * 10.0 * sr as f64) as usize + 400;
		let mut y = vec![Frame::from_mono(0.5); n];
		let mut pos = 0;
		while pos < n {
			let k = 128.min(n - pos);
			fx.on_start_processing();
			fx.process(&mut y[pos..pos + k], 1.0 / sr as f64, &info);
			pos += k;
		}
		let red: Vec<f64> = y.iter().map(|f| db(f.left as f64 / 0.5)).collect();
		let last = red[n - 1];
		let t63 = red.iter().position(|x| *x <= 0.632 * last).unwrap_or(n) as f64 / sr as f64;
		ctx.count("compressor_mapped_attack_time_checks", 1);
		if last > -10.0 || (t63 - want).abs() > 0.06 * want + 3.0 / sr as f64 {
			return Some((format!("compressor whose attack time is mapped from a modulator through {:.4} s .. {:.4} s, modulator at {:.3} (attack {:.4} s): 63 % of the final reduction ({:.2} dB) is reached after {:.4} s (sr {})", d0, d1, m, want, last, t63, sr), detail(&spec, sr, "attack time from a mapping")));
		}
	}
	// (c) attack / release shorter than one sample period (0 or a microsecond): the attenuation follows the level at once
	if r.chance(0.4) && want_ss.abs() > 0.5 {
		let tiny = *r.pick(&[0.0f64, 1e-6, 2e-6]);
		let spec0 = FxSpec::Compressor { threshold, ratio, attack_s: tiny, release_s: tiny, makeup_db: makeup, mix: 1.0 };
		let mut x0 = vec![Frame::from_mono(tail as f32); 300];
		x0.extend(vec![Frame::from_mono(level as f32); 300]);
		x0.extend(vec![Frame::from_mono(tail as f32); 300]);
		let y0 = run_effect(&spec0, sr, 128, &x0, &[128]);
		let gr0 = |i: usize| db((y0[i].left as f64 / mk) / x0[i].left as f64);
		ctx.count("compressor_instant_time_constant_checks", 1);
		// one-pole envelope with coefficient c = exp(-dt / time constant) (0 for a zero time constant): after m frames the
		// attenuation has covered 1 - c^m of the way; the second loud / quiet frame is m = 1 or 2 depending on where the
		// detector sits in the frame, both are accepted
		let tq = std::time::Duration::from_secs_f64(tiny).as_secs_f64();
		let c = if tq > 0.0 { (-1.0 / (tq * sr as f64)).exp() } else { 0.0 };
		let (lo_f, hi_f) = (1.0 - c, 1.0 - c * c);
		let first_loud = gr0(301);
		if first_loud < want_ss - 0.1 || first_loud > want_ss * lo_f + 0.1 {
			return Some((format!("compressor with attack {} s at {} Hz: two frames after the level rose the gain reduction is {:.3} dB, the configured time constant gives between {:.3} and {:.3} dB (steady state {:.3} dB)", tiny, sr, first_loud, want_ss * lo_f, want_ss * hi_f, want_ss), detail(&spec0, sr, "attack shorter than a sample period")));
		}
		let first_quiet = gr0(601);
		if first_quiet < want_ss * c - 0.1 || first_quiet > 0.1 {
			return Some((format!("compressor with release {} s at {} Hz: two frames after the level dropped below the threshold the gain reduction is still {:.3} dB, the configured time constant leaves at most {:.3} dB", tiny, sr, first_quiet, want_ss * c), detail(&spec0, sr, "release shorter than a sample period")));
		}
	}
	if ctx.want_sample() && idx % 7 == 4 {
		ctx.sample(detail(&spec, sr, "compressor: below-threshold identity, steady-state reduction, attack/release time constants"));
	}
	None
}

pub fn run(ctx: &mut Ctx) {
	let n = ctx.t(64_000u64, 4_000_000u64);
	for i in 0..n {
		if !ctx.owns("tf", i) {
			continue;
		}
		if !ctx.replaying() && !ctx.time_left(0.92) {
			ctx.note("time budget reached before the case limit");
			break;
		}
		let mut r = Rng::for_case(ctx.seed, 1401, i);
		ctx.eval();
		crate::monitors::set_current(ctx, "tf", i, "transfer behaviour case", false);
		let kind = r.below(8);
		let res = super::guarded(|| match kind {
			0 | 1 => check_filter(ctx, i, &mut r),
			2 | 3 => check_eq(ctx, i, &mut r),
			4 => check_pointwise(ctx, i, &mut r),
			5 => check_delay(ctx, i, &mut r),
			6 => check_reverb(ctx, i, &mut r),
			_ => check_compressor(ctx, i, &mut r),
		});
		crate::monitors::clear_current();
		match res {
			Ok(None) => {}
			Ok(Some((w, d))) => ctx.violation("tf", i, &w, d),
			Err(p) => ctx.violation("tf", i, &format!("panic: {}", p.first().map(|p| p.sig()).unwrap_or_default()), J::Null),
		}
	}
}

pub fn confirm(_key: &str) -> Option<Option<String>> {
	None
}
