//! C13 — effect laws: dry mix is identity, silence stays silent, finite output, linearity,
//! partition independence (metamorphic relations between runs of fresh effect instances).

use kira::effect::distortion::DistortionKind;
use kira::Frame;

use crate::jobj;
use crate::probes::{run_effect, run_effect_after_rate_change, FxSpec, SAMPLE_RATES};
use crate::util::{Ctx, Rng, J};

#[derive(Clone, Copy, Debug)]
pub enum Sig {
	Noise,
	Impulses,
	Step,
	Dc,
	FullScaleSquare,
	Denormals,
	Sine,
	BurstThenSilence,
}

pub const SIGS: [Sig; 8] = [Sig::Noise, Sig::Impulses, Sig::Step, Sig::Dc, Sig::FullScaleSquare, Sig::Denormals, Sig::Sine, Sig::BurstThenSilence];

pub fn gen_signal(r: &mut Rng, sig: Sig, n: usize, sr: u32, amp: f32) -> Vec<Frame> {
	let f = r.log_in(10.0, sr as f64 / 2.0);
	let k0 = r.below((n / 2).max(1) as u64) as usize;
	(0..n)
		.map(|i| match sig {
			Sig::Noise => Frame::new(r.noise() * amp, r.noise() * amp),
			Sig::Impulses => {
				if i == k0 || (i > k0 && (i - k0) % 997 == 0) {
					Frame::new(amp, -amp)
				} else {
					Frame::ZERO
				}
			}
			Sig::Step => {
				if i >= k0 {
					Frame::new(amp, amp * 0.5)
				} else {
					Frame::ZERO
				}
			}
			Sig::Dc => Frame::new(0.7 * amp, -0.3 * amp),
			Sig::FullScaleSquare => {
				let s = if (i / 16) % 2 == 0 { 1.0 } else { -1.0 };
				Frame::new(s * amp, -s * amp)
			}
			Sig::Denormals => {
				let v = 1e-40f32 * (1 + (i % 7)) as f32;
				Frame::new(v, -v)
			}
			Sig::Sine => {
				let v = (std::f64::consts::TAU * f * i as f64 / sr as f64).sin() as f32 * amp;
				Frame::new(v, v * 0.8)
			}
			Sig::BurstThenSilence => {
				if i < n / 4 {
					Frame::new(r.noise() * amp, r.noise() * amp)
				} else {
					Frame::ZERO
				}
			}
		})
		.collect()
}

pub fn gen_partition(r: &mut Rng, ibs: usize) -> Vec<usize> {
	match r.below(5) {
		0 => vec![ibs],
		1 => vec![1],
		2 => (0..17).map(|_| r.usize_in(1, ibs)).collect(),
		3 => vec![ibs, 1, (ibs / 2).max(1), ibs],
		_ => vec![(ibs / 3).max(1), ibs],
	}
}

fn first_bad(out: &[Frame]) -> Option<usize> {
	out.iter().position(|f| !f.left.is_finite() || !f.right.is_finite())
}

fn max_abs(x: &[Frame]) -> f64 {
	x.iter().fold(0.0f64, |m, f| m.max(f.left.abs() as f64).max(f.right.abs() as f64))
}

pub fn spec_json(spec: &FxSpec, sr: u32, ibs: usize) -> J {
	jobj! {"effect" => format!("{:?}", spec), "sample_rate" => sr, "ibs" => ibs}
}

fn one_case(ctx: &mut Ctx, idx: u64, r: &mut Rng) {
	let sr = *r.pick(&SAMPLE_RATES);
	let ibs = *r.pick(&[1usize, 2, 3, 7, 16, 64, 128, 333, 1024]);
	let mut spec = FxSpec::gen(r, sr, 0);
	// known-finding trigger classes are excluded from bulk generation while they are listed
	let mut tries = 0;
	while let Some(k) = spec.known_trigger(sr) {
		if !ctx.known(k) {
			break;
		}
		ctx.exclude(k);
		spec = FxSpec::gen(r, sr, 0);
		tries += 1;
		if tries > 20 {
			return;
		}
	}
	let law = idx % 5;
	let n = if ctx.quick() { r.usize_in(500, 6000) } else { r.usize_in(2000, 40000) };
	let sig = *r.pick(&SIGS);
	let part = gen_partition(r, ibs);
	let detail = |extra: &str| {
		jobj! {"effect" => format!("{:?}", spec), "sample_rate" => sr, "ibs" => ibs, "signal" => format!("{:?}", sig), "frames" => n, "partition" => part.clone(), "law" => extra}
	};
	ctx.eval();
	let res = super::guarded(|| -> Option<(String, J)> {
		match law {
			0 => {
				// dry identity
				let mut dry = spec.clone();
				dry.make_dry();
				let x = gen_signal(r, sig, n, sr, 1.0);
				let y = run_effect(&dry, sr, ibs, &x, &part);
				for (i, (a, b)) in x.iter().zip(&y).enumerate() {
					if a.left != b.left || a.right != b.right {
						return Some((
							format!("{} set fully dry changed frame {}: in ({:e},{:e}) out ({:e},{:e})", dry.kind_name(), i, a.left, a.right, b.left, b.right),
							jobj! {"effect" => format!("{:?}", dry), "sample_rate" => sr, "ibs" => ibs, "signal" => format!("{:?}", sig), "law" => "dry identity"},
						));
					}
				}
				// an effect made dry (or a volume control set to 0 dB) through its HANDLE is the identity as well - also while a
				// further command is pending: an instant move whose start is delayed by several buffers, written one callback after
				// the move to dry. Until that delay has run out the parameter rests at dry / 0 dB.
				if idx % 2 == 1 {
					use kira::effect::filter::FilterBuilder;
					use kira::effect::volume_control::VolumeControlBuilder;
					use kira::effect::EffectBuilder;
					use kira::{Decibels, Mix, StartTime, Tween};
					use std::time::Duration;
					let chunk_s = ibs as f64 / sr as f64;
					let now = Tween { duration: Duration::ZERO, ..Default::default() };
					let w = r.usize_in(4, 9);
					let later = Tween { start_time: StartTime::Delayed(Duration::from_secs_f64(chunk_s * (w as f64 + 0.5))), duration: Duration::ZERO, ..Default::default() };
					let is_filter = r.chance(0.5);
					let mut fh = None;
					let mut vh = None;
					let mut fx: Box<dyn kira::effect::Effect> = if is_filter {
						let (fx, h) = FilterBuilder::new().cutoff(r.f64_in(200.0, 3000.0)).mix(Mix(r.f32_in(0.2, 1.0))).build();
						fh = Some(h);
						fx
					} else {
						let (fx, h) = VolumeControlBuilder::new(Decibels(r.f32_in(-20.0, -3.0))).build();
						vh = Some(h);
						fx
					};
					fx.init(sr, ibs);
					let info = crate::probes::mock_info();
					let x = gen_signal(r, sig, ibs * (w + 4), sr, 1.0);
					let mut y = x.clone();
					for (k, c) in y.chunks_mut(ibs).enumerate() {
						if k == 1 {
							if let Some(h) = fh.as_mut() {
								h.set_mix(Mix(0.0), now);
							}
							if let Some(h) = vh.as_mut() {
								h.set_volume(Decibels::IDENTITY, now);
							}
						}
						if k == 2 {
							if let Some(h) = fh.as_mut() {
								h.set_mix(Mix(r.f32_in(0.3, 1.0)), later);
							}
							if let Some(h) = vh.as_mut() {
								h.set_volume(Decibels(r.f32_in(-30.0, -6.0)), later);
							}
						}
						fx.on_start_processing();
						fx.process(c, 1.0 / sr as f64, &info);
					}
					// buffers 2 .. w: dry / 0 dB is in force (set in buffer 1, reached by its end) and the next move is w.5 buffers away
					if let Some(i) = (2 * ibs..(w + 1) * ibs).find(|i| x[*i] != y[*i]) {
						return Some((
							format!("{} set {} through its handle (instant), then a further instant move written one callback later with its start delayed by {}.5 buffers: while that is pending, frame {} of buffer {} differs: in ({:e},{:e}) out ({:e},{:e})", if is_filter { "filter" } else { "volume control" }, if is_filter { "fully dry" } else { "to 0 dB" }, w, i % ibs, i / ibs, x[i].left, x[i].right, y[i].left, y[i].right),
							detail("dry identity through the handle"),
						));
					}
				}
				// hard clip at 0 dB drive below full scale is transparent
				if idx % 3 == 0 {
					let hc = FxSpec::Distortion { kind: DistortionKind::HardClip, drive_db: 0.0, mix: 1.0 };
					let x = gen_signal(r, sig, n.min(2000), sr, 0.999);
					let y = run_effect(&hc, sr, ibs, &x, &part);
					if let Some(i) = x.iter().zip(&y).position(|(a, b)| a != b) {
						return Some((format!("hard clip at 0 dB changed frame {} below full scale", i), detail("hard clip transparent")));
					}
				}
				None
			}
			1 => {
				// silence -> silence from a cleared state
				let nn = if ctx.quick() { n * 4 } else { 100_000 };
				let x = vec![Frame::ZERO; nn];
				let y = run_effect(&spec, sr, ibs, &x, &part);
				if let Some(i) = y.iter().position(|f| f.left != 0.0 || f.right != 0.0) {
					return Some((format!("{}: silence in, frame {} out = ({:e},{:e})", spec.kind_name(), i, y[i].left, y[i].right), detail("silence")));
				}
				// a delay or reverb (with whatever is nested in the delay's feedback loop) is cleared by a change of the device's
				// sample rate: an instance that carried a tail at another rate maps silence to silence afterwards
				if cleared_by_rate_change(&spec, true) {
					ctx.count("silence_after_a_rate_change_checks", 1);
					let before = *r.pick(&crate::probes::SAMPLE_RATES);
					let mut fx = spec.build();
					fx.init(before, ibs);
					let info = crate::probes::mock_info();
					let mut warm = gen_signal(r, Sig::Noise, 3000, before, 0.5);
					for c in warm.chunks_mut(ibs) {
						fx.on_start_processing();
						fx.process(c, 1.0 / before as f64, &info);
					}
					fx.on_change_sample_rate(sr);
					let mut y = vec![Frame::ZERO; nn];
					for (k, c) in y.chunks_mut(ibs).enumerate() {
						fx.on_start_processing();
						fx.process(c, 1.0 / sr as f64, &info);
						if k % 64 == 0 {
							crate::monitors::bump();
						}
					}
					if let Some(i) = y.iter().position(|f| f.left != 0.0 || f.right != 0.0) {
						return Some((format!("{}: ran at {} Hz with a signal, then the sample rate changed to {} Hz (which clears it): silence in, frame {} out = ({:e},{:e})", spec.kind_name(), before, sr, i, y[i].left, y[i].right), detail("silence after a rate change")));
					}
				}
				None
			}
			2 => {
				// finite output for finite input, long run
				let nn = if ctx.quick() { n * 4 } else { n * 10 };
				let x = gen_signal(r, sig, nn, sr, 1.0);
				let y = run_effect(&spec, sr, ibs, &x, &part);
				if let Some(i) = first_bad(&y) {
					return Some((format!("{}: non-finite output ({:e},{:e}) at frame {} for finite input", spec.kind_name(), y[i].left, y[i].right, i), detail("finite")));
				}
				None
			}
			3 => {
				// superposition and scaling (linear effects, fixed parameters, fresh instances)
				if !spec.linear() {
					// nonlinear effect drawn: check finite output instead so the case is not wasted
					let x = gen_signal(r, sig, n, sr, 1.0);
					let y = run_effect(&spec, sr, ibs, &x, &part);
					if let Some(i) = first_bad(&y) {
						return Some((format!("{}: non-finite output at frame {}", spec.kind_name(), i), detail("finite")));
					}
					return None;
				}
				let x = gen_signal(r, sig, n, sr, 1.0);
				let sig2 = *r.pick(&SIGS);
				let y = gen_signal(r, sig2, n, sr, 1.0);
				let (a, b) = (r.f32_in(-2.0, 2.0), r.f32_in(-2.0, 2.0));
				let comb: Vec<Frame> = x.iter().zip(&y).map(|(p, q)| *p * a + *q * b).collect();
				let ex = run_effect(&spec, sr, ibs, &x, &part);
				let ey = run_effect(&spec, sr, ibs, &y, &part);
				let ec = run_effect(&spec, sr, ibs, &comb, &part);
				if first_bad(&ex).is_some() || first_bad(&ey).is_some() || first_bad(&ec).is_some() {
					return Some((format!("{}: non-finite output in linearity run", spec.kind_name()), detail("linearity")));
				}
				// L1 norm of the impulse response of this instance over the same window
				let mut imp = vec![Frame::ZERO; n];
				imp[0] = Frame::new(1.0, 1.0);
				let h = run_effect(&spec, sr, ibs, &imp, &part);
				let h1 = h.iter().fold(0.0f64, |s, f| s + f.left.abs().max(f.right.abs()) as f64).max(1.0);
				let scale = (a.abs() as f64) * max_abs(&x) + (b.abs() as f64) * max_abs(&y);
				// Tolerance: the instance's own f32 rounding-noise floor, measured (not modelled): for a linear
				// recursion E(s*x)/s - E(x) with a mantissa-scrambling s is the difference of two rounding-noise
				// realisations. Ill-conditioned settings (cutoff of a few Hz, cutoff at Nyquist) get the slack
				// their conditioning requires and nothing more; a floor of a few ulps of |h|_1*scale is added.
				let s_scr = 1.0f32 + 1.0 / 128.0 + 1.0 / 8192.0;
				let noise = |sig: &[Frame], out: &[Frame]| -> f64 {
					let scaled: Vec<Frame> = sig.iter().map(|p| *p * s_scr).collect();
					let es = run_effect(&spec, sr, ibs, &scaled, &part);
					es.iter().zip(out).fold(0.0f64, |m, (p, q)| {
						m.max((p.left as f64 / s_scr as f64 - q.left as f64).abs()).max((p.right as f64 / s_scr as f64 - q.right as f64).abs())
					})
				};
				let (nx, ny, nc) = (noise(&x, &ex), noise(&y, &ey), noise(&comb, &ec));
				let floor = 16.0 * (f32::EPSILON as f64) * h1 * scale.max(1e-30) * (1.0 + n as f64 / 512.0);
				// one realisation of the noise is a sample, not a bound: 64x margin (real non-linearities are
				// orders of magnitude above the noise floor)
				let tol = 64.0 * ((a.abs() as f64) * nx + (b.abs() as f64) * ny + nc) + floor + 1e-30;
				// the noise floor itself must be noise: more than 5 % of the signal is gross non-homogeneity
				let out_scale = max_abs(&ec).max(max_abs(&ex)).max(max_abs(&ey)).max(1e-30);
				if nx.max(ny).max(nc) > 0.05 * out_scale.max(scale) {
					return Some((
						format!("{}: not homogeneous: E(s*x)/s differs from E(x) by {:e} (output scale {:e})", spec.kind_name(), nx.max(ny).max(nc), out_scale),
						detail("homogeneity"),
					));
				}
				// exact homogeneity for a = -2: negation and scaling by a power of two commute exactly with
				// every f32 operation of a linear recursion (away from overflow and the denormal range)
				let xm2: Vec<Frame> = x.iter().map(|p| *p * -2.0).collect();
				let em2 = run_effect(&spec, sr, ibs, &xm2, &part);
				for i in 0..n {
					let (wl, wr) = (ex[i].left * -2.0, ex[i].right * -2.0);
					let tiny = 1e-35f32;
					if ((em2[i].left - wl).abs() > tiny && wl.abs() > 1e-30) || ((em2[i].right - wr).abs() > tiny && wr.abs() > 1e-30) {
						return Some((
							format!("{}: E(-2x) != -2E(x) at frame {}: ({:e},{:e}) vs ({:e},{:e}) (must be exact)", spec.kind_name(), i, em2[i].left, em2[i].right, wl, wr),
							detail("homogeneity"),
						));
					}
				}
				let mut worst = 0.0f64;
				let mut at = 0;
				for i in 0..n {
					let wl = ex[i].left as f64 * a as f64 + ey[i].left as f64 * b as f64;
					let wr = ex[i].right as f64 * a as f64 + ey[i].right as f64 * b as f64;
					let e = (ec[i].left as f64 - wl).abs().max((ec[i].right as f64 - wr).abs());
					if e > worst {
						worst = e;
						at = i;
					}
				}
				if worst > tol {
					return Some((
						format!("{}: superposition broken at frame {}: |E(ax+by) - aE(x) - bE(y)| = {:e} > tol {:e} (|h|_1 = {:e})", spec.kind_name(), at, worst, tol, h1),
						detail("linearity"),
					));
				}
				Some((format!("ok:{}", worst / tol), J::Null))
			}
			_ => {
				// partition independence
				let x = gen_signal(r, sig, n, sr, 1.0);
				let p2 = gen_partition(r, ibs);
				// one case in four: the instance first lived at another device rate (same warm-up in all three runs), so its
				// buffers were sized by init() for that rate and resized by on_change_sample_rate()
				let before = if r.chance(0.25) { Some(*r.pick(&SAMPLE_RATES)).filter(|b| *b != sr) } else { None };
				let run = |p: &[usize]| match before {
					Some(b) => run_effect_after_rate_change(&spec, b, sr, ibs, &x, p),
					None => run_effect(&spec, sr, ibs, &x, p),
				};
				if before.is_some() {
					ctx.count("partition_cases_after_a_sample_rate_change", 1);
				}
				let y1 = run(&part);
				let y2 = run(&p2);
				let y3 = run(&[1]);
				if first_bad(&y1).is_some() {
					return Some((format!("{}: non-finite output", spec.kind_name()), detail("finite")));
				}
				let sc = max_abs(&y1).max(1.0);
				for (i, ((a, b), c)) in y1.iter().zip(&y2).zip(&y3).enumerate() {
					let d = (a.left - b.left).abs().max((a.right - b.right).abs()).max((a.left - c.left).abs()).max((a.right - c.right).abs()) as f64;
					if d > 1e-6 * sc {
						return Some((
							format!("{}: output depends on how the input is split: frame {} differs by {:e} between partitions {:?} / {:?} / [1]", spec.kind_name(), i, d, part, p2),
							detail("partition independence"),
						));
					}
				}
				None
			}
		}
	});
	match res {
		Ok(None) => {}
		Ok(Some((w, d))) => {
			if let Some(rat) = w.strip_prefix("ok:") {
				ctx.maxf("linearity_max_err_over_tol", rat.parse().unwrap_or(0.0));
			} else {
				ctx.violation("fx", idx, &w, d);
			}
		}
		Err(p) => {
			let s = p.first().map(|p| p.sig()).unwrap_or_default();
			ctx.violation("fx", idx, &format!("{}: panic during process: {}", spec.kind_name(), s), detail("no panic"));
		}
	}
	let lawn = ["dry", "silence", "finite", "linear", "partition"][law as usize];
	ctx.count(&format!("law_{}", lawn), 1);
	ctx.count(&format!("effect_{}", spec.kind_name()), 1);
	ctx.distinct_str(&format!("{}|{}|{}|{:?}|{}", spec.kind_name(), lawn, sr, sig, spec_cell(&spec)));
	if ctx.want_sample() && idx % 37 == 0 {
		ctx.sample(detail(lawn));
	}
}

/// coarse parameter cell of a spec (for the distinct count)
/// top level: a delay or a reverb; nested in a delay's feedback loop: effects that are cleared by a rate change as well
/// (delay, reverb) or that hold no signal of their own (filters and EQ bands keep their integrator state)
fn cleared_by_rate_change(s: &FxSpec, top: bool) -> bool {
	match s {
		FxSpec::Delay { inner, .. } => inner.iter().all(|x| cleared_by_rate_change(x, false)),
		FxSpec::Reverb { .. } => true,
		FxSpec::Volume { .. } | FxSpec::Panning { .. } | FxSpec::Distortion { .. } | FxSpec::Compressor { .. } => !top,
		FxSpec::Filter { .. } | FxSpec::Eq { .. } => false,
	}
}

fn spec_cell(s: &FxSpec) -> String {
	fn q(x: f64, step: f64) -> i64 {
		(x / step).floor() as i64
	}
	match s {
		FxSpec::Filter { mode, cutoff, resonance, mix } => format!("{:?}{}{}{}", mode, q(cutoff.max(1e-3).log10(), 0.5), q(*resonance, 0.34), q(*mix as f64, 0.34)),
		FxSpec::Eq { kind, freq, gain_db, q: qq } => format!("{:?}{}{}{}", kind, q(freq.max(1e-3).log10(), 0.5), q(*gain_db as f64, 12.0), q(*qq, 5.0)),
		FxSpec::Delay { time_s, feedback_db, inner, .. } => format!("{}{}{}", q(time_s.max(1e-7).log10(), 1.0), q(*feedback_db as f64, 20.0), inner.len()),
		FxSpec::Reverb { feedback, damping, .. } => format!("{}{}", q(*feedback, 0.34), q(*damping, 0.34)),
		FxSpec::Compressor { threshold, ratio, .. } => format!("{}{}", q(*threshold, 20.0), q(ratio.log10(), 1.0)),
		FxSpec::Distortion { kind, drive_db, .. } => format!("{:?}{}", kind, q(*drive_db as f64, 20.0)),
		FxSpec::Volume { db } => format!("{}", q(*db as f64, 20.0)),
		FxSpec::Panning { p } => format!("{}", q(*p as f64, 0.5)),
	}
}

pub fn run(ctx: &mut Ctx) {
	let n = ctx.t(400_000u64, 30_000_000u64);
	for i in 0..n {
		if !ctx.owns("fx", i) {
			continue;
		}
		if !ctx.replaying() && !ctx.time_left(0.9) {
			ctx.note("time budget reached before the case limit");
			break;
		}
		let mut r = Rng::for_case(ctx.seed, 1301, i);
		crate::monitors::set_current(ctx, "fx", i, "effect law case", false);
		one_case(ctx, i, &mut r);
		crate::monitors::clear_current();
	}
}

pub fn confirm(key: &str) -> Option<Option<String>> {
	let sr = 48000;
	match key {
		"C13.distortion_drive_silence" => {
			let spec = FxSpec::Distortion { kind: DistortionKind::HardClip, drive_db: -60.0, mix: 1.0 };
			let x = vec![Frame::new(0.5, -0.25); 64];
			let r = super::guarded(|| run_effect(&spec, sr, 64, &x, &[64]));
			Some(match r {
				Ok(y) => first_bad(&y).map(|i| format!("Distortion with drive -60 dB (Decibels::SILENCE) outputs {:e} for finite input 0.5 at frame {} (0/0 in `output /= drive`)", y[i].left, i)),
				Err(p) => Some(format!("panic: {}", p.first().map(|p| p.sig()).unwrap_or_default())),
			})
		}
		"C13.delay_shorter_than_one_frame" => {
			let spec = FxSpec::Delay { time_s: 0.0, feedback_db: -6.0, mix: 0.5, inner: vec![] };
			let x = vec![Frame::new(0.5, -0.25); 64];
			let r = super::guarded(|| run_effect(&spec, sr, 64, &x, &[64]));
			Some(match r {
				Ok(_) => None,
				Err(p) => Some(format!("Delay with delay_time 0 (< 1 frame) panics in process: {}", p.first().map(|p| p.sig()).unwrap_or_default())),
			})
		}
		_ => None,
	}
}
