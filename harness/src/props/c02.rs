//! C02 — mixer output equals the documented signal-flow sum; nothing leaks or is lost.
//! Probe sounds (known per-frame signal, call log) and probe effects (affine map, call log)
//! through the real AudioManager/Renderer; an independent f64 model of the documented flow.

use std::sync::atomic::{AtomicBool, Ordering};
use std::sync::{Arc, Mutex};
use std::time::Duration;

use kira::effect::{Effect, EffectBuilder};
use kira::info::Info;
use kira::sound::{Sound, SoundData};
use kira::track::{MainTrackBuilder, SendTrackBuilder, SendTrackHandle, TrackBuilder, TrackHandle};
use kira::{Decibels, Frame, Tween};

use crate::jobj;
use crate::refmodel::db_to_amp;
use crate::rig::{Rig, RigConfig};
use crate::util::{Ctx, Rng, J};

// ---------------------------------------------------------------- probes

#[derive(Default)]
pub struct CallLog {
	/// frames processed in the current callback window
	pub frames_this_cb: u64,
	pub calls_this_cb: u64,
	pub max_slice: usize,
	pub bad_dt: Option<f64>,
	pub osp_this_cb: u64,
	pub total_frames: u64,
}

pub type Log = Arc<Mutex<CallLog>>;

pub fn signal(amp: f32, prime: u64, n: u64) -> f32 {
	amp * ((((n * prime) % 97) as f32) / 97.0 + 0.25)
}

pub struct ProbeSound {
	pub amp: f32,
	pub prime: u64,
	pub n: u64,
	pub log: Log,
	pub stop: Arc<AtomicBool>,
	pub expected_dt: f64,
}

impl Sound for ProbeSound {
	fn on_start_processing(&mut self) {
		self.log.lock().unwrap().osp_this_cb += 1;
	}
	fn process(&mut self, out: &mut [Frame], dt: f64, _info: &Info) {
		for f in out.iter_mut() {
			let v = signal(self.amp, self.prime, self.n);
			*f = Frame::new(v, -0.5 * v);
			self.n += 1;
		}
		let mut l = self.log.lock().unwrap();
		l.frames_this_cb += out.len() as u64;
		l.total_frames += out.len() as u64;
		l.calls_this_cb += 1;
		l.max_slice = l.max_slice.max(out.len());
		if dt != self.expected_dt {
			l.bad_dt = Some(dt);
		}
	}
	fn finished(&self) -> bool {
		self.stop.load(Ordering::SeqCst)
	}
}

pub struct ProbeSoundData(pub ProbeSound);
impl SoundData for ProbeSoundData {
	type Error = ();
	type Handle = ();
	fn into_sound(self) -> Result<(Box<dyn Sound>, ()), ()> {
		Ok((Box::new(self.0), ()))
	}
}

/// affine, order-sensitive: left -> g*left + c, right -> g*right - c/2
pub struct ProbeEffect {
	pub g: f32,
	pub c: f32,
	pub log: Log,
	pub expected_dt: f64,
}
impl Effect for ProbeEffect {
	fn on_start_processing(&mut self) {
		self.log.lock().unwrap().osp_this_cb += 1;
	}
	fn process(&mut self, input: &mut [Frame], dt: f64, _info: &Info) {
		for f in input.iter_mut() {
			*f = Frame::new(self.g * f.left + self.c, self.g * f.right - 0.5 * self.c);
		}
		let mut l = self.log.lock().unwrap();
		l.frames_this_cb += input.len() as u64;
		l.total_frames += input.len() as u64;
		l.calls_this_cb += 1;
		l.max_slice = l.max_slice.max(input.len());
		if dt != self.expected_dt {
			l.bad_dt = Some(dt);
		}
	}
}
pub struct ProbeEffectBuilder(pub ProbeEffect);
impl EffectBuilder for ProbeEffectBuilder {
	type Handle = ();
	fn build(self) -> (Box<dyn Effect>, ()) {
		(Box::new(self.0), ())
	}
}

// ---------------------------------------------------------------- model

#[derive(Clone)]
struct MFx {
	g: f64,
	c: f64,
	log: Log,
}

struct MSound {
	amp: f32,
	prime: u64,
	n: u64,
	alive: bool,
	stop_flag: Arc<AtomicBool>,
	log: Log,
	/// callbacks until removal once stopped: 1 if the audio thread had picked it up, 2 otherwise
	remove_in: Option<u8>,
	picked_up: bool,
}

struct MTrack {
	id: usize,
	alive: bool,
	/// the handle was dropped (alone, or with the whole subtree): the track goes at the first callback at whose start it
	/// and every track below it that the audio thread holds have lost their handles - and takes the subtree with it
	dropped: bool,
	remove_in: Option<u8>,
	picked_up: bool,
	paused: bool,
	pause_pending: Option<bool>,
	vol_db: f32,
	vol_pending: Option<f32>,
	fx: Vec<MFx>,
	routes: Vec<(usize, f32)>,
	/// send-route volume changes under way: (route index, new dB, frames until the tween has certainly ended)
	route_pending: Vec<(usize, f32, i64)>,
	sounds: Vec<MSound>,
	children: Vec<MTrack>,
	handle: Option<TrackHandle>,
	depth: u32,
}

struct MSend {
	alive: bool,
	remove_in: Option<u8>,
	picked_up: bool,
	vol_db: f32,
	fx: Vec<MFx>,
	handle: Option<SendTrackHandle>,
	input: (f64, f64),
	abs_in: f64,
}

/// returns (left, right, sum of |contributions|) of the track for one frame
fn eval_track(t: &mut MTrack, sends: &mut [MSend]) -> (f64, f64, f64) {
	if !t.alive || t.paused {
		return (0.0, 0.0, 0.0);
	}
	let (mut l, mut r, mut a) = (0.0, 0.0, 0.0);
	for c in t.children.iter_mut() {
		let (cl, cr, ca) = eval_track(c, sends);
		l += cl;
		r += cr;
		a += ca;
	}
	for s in t.sounds.iter_mut() {
		if s.alive {
			let v = signal(s.amp, s.prime, s.n) as f64;
			s.n += 1;
			l += v;
			r += -0.5 * v;
			a += v.abs();
		}
	}
	for f in &t.fx {
		l = f.g * l + f.c;
		r = f.g * r - 0.5 * f.c;
		a = f.g.abs() * a + f.c.abs();
	}
	let v = db_to_amp(t.vol_db as f64);
	l *= v;
	r *= v;
	a *= v;
	for (si, db) in &t.routes {
		let s = &mut sends[*si];
		if s.alive {
			let rv = db_to_amp(*db as f64);
			s.input.0 += l * rv;
			s.input.1 += r * rv;
			s.abs_in += a * rv;
		}
	}
	(l, r, a)
}

struct Model {
	tracks: Vec<MTrack>,
	sends: Vec<MSend>,
	main_sounds: Vec<MSound>,
	main_fx: Vec<MFx>,
	main_vol_db: f32,
	main_vol_pending: Option<f32>,
}

impl Model {
	/// effects of commands issued since the previous callback take hold; returns true when this callback
	/// contains a fade ramp (resume / volume change) and is not compared sample-exactly
	fn on_callback_start(&mut self, frames: usize) -> bool {
		let mut transition = false;
		fn tick(alive: &mut bool, remove_in: &mut Option<u8>, picked_up: &mut bool) {
			if let Some(k) = *remove_in {
				if k <= 1 {
					*alive = false;
					*remove_in = None;
				} else {
					*remove_in = Some(k - 1);
				}
			}
			*picked_up = true;
		}
		fn all_marked(t: &MTrack) -> bool {
			t.dropped && t.children.iter().filter(|c| c.alive && c.picked_up).all(all_marked)
		}
		fn kill(t: &mut MTrack) {
			t.alive = false;
			for c in t.children.iter_mut() {
				kill(c);
			}
		}
		fn walk(t: &mut MTrack, transition: &mut bool, frames: usize, ancestors_running: bool) {
			if t.alive && t.remove_in.is_none() && t.picked_up && all_marked(t) {
				// (decided by the parent before the track's own callback work: children added since the previous callback do not count)
				kill(t);
			}
			tick(&mut t.alive, &mut t.remove_in, &mut t.picked_up);
			// route volume tweens run whenever the track is processed, i.e. its ancestors are not paused (whether the track
			// itself is paused does not matter); while one may be under way the callback is a ramp
			if ancestors_running {
				for p in t.route_pending.iter_mut() {
					*transition = true;
					p.2 -= frames as i64;
					if p.2 <= 0 {
						t.routes[p.0].1 = p.1;
					}
				}
				t.route_pending.retain(|p| p.2 > 0);
			}
			if let Some(p) = t.pause_pending.take() {
				if t.paused && !p {
					*transition = true;
				}
				t.paused = p;
			}
			if let Some(v) = t.vol_pending.take() {
				t.vol_db = v;
				*transition = true;
			}
			for s in t.sounds.iter_mut() {
				tick(&mut s.alive, &mut s.remove_in, &mut s.picked_up);
			}
			let running = ancestors_running && t.alive && !t.paused;
			for c in t.children.iter_mut() {
				walk(c, transition, frames, running);
			}
		}
		for t in self.tracks.iter_mut() {
			walk(t, &mut transition, frames, true);
		}
		for s in self.sends.iter_mut() {
			tick(&mut s.alive, &mut s.remove_in, &mut s.picked_up);
		}
		for s in self.main_sounds.iter_mut() {
			tick(&mut s.alive, &mut s.remove_in, &mut s.picked_up);
		}
		if let Some(v) = self.main_vol_pending.take() {
			self.main_vol_db = v;
			transition = true;
		}
		transition
	}

	fn frame(&mut self) -> (f64, f64, f64) {
		for s in self.sends.iter_mut() {
			s.input = (0.0, 0.0);
			s.abs_in = 0.0;
		}
		let (mut l, mut r, mut a) = (0.0, 0.0, 0.0);
		let sends = &mut self.sends;
		for t in self.tracks.iter_mut() {
			let (tl, tr, ta) = eval_track(t, sends);
			l += tl;
			r += tr;
			a += ta;
		}
		for s in self.sends.iter_mut() {
			if !s.alive {
				continue;
			}
			let (mut sl, mut sr, mut sa) = (s.input.0, s.input.1, s.abs_in);
			for f in &s.fx {
				sl = f.g * sl + f.c;
				sr = f.g * sr - 0.5 * f.c;
				sa = f.g.abs() * sa + f.c.abs();
			}
			let v = db_to_amp(s.vol_db as f64);
			l += sl * v;
			r += sr * v;
			a += sa * v;
		}
		for s in self.main_sounds.iter_mut() {
			if s.alive {
				let v = signal(s.amp, s.prime, s.n) as f64;
				s.n += 1;
				l += v;
				r += -0.5 * v;
				a += v.abs();
			}
		}
		for f in &self.main_fx {
			l = f.g * l + f.c;
			r = f.g * r - 0.5 * f.c;
			a = f.g.abs() * a + f.c.abs();
		}
		let v = db_to_amp(self.main_vol_db as f64);
		(l * v, r * v, a * v)
	}
}

// ---------------------------------------------------------------- scenario

struct Gen<'a> {
	r: &'a mut Rng,
	dt: f64,
	next_prime: usize,
	next_id: usize,
	zero_offsets: bool,
}

const PRIMES: [u64; 24] = [3, 5, 7, 11, 13, 17, 19, 23, 29, 31, 37, 41, 43, 47, 53, 59, 61, 67, 71, 73, 79, 83, 89, 101];

impl<'a> Gen<'a> {
	fn new_log() -> Log {
		Arc::new(Mutex::new(CallLog::default()))
	}
	fn sound(&mut self) -> (ProbeSoundData, MSound) {
		let amp = self.r.f32_in(0.004, 0.02);
		let prime = PRIMES[self.next_prime % PRIMES.len()];
		self.next_prime += 1;
		let log = Self::new_log();
		let stop = Arc::new(AtomicBool::new(false));
		(
			ProbeSoundData(ProbeSound { amp, prime, n: 0, log: log.clone(), stop: stop.clone(), expected_dt: self.dt }),
			MSound { amp, prime, n: 0, alive: true, stop_flag: stop, log, remove_in: None, picked_up: false },
		)
	}
	fn fx(&mut self) -> (ProbeEffectBuilder, MFx) {
		let g = *self.r.pick(&[1.0f32, 0.5, -0.75, 1.25, 0.9]);
		let c = if self.zero_offsets || self.r.chance(0.5) { 0.0 } else { self.r.f32_in(-0.003, 0.003) };
		let log = Self::new_log();
		(ProbeEffectBuilder(ProbeEffect { g, c, log: log.clone(), expected_dt: self.dt }), MFx { g: g as f64, c: c as f64, log })
	}
	fn track_builder(&mut self, sends: &[MSend]) -> (TrackBuilder, Vec<MFx>, Vec<(usize, f32)>, f32) {
		// (also tracks at or below -60 dB: silent, but their sounds, effects, children and the children's sends still run)
		let vol = if self.r.chance(0.4) { 0.0 } else if self.r.chance(0.12) { *self.r.pick(&[-60.0f32, -80.0, -61.0]) } else { self.r.f32_in(-18.0, 3.0) };
		let mut b = TrackBuilder::new().volume(Decibels(vol));
		let mut fxs = vec![];
		for _ in 0..self.r.below(3) {
			let (e, m) = self.fx();
			b = b.with_effect(e);
			fxs.push(m);
		}
		let mut routes = vec![];
		for (i, s) in sends.iter().enumerate() {
			if let (Some(h), true) = (&s.handle, self.r.chance(0.5)) {
				let db = self.r.f32_in(-18.0, 0.0);
				b = b.with_send(h, Decibels(db));
				routes.push((i, db));
			}
		}
		(b, fxs, routes, vol)
	}
}

fn instant() -> Tween {
	Tween { duration: Duration::ZERO, ..Default::default() }
}

fn for_each_track<'a>(ts: &'a mut Vec<MTrack>, f: &mut dyn FnMut(&mut MTrack)) {
	for t in ts.iter_mut() {
		f(t);
		for_each_track(&mut t.children, f);
	}
}

fn count_alive(ts: &Vec<MTrack>) -> usize {
	ts.iter().filter(|t| t.alive && t.remove_in.is_none()).map(|t| 1 + count_alive(&t.children)).sum()
}

/// picks the k-th alive track (pre-order) and applies f
fn with_kth<'a>(ts: &'a mut Vec<MTrack>, k: &mut usize, f: &mut dyn FnMut(&mut MTrack)) -> bool {
	for t in ts.iter_mut() {
		if !(t.alive && t.remove_in.is_none()) {
			continue;
		}
		if *k == 0 {
			f(t);
			return true;
		}
		*k -= 1;
		if with_kth(&mut t.children, k, f) {
			return true;
		}
	}
	false
}

fn mark_dropped(t: &mut MTrack) {
	// drop the handles of the whole subtree, children first (removal rules with live children belong to C12)
	for c in t.children.iter_mut() {
		mark_dropped(c);
	}
	t.handle = None;
	t.dropped = true;
	if t.remove_in.is_none() {
		t.remove_in = Some(if t.picked_up { 1 } else { 2 });
	}
}

fn one_case(ctx: &mut Ctx, idx: u64, r: &mut Rng) {
	let sr = *r.pick(&[8000u32, 44100, 48000, 96000]);
	let ibs = *r.pick(&[1usize, 3, 16, 64, 128, 333]);
	let dt = 1.0 / sr as f64;
	let zero_offsets = r.chance(0.4);
	let mut log_lines: Vec<String> = vec![];
	let res = super::guarded(|| -> Result<(u64, u64, usize), String> {
		let mut g = Gen { r, dt, next_prime: 0, next_id: 0, zero_offsets };
		// main track
		let main_vol = if g.r.chance(0.5) { 0.0 } else { g.r.f32_in(-12.0, 3.0) };
		let mut mb = MainTrackBuilder::new().volume(Decibels(main_vol));
		let mut main_fx = vec![];
		for _ in 0..g.r.below(3) {
			let (e, m) = g.fx();
			mb = mb.with_effect(e);
			main_fx.push(m);
		}
		let mut rig = Rig::new(RigConfig { sample_rate: sr, ibs, channels: 2, ..Default::default() }, mb);
		rig.watch_alloc = false;
		let mut model = Model { tracks: vec![], sends: vec![], main_sounds: vec![], main_fx, main_vol_db: main_vol, main_vol_pending: None };
		// sends
		for _ in 0..g.r.below(4) {
			let vol = g.r.f32_in(-12.0, 0.0);
			let mut sb = SendTrackBuilder::new().volume(Decibels(vol));
			let mut fxs = vec![];
			for _ in 0..g.r.below(3) {
				let (e, m) = g.fx();
				sb = sb.with_effect(e);
				fxs.push(m);
			}
			let h = rig.mgr.add_send_track(sb).map_err(|_| "send limit")?;
			model.sends.push(MSend { alive: true, remove_in: None, picked_up: false, vol_db: vol, fx: fxs, handle: Some(h), input: (0.0, 0.0), abs_in: 0.0 });
		}
		let n_callbacks = 12 + g.r.below(30) as usize;
		let mut compared = 0u64;
		let mut skipped = 0u64;
		let mut max_sources = 0usize;
		for cb in 0..n_callbacks {
			// ---- operations between callbacks
			let n_ops = if cb == 0 { 4 + g.r.below(5) } else { g.r.below(3) };
			for _ in 0..n_ops {
				let alive = count_alive(&model.tracks);
				match g.r.below(10) {
					0 | 1 => {
						// add a top-level track or a nested one
						let (b, fxs, routes, vol) = g.track_builder(&model.sends);
						let id = g.next_id;
						g.next_id += 1;
						if alive > 0 && g.r.chance(0.6) {
							let mut k = g.r.below(alive as u64) as usize;
							let mut new: Option<MTrack> = None;
							let mut b = Some(b);
							let mut depth_ok = true;
							with_kth(&mut model.tracks, &mut k, &mut |t: &mut MTrack| {
								if t.depth >= 3 {
									depth_ok = false;
									return;
								}
								if let Some(h) = t.handle.as_mut() {
									if let Ok(nh) = h.add_sub_track(b.take().unwrap()) {
										new = Some(MTrack { id, alive: true, dropped: false, remove_in: None, picked_up: false, paused: false, pause_pending: None, vol_db: vol, vol_pending: None, fx: fxs.clone(), routes: routes.clone(), route_pending: vec![], sounds: vec![], children: vec![], handle: Some(nh), depth: t.depth + 1 });
									}
								}
								if let Some(n) = new.take() {
									t.children.push(n);
								}
							});
							let _ = depth_ok;
							log_lines.push(format!("cb{}: add nested track {}", cb, id));
						} else {
							let h = rig.mgr.add_sub_track(b).map_err(|_| "track limit")?;
							model.tracks.push(MTrack { id, alive: true, dropped: false, remove_in: None, picked_up: false, paused: false, pause_pending: None, vol_db: vol, vol_pending: None, fx: fxs, routes, route_pending: vec![], sounds: vec![], children: vec![], handle: Some(h), depth: 0 });
							log_lines.push(format!("cb{}: add track {}", cb, id));
						}
					}
					2 | 3 | 4 => {
						// play a probe sound on a track or on the main track
						let (d, m) = g.sound();
						if alive > 0 && g.r.chance(0.8) {
							let mut k = g.r.below(alive as u64) as usize;
							let mut d = Some(d);
							let mut m = Some(m);
							with_kth(&mut model.tracks, &mut k, &mut |t: &mut MTrack| {
								if let Some(h) = t.handle.as_mut() {
									if h.play(d.take().unwrap()).is_ok() {
										t.sounds.push(m.take().unwrap());
									}
								}
							});
						} else if rig.mgr.play(d).is_ok() {
							model.main_sounds.push(m);
						}
					}
					5 => {
						// stop a sound
						let mut all: Vec<&mut MSound> = vec![];
						fn collect<'a>(ts: &'a mut Vec<MTrack>, all: &mut Vec<&'a mut MSound>) {
							for t in ts.iter_mut() {
								for s in t.sounds.iter_mut() {
									all.push(s);
								}
								collect(&mut t.children, all);
							}
						}
						collect(&mut model.tracks, &mut all);
						for s in model.main_sounds.iter_mut() {
							all.push(s);
						}
						let live: Vec<usize> = all.iter().enumerate().filter(|(_, s)| s.alive && s.remove_in.is_none()).map(|(i, _)| i).collect();
						if !live.is_empty() {
							let i = live[g.r.below(live.len() as u64) as usize];
							all[i].stop_flag.store(true, Ordering::SeqCst);
							all[i].remove_in = Some(if all[i].picked_up { 1 } else { 2 });
						}
					}
					6 if alive > 0 => {
						// pause / resume a track (instant fades)
						let mut k = g.r.below(alive as u64) as usize;
						let want_pause = g.r.chance(0.6);
						with_kth(&mut model.tracks, &mut k, &mut |t: &mut MTrack| {
							// one pause-or-resume per track per interval: the order in which different command kinds
							// issued in the same interval are applied is not fixed by the property (see C07)
							if t.pause_pending.is_some() {
								return;
							}
							if let Some(h) = t.handle.as_mut() {
								let cur = t.pause_pending.unwrap_or(t.paused);
								if want_pause && !cur {
									h.pause(instant());
									t.pause_pending = Some(true);
									log_lines.push(format!("cb{}: pause track {}", cb, t.id));
								} else if !want_pause && cur {
									h.resume(instant());
									t.pause_pending = Some(false);
									log_lines.push(format!("cb{}: resume track {}", cb, t.id));
								}
							}
						});
					}
					7 if alive > 0 => {
						// set a track volume (instant)
						let mut k = g.r.below(alive as u64) as usize;
						let v = if g.r.chance(0.12) { *g.r.pick(&[-60.0f32, -80.0]) } else { g.r.f32_in(-18.0, 3.0) };
						with_kth(&mut model.tracks, &mut k, &mut |t: &mut MTrack| {
							if let Some(h) = t.handle.as_mut() {
								h.set_volume(Decibels(v), instant());
								t.vol_pending = Some(v);
							}
						});
					}
					7 | 8 if alive > 0 && g.r.chance(0.35) => {
						// change a send-route volume with a tween of 0..3 internal buffers (also on paused tracks: the tween runs on)
						let mut k = g.r.below(alive as u64) as usize;
						let v = g.r.f32_in(-18.0, 0.0);
						let chunks = g.r.f64_in(0.0, 3.0);
						let which = g.r.below(8) as usize;
						let sends_ids: Vec<Option<kira::track::SendTrackId>> = model.sends.iter().map(|s| s.handle.as_ref().map(|h| h.id())).collect();
						with_kth(&mut model.tracks, &mut k, &mut |t: &mut MTrack| {
							if t.routes.is_empty() || !t.route_pending.is_empty() {
								return;
							}
							let ri = which % t.routes.len();
							let si = t.routes[ri].0;
							if let (Some(h), Some(Some(id))) = (t.handle.as_mut(), sends_ids.get(si)) {
								let tw = kira::Tween { duration: std::time::Duration::from_secs_f64(chunks * ibs as f64 / sr as f64), ..Default::default() };
								if h.set_send(*id, Decibels(v), tw).is_ok() {
									t.route_pending.push((ri, v, (chunks.ceil() as i64 + 2) * ibs as i64));
									log_lines.push(format!("cb{}: set_send(route {} of track {}, {} dB over {:.2} buffers)", cb, ri, t.id, v, chunks));
								}
							}
						});
					}
					8 if alive > 0 && cb > 0 => {
						// drop a track (with its subtree)
						let mut k = g.r.below(alive as u64) as usize;
						let alone = g.r.chance(0.5);
						with_kth(&mut model.tracks, &mut k, &mut |t: &mut MTrack| {
							if alone {
								// only this track's handle: the track stays (and keeps sounding) for as long as a track below it is kept
								if t.handle.take().is_some() {
									t.dropped = true;
									log_lines.push(format!("cb{}: drop the handle of track {} alone (picked up: {}, {} children)", cb, t.id, t.picked_up, t.children.iter().filter(|c| c.alive).count()));
								}
								return;
							}
							log_lines.push(format!("cb{}: drop track {} (picked up: {})", cb, t.id, t.picked_up));
							mark_dropped(t)
						});
					}
					9 if cb > 2 => {
						// drop a send track
						let live: Vec<usize> = model.sends.iter().enumerate().filter(|(_, s)| s.alive && s.remove_in.is_none()).map(|(i, _)| i).collect();
						if !live.is_empty() && g.r.chance(0.5) {
							let i = live[g.r.below(live.len() as u64) as usize];
							model.sends[i].handle = None;
							model.sends[i].remove_in = Some(if model.sends[i].picked_up { 1 } else { 2 });
						} else if g.r.chance(0.3) {
							let v = g.r.f32_in(-12.0, 3.0);
							rig.mgr.main_track().set_volume(Decibels(v), instant());
							model.main_vol_pending = Some(v);
						}
					}
					_ => {}
				}
			}
			// ---- the callback
			let frames = match g.r.below(5) {
				0 => 1,
				1 => ibs,
				2 => ibs * 2 + 1,
				_ => g.r.usize_in(1, ibs * 3 + 5),
			};
			// effects of the commands issued since the previous callback take hold at its start
			let transition = model.on_callback_start(frames);
			// per-callback call logs: (log, expected to be processed in this callback, name)
			let mut logs: Vec<(Log, bool, String)> = vec![];
			fn gather(ts: &Vec<MTrack>, anc_ok: bool, logs: &mut Vec<(Log, bool, String)>) {
				for t in ts {
					let ok = anc_ok && t.alive && !t.paused;
					for s in &t.sounds {
						logs.push((s.log.clone(), ok && s.alive, format!("sound on track {}", t.id)));
					}
					for f in &t.fx {
						logs.push((f.log.clone(), ok, format!("effect on track {}", t.id)));
					}
					gather(&t.children, ok, logs);
				}
			}
			gather(&model.tracks, true, &mut logs);
			for s in &model.sends {
				for f in &s.fx {
					logs.push((f.log.clone(), s.alive, "effect on send".into()));
				}
			}
			for s in &model.main_sounds {
				logs.push((s.log.clone(), s.alive, "sound on main".into()));
			}
			for f in &model.main_fx {
				logs.push((f.log.clone(), true, "effect on main".into()));
			}
			for (l, _, _) in &logs {
				let mut l = l.lock().unwrap();
				l.frames_this_cb = 0;
				l.calls_this_cb = 0;
				l.max_slice = 0;
				l.osp_this_cb = 0;
			}
			let out = rig.callback(frames).to_vec();
			// ---- call-log checks: every live sound/effect asked for every frame exactly once, slices <= ibs
			for (l, expected, name) in &logs {
				let l = l.lock().unwrap();
				let want = if *expected { frames as u64 } else { 0 };
				if l.frames_this_cb != want {
					return Err(format!("callback {} ({} frames): {} was asked for {} frames, expected {} [{}]", cb, frames, name, l.frames_this_cb, want, log_lines.join("; ")));
				}
				if l.max_slice > ibs {
					return Err(format!("callback {}: {} got a slice of {} frames > internal buffer size {}", cb, name, l.max_slice, ibs));
				}
				if let Some(d) = l.bad_dt {
					return Err(format!("callback {}: {} saw dt {} instead of {}", cb, name, d, dt));
				}
			}
			// ---- output vs the documented sum
			let mut sources = 0;
			for f in 0..frames {
				let (wl, wr, wa) = model.frame();
				if transition {
					continue;
				}
				let (gl, gr) = (out[2 * f] as f64, out[2 * f + 1] as f64);
				let tol = 2e-5 * wa + 1e-9;
				if wa == 0.0 {
					if gl != 0.0 || gr != 0.0 {
						return Err(format!("callback {} frame {}: output ({:e},{:e}) but nothing is routed to the output (exact silence required) [{}]", cb, f, gl, gr, log_lines.join("; ")));
					}
				} else if (gl - wl).abs() > tol || (gr - wr).abs() > tol {
					return Err(format!("callback {} frame {} ({} frames, ibs {}): output ({:e},{:e}) != documented signal-flow sum ({:e},{:e}) (tolerance {:e}) [{}]", cb, f, frames, ibs, gl, gr, wl, wr, tol, log_lines.join("; ")));
				}
				if wa > 0.0 {
					sources += 1;
				}
			}
			if transition {
				skipped += frames as u64;
			} else {
				compared += frames as u64;
			}
			max_sources = max_sources.max(sources);
		}
		Ok((compared, skipped, model.tracks.len() + model.sends.len()))
	});
	ctx.eval();
	let detail = jobj! {"sample_rate" => sr, "ibs" => ibs, "ops" => log_lines.clone()};
	match res {
		Ok(Ok((compared, skipped, shape))) => {
			ctx.count("frames_compared", compared);
			ctx.count("frames_in_transition_callbacks_not_compared", skipped);
			if compared > 0 {
				ctx.distinct_str(&format!("{}|{}|{}|{}", shape, ibs, sr, log_lines.len()));
			}
		}
		Ok(Err(e)) => ctx.violation("mix", idx, &e, detail),
		Err(p) => ctx.violation("mix", idx, &format!("panic: {}", p.first().map(|p| p.sig()).unwrap_or_default()), detail),
	}
	if ctx.want_sample() && idx % 17 == 0 {
		ctx.sample(jobj! {"sample_rate" => sr, "ibs" => ibs, "history" => log_lines.iter().take(12).cloned().collect::<Vec<String>>()});
	}
}

/// Tweened volumes, frame by frame. One DC sound on a sub-track with one send route; the volume of the sub-track, of the route,
/// of the send track or of the main track is moved with a linear tween while the device asks for callbacks of arbitrary sizes
/// (so chunks of every length up to the internal buffer occur). A volume is advanced once per chunk by the chunk's duration and
/// interpolated over the chunk's frames - frame i of an n-frame chunk hears previous + (current - previous) x (i + 1) / n, in
/// decibels - whichever track it belongs to (a send route's volume applies its end-of-chunk value to the whole chunk); every
/// output frame is compared with that.
fn ramp_case(r: &mut Rng) -> Result<u64, String> {
	let sr = 8000u32;
	let ibs = *r.pick(&[4usize, 16, 64]);
	let mut rig = Rig::simple(sr, ibs);
	let mut send = rig.mgr.add_send_track(SendTrackBuilder::new()).map_err(|_| "send")?;
	let mut t = rig.mgr.add_sub_track(TrackBuilder::new().with_send(&send, Decibels(-6.0))).map_err(|_| "t")?;
	let _s = t.play(crate::probes::dc_sound(sr, 64, 0.25).loop_region(..)).map_err(|_| "play")?;
	rig.callback(ibs * 2);
	// dB values of [track, route, send, main]
	let mut vol = [0.0f64, -6.0, 0.0, 0.0];
	let which = r.below(4) as usize;
	let names = ["the sub-track's volume", "the send route's volume", "the send track's volume", "the main track's volume"];
	let target = r.f64_in(-30.0, 0.0) as f32;
	let dur = Duration::from_secs_f64(r.f64_in(0.5, 6.0) * ibs as f64 / sr as f64);
	// every easing curve (powers 1..8, in / out / in-out, integer and real): the model uses the reference curves of C06
	let easing = if r.chance(0.35) { kira::Easing::Linear } else { crate::props::c06::gen_easing(r) };
	let tw = Tween { duration: dur, easing, ..Default::default() };
	match which {
		0 => t.set_volume(Decibels(target), tw),
		1 => t.set_send(send.id(), Decibels(target), tw).map_err(|_| "set_send")?,
		2 => send.set_volume(Decibels(target), tw),
		_ => rig.mgr.main_track().set_volume(Decibels(target), tw),
	}
	let (start, d) = (vol[which], dur.as_secs_f64());
	let mut time = 0.0f64;
	let mut cur = start;
	let mut frames = 0u64;
	let mut sizes = vec![];
	for _ in 0..r.usize_in(3, 10) {
		let any = r.usize_in(1, ibs * 3);
		let n_cb = *r.pick(&[1usize, ibs - 1, ibs + 1, ibs * 2 + 3, any]);
		sizes.push(n_cb);
		let out = rig.callback(n_cb).to_vec();
		let mut done = 0;
		while done < n_cb {
			let n = ibs.min(n_cb - done);
			let prev = cur;
			time += n as f64 / sr as f64;
			cur = if time >= d { target as f64 } else { start + (target as f64 - start) * crate::refmodel::ease_ref(easing, time / d) };
			for i in 0..n {
				// (a send route's volume is not interpolated: the whole chunk is sent at the value reached at the chunk's end)
				vol[which] = if which == 1 { cur as f32 as f64 } else { ((prev + (cur - prev) * ((i + 1) as f64 / n as f64)) as f32) as f64 };
				let amp = |db: f64| 10f64.powf(db / 20.0);
				let want = 0.25 * amp(vol[0]) * amp(vol[3]) * (1.0 + amp(vol[1]) * amp(vol[2]));
				let got = out[(done + i) * 2] as f64;
				if (got - want).abs() > 3e-5 * want {
					return Err(format!("{} moved from {} dB to {} dB over {:?} with {:?} (internal buffer {}, callbacks {:?}): frame {} of the last callback (frame {} of a chunk of {}) is {} instead of {} - the volume is interpolated over each chunk's own frames", names[which], start, target, dur, easing, ibs, sizes, done + i, i, n, got, want));
				}
				frames += 1;
			}
			done += n;
		}
	}
	// the same volume is then linked, through its handle and with a tween, to a modulator; after that tween has ended the
	// modulator moves (instantly): the volume follows it from the next callback on
	let mut tw_mod = rig.mgr.add_modulator(kira::modulator::tweener::TweenerBuilder { initial_value: 0.0 }).map_err(|_| "tweener")?;
	let map = kira::Mapping { input_range: (0.0, 1.0), output_range: (Decibels(-24.0), Decibels(-3.0)), easing: kira::Easing::Linear };
	let link = kira::Value::FromModulator { id: tw_mod.id(), mapping: map };
	let ltw = Tween { duration: Duration::from_secs_f64(r.f64_in(0.0, 3.0) * ibs as f64 / sr as f64), ..Default::default() };
	match which {
		0 => t.set_volume(link, ltw),
		1 => t.set_send(send.id(), link, ltw).map_err(|_| "set_send")?,
		2 => send.set_volume(link, ltw),
		_ => rig.mgr.main_track().set_volume(link, ltw),
	}
	for _ in 0..6 {
		rig.callback(ibs);
	}
	let x = r.f64_in(0.2, 1.0);
	tw_mod.set(x, Tween { duration: Duration::ZERO, ..Default::default() });
	rig.callback(ibs);
	rig.callback(ibs);
	let out = rig.callback(ibs).to_vec();
	vol[which] = (-24.0 + 21.0 * x) as f32 as f64;
	let amp = |db: f64| 10f64.powf(db / 20.0);
	let want = 0.25 * amp(vol[0]) * amp(vol[3]) * (1.0 + amp(vol[1]) * amp(vol[2]));
	let got = out[out.len() - 2] as f64;
	if (got - want).abs() > 3e-5 * want {
		return Err(format!("{} linked through its handle (tween {:?}) to a tweener mapped 0..1 -> -24..-3 dB; the tween ended, then the tweener moved to {}: the output is {} instead of {} (the volume no longer follows the modulator)", names[which], ltw.duration, x, got, want));
	}
	Ok(frames)
}

pub fn run(ctx: &mut Ctx) {
	let n = ctx.t(300_000u64, 20_000_000u64);
	for i in 0..n {
		if !ctx.owns("mix", i) {
			continue;
		}
		if !ctx.replaying() && !ctx.time_left(0.9) {
			ctx.note("time budget reached before the case limit");
			break;
		}
		let mut r = Rng::for_case(ctx.seed, 201, i);
		crate::monitors::set_current(ctx, "mix", i, "mixer signal-flow scene", false);
		one_case(ctx, i, &mut r);
		crate::monitors::clear_current();
	}
	// tweened volumes, frame by frame
	let nr = ctx.t(4_000u64, 400_000u64);
	let mut ramp_frames = 0u64;
	for i in 0..nr {
		if !ctx.owns("ramp", i) {
			continue;
		}
		if !ctx.replaying() && !ctx.time_left(0.98) {
			break;
		}
		let mut r = Rng::for_case(ctx.seed, 202, i);
		ctx.eval();
		crate::monitors::set_current(ctx, "ramp", i, "volume ramp", false);
		let res = super::guarded(|| ramp_case(&mut r));
		crate::monitors::clear_current();
		match res {
			Ok(Ok(f)) => {
				ramp_frames += f;
				ctx.distinct_key(0xC02_0002_0000 | (i % 16));
			}
			Ok(Err(e)) => ctx.violation("ramp", i, &e, J::Null),
			Err(p) => ctx.violation("ramp", i, &format!("panic: {}", p.first().map(|p| p.sig()).unwrap_or_default()), J::Null),
		}
	}
	ctx.count("volume_ramp_frames_compared", ramp_frames);
}

pub fn confirm(_key: &str) -> Option<Option<String>> {
	None
}
