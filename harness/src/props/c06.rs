//! C06 — tweens start on time, follow their easing, end exactly on target, never jump.

use std::time::Duration;

use glam::{Quat, Vec3};
use kira::clock::{ClockId, ClockSpeed, ClockTime};
use kira::info::{Info, MockInfoBuilder};
use kira::modulator::tweener::{TweenerBuilder, TweenerHandle};
use kira::modulator::{Modulator, ModulatorBuilder};
use kira::{Decibels, Easing, Mix, Panning, Parameter, PlaybackRate, Semitones, StartTime, Tween, Tweenable, Value};

use crate::jobj;
use crate::refmodel::ease_ref;
use crate::util::{Ctx, Rng, J};

// ---------------------------------------------------------------- tweenable types under test

pub trait Tw: Tweenable + Copy + PartialEq + std::fmt::Debug + 'static {
	const NAME: &'static str;
	const EPS: f64;
	/// absolute tolerance floor (Duration rounds to nanoseconds)
	const ABS: f64 = 0.0;
	/// component-wise bound / interval checks are meaningful
	const BOUNDED: bool = true;
	fn gen(r: &mut Rng) -> Self;
	fn comps(&self) -> Vec<f64>;
	/// reference interpolation (components), independent of kira's `interpolate`
	fn ref_interp(a: &Self, b: &Self, x: f64) -> Vec<f64> {
		a.comps().iter().zip(b.comps()).map(|(a, b)| a + (b - a) * x).collect()
	}
	/// "the same value": bit-equality, except for ClockSpeed where the same speed may be
	/// expressed in another unit
	fn same(a: &Self, b: &Self) -> bool {
		a == b
	}
}

fn gen_f(r: &mut Rng, lo: f64, hi: f64) -> f64 {
	match r.below(6) {
		0 => lo,
		1 => hi,
		2 => 0.0f64.clamp(lo, hi),
		_ => r.f64_in(lo, hi),
	}
}

impl Tw for f64 {
	const NAME: &'static str = "f64";
	const EPS: f64 = f64::EPSILON;
	fn gen(r: &mut Rng) -> Self {
		gen_f(r, -1000.0, 1000.0)
	}
	fn comps(&self) -> Vec<f64> {
		vec![*self]
	}
}
impl Tw for f32 {
	const NAME: &'static str = "f32";
	const EPS: f64 = f32::EPSILON as f64;
	fn gen(r: &mut Rng) -> Self {
		gen_f(r, -1000.0, 1000.0) as f32
	}
	fn comps(&self) -> Vec<f64> {
		vec![*self as f64]
	}
}
impl Tw for Decibels {
	const NAME: &'static str = "Decibels";
	const EPS: f64 = f32::EPSILON as f64;
	fn gen(r: &mut Rng) -> Self {
		Decibels(gen_f(r, -80.0, 24.0) as f32)
	}
	fn comps(&self) -> Vec<f64> {
		vec![self.0 as f64]
	}
}
impl Tw for Panning {
	const NAME: &'static str = "Panning";
	const EPS: f64 = f32::EPSILON as f64;
	fn gen(r: &mut Rng) -> Self {
		Panning(gen_f(r, -1.0, 1.0) as f32)
	}
	fn comps(&self) -> Vec<f64> {
		vec![self.0 as f64]
	}
}
impl Tw for Mix {
	const NAME: &'static str = "Mix";
	const EPS: f64 = f32::EPSILON as f64;
	fn gen(r: &mut Rng) -> Self {
		Mix(gen_f(r, 0.0, 1.0) as f32)
	}
	fn comps(&self) -> Vec<f64> {
		vec![self.0 as f64]
	}
}
impl Tw for PlaybackRate {
	const NAME: &'static str = "PlaybackRate";
	const EPS: f64 = f64::EPSILON;
	fn gen(r: &mut Rng) -> Self {
		PlaybackRate(gen_f(r, -16.0, 16.0))
	}
	fn comps(&self) -> Vec<f64> {
		vec![self.0]
	}
}
impl Tw for Semitones {
	const NAME: &'static str = "Semitones";
	const EPS: f64 = f64::EPSILON;
	fn gen(r: &mut Rng) -> Self {
		Semitones(gen_f(r, -48.0, 48.0))
	}
	fn comps(&self) -> Vec<f64> {
		vec![self.0]
	}
}
impl Tw for Vec3 {
	const NAME: &'static str = "Vec3";
	const EPS: f64 = f32::EPSILON as f64;
	fn gen(r: &mut Rng) -> Self {
		Vec3::new(gen_f(r, -100.0, 100.0) as f32, gen_f(r, -100.0, 100.0) as f32, gen_f(r, -100.0, 100.0) as f32)
	}
	fn comps(&self) -> Vec<f64> {
		vec![self.x as f64, self.y as f64, self.z as f64]
	}
}
impl Tw for Duration {
	const NAME: &'static str = "Duration";
	const EPS: f64 = f64::EPSILON;
	const ABS: f64 = 2e-9;
	fn gen(r: &mut Rng) -> Self {
		Duration::from_secs_f64(gen_f(r, 0.0, 10.0))
	}
	fn comps(&self) -> Vec<f64> {
		vec![self.as_secs_f64()]
	}
}
impl Tw for ClockSpeed {
	const NAME: &'static str = "ClockSpeed";
	// compared in ticks per second while interpolated in the target's unit (possibly the reciprocal):
	// rounding of the larger endpoint is amplified by the ratio of the endpoints (<= 1e4 here)
	const EPS: f64 = 1e-11;
	fn gen(r: &mut Rng) -> Self {
		let tps = r.log_in(0.05, 500.0);
		match r.below(3) {
			0 => ClockSpeed::TicksPerSecond(tps),
			1 => ClockSpeed::TicksPerMinute(tps * 60.0),
			_ => ClockSpeed::SecondsPerTick(1.0 / tps),
		}
	}
	/// compared in ticks per second
	fn comps(&self) -> Vec<f64> {
		vec![self.as_ticks_per_second()]
	}
	fn same(a: &Self, b: &Self) -> bool {
		let (x, y) = (a.as_ticks_per_second(), b.as_ticks_per_second());
		(x - y).abs() <= 4.0 * f64::EPSILON * x.abs().max(y.abs())
	}
	/// a ClockSpeed tween interpolates in the unit of its target
	fn ref_interp(a: &Self, b: &Self, x: f64) -> Vec<f64> {
		let tps = match b {
			ClockSpeed::TicksPerSecond(bv) => {
				let av = a.as_ticks_per_second();
				av + (bv - av) * x
			}
			ClockSpeed::TicksPerMinute(bv) => {
				let av = a.as_ticks_per_second() * 60.0;
				(av + (bv - av) * x) / 60.0
			}
			ClockSpeed::SecondsPerTick(bv) => {
				let av = 1.0 / a.as_ticks_per_second();
				1.0 / (av + (bv - av) * x)
			}
		};
		vec![tps]
	}
}
impl Tw for Quat {
	const NAME: &'static str = "Quat";
	const EPS: f64 = f32::EPSILON as f64;
	const BOUNDED: bool = false;
	fn gen(r: &mut Rng) -> Self {
		let q = Quat::from_xyzw(r.noise(), r.noise(), r.noise(), r.noise());
		if q.length() < 1e-3 {
			Quat::IDENTITY
		} else {
			q.normalize()
		}
	}
	fn comps(&self) -> Vec<f64> {
		vec![self.x as f64, self.y as f64, self.z as f64, self.w as f64]
	}
	/// slerp(a, b, 0) reproduces a only to rounding
	fn same(a: &Self, b: &Self) -> bool {
		a.comps().iter().zip(b.comps()).all(|(x, y)| (x - y).abs() <= 4.0 * f32::EPSILON as f64)
	}
	/// shortest-arc spherical interpolation in f64
	fn ref_interp(a: &Self, b: &Self, x: f64) -> Vec<f64> {
		let a = a.comps();
		let mut b = b.comps();
		let mut dot: f64 = a.iter().zip(&b).map(|(p, q)| p * q).sum();
		if dot < 0.0 {
			for v in &mut b {
				*v = -*v;
			}
			dot = -dot;
		}
		let out: Vec<f64> = if dot > 0.9995 {
			a.iter().zip(&b).map(|(p, q)| p + (q - p) * x).collect()
		} else {
			let th = dot.clamp(-1.0, 1.0).acos();
			let s = th.sin();
			let (wa, wb) = (((1.0 - x) * th).sin() / s, (x * th).sin() / s);
			a.iter().zip(&b).map(|(p, q)| p * wa + q * wb).collect()
		};
		let n: f64 = out.iter().map(|v| v * v).sum::<f64>().sqrt();
		out.iter().map(|v| v / n).collect()
	}
}

// ---------------------------------------------------------------- devices under test

trait Device<T> {
	fn set(&mut self, target: T, tween: Tween);
	fn update(&mut self, dt: f64, info: &Info);
	fn value(&self) -> T;
	fn previous(&self) -> Option<T>;
	fn interpolated(&self, x: f64) -> Option<T>;
}

struct ParamDev<T: Tweenable>(Parameter<T>);
impl<T: Tw> Device<T> for ParamDev<T> {
	fn set(&mut self, target: T, tween: Tween) {
		self.0.set(Value::Fixed(target), tween)
	}
	fn update(&mut self, dt: f64, info: &Info) {
		self.0.update(dt, info);
	}
	fn value(&self) -> T {
		self.0.value()
	}
	fn previous(&self) -> Option<T> {
		Some(self.0.previous_value())
	}
	fn interpolated(&self, x: f64) -> Option<T> {
		Some(self.0.interpolated_value(x))
	}
}

struct TweenerDev {
	m: Box<dyn Modulator>,
	h: TweenerHandle,
}
impl Device<f64> for TweenerDev {
	fn set(&mut self, target: f64, tween: Tween) {
		self.h.set(target, tween);
		self.m.on_start_processing();
	}
	fn update(&mut self, dt: f64, info: &Info) {
		self.m.update(dt, info);
	}
	fn value(&self) -> f64 {
		self.m.value()
	}
	fn previous(&self) -> Option<f64> {
		None
	}
	fn interpolated(&self, _x: f64) -> Option<f64> {
		None
	}
}

// ---------------------------------------------------------------- scenario

#[derive(Clone, Copy, Debug, PartialEq)]
enum StartKind {
	Immediate,
	Delayed(f64),
	/// clock target in ticks
	Clock(f64),
	MissingClock,
}

#[derive(Clone, Debug)]
struct SetOp<T> {
	at_update: usize,
	target: T,
	duration: f64,
	easing: Easing,
	start: StartKind,
}

pub fn gen_easing(r: &mut Rng) -> Easing {
	match r.below(8) {
		0 | 1 => Easing::Linear,
		2 => Easing::InPowi(1 + r.below(8) as i32),
		3 => Easing::OutPowi(1 + r.below(8) as i32),
		4 => Easing::InOutPowi(1 + r.below(8) as i32),
		5 => Easing::InPowf(r.log_in(0.1, 8.0)),
		6 => Easing::OutPowf(r.log_in(0.1, 8.0)),
		_ => Easing::InOutPowf(r.log_in(0.1, 8.0)),
	}
}

fn gen_partition(r: &mut Rng, n: usize) -> Vec<f64> {
	let base = *r.pick(&[1.0 / 48000.0 * 128.0, 1.0 / 44100.0 * 64.0, 0.01, 0.001, 1.0 / 8000.0, 0.05]);
	let mode = r.below(4);
	(0..n)
		.map(|i| match mode {
			0 => base,
			1 => base * r.f64_in(0.1, 3.0),
			2 => {
				if i % 7 == 3 {
					base * 20.0
				} else {
					base * r.f64_in(0.5, 1.5)
				}
			}
			_ => {
				if r.chance(0.2) {
					2e-6 + r.f64() * 1e-5
				} else {
					base
				}
			}
		})
		.collect()
}

struct ActiveTween {
	start_val: Vec<f64>,
	start_t: Option<Box<dyn std::any::Any>>,
}

/// Outcome of one scenario: Err(description) on violation.
fn run_scenario<T: Tw, D: Device<T>>(
	dev: &mut D,
	v0: T,
	sets: &[SetOp<T>],
	part: &[f64],
	clock_rate: f64,
	pause: (usize, usize),
	stats: &mut Stats,
) -> Result<(), String> {
	let _ = ActiveTween { start_val: vec![], start_t: None };
	// the mock clock id is deterministic for a fresh builder
	let clock_id: ClockId = MockInfoBuilder::new().add_clock(true, 0, 0.0);
	let missing_id: ClockId = {
		let mut b = MockInfoBuilder::new();
		b.add_clock(true, 0, 0.0);
		b.add_clock(true, 0, 0.0)
	};
	let mut t_now = 0.0f64; // accumulated update time
	let mut clock = 0.0f64; // mock clock, ticks
	let mut held: T = v0; // value expected while nothing is active
	// active tween model
	struct Act<T> {
		from: T,
		op: SetOp<T>,
		issued_t: f64,
		/// (T_{k-1}, T_k) of the update during which the start instant falls
		straddle: Option<(f64, f64)>,
		/// exact elapsed time for immediate starts (same accumulation as any implementation: sum of dt)
		tau_exact: f64,
		clock_at_issue: f64,
	}
	let mut act: Option<Act<T>> = None;
	let mut last_value = v0;
	let mut next_set = 0usize;
	for (n, &dt) in part.iter().enumerate() {
		while next_set < sets.len() && sets[next_set].at_update == n {
			let op = sets[next_set].clone();
			next_set += 1;
			let from = dev.value();
			let start_time = match op.start {
				StartKind::Immediate => StartTime::Immediate,
				StartKind::Delayed(d) => StartTime::Delayed(Duration::from_secs_f64(d)),
				StartKind::Clock(c) => StartTime::ClockTime(ClockTime::from_ticks_f64(clock_id, c)),
				StartKind::MissingClock => StartTime::ClockTime(ClockTime::from_ticks_f64(missing_id, 1.0)),
			};
			dev.set(
				op.target,
				Tween {
					start_time,
					duration: Duration::from_secs_f64(op.duration),
					easing: op.easing,
				},
			);
			act = Some(Act {
				from,
				op,
				issued_t: t_now,
				straddle: None,
				tau_exact: 0.0,
				clock_at_issue: clock,
			});
			held = from;
			stats.sets += 1;
		}
		// mock clock for this update (state at the end of the chunk, as in the renderer)
		let clock_started = act.as_ref().map(|a| a.straddle.is_some()).unwrap_or(false);
		let ticking = !(n >= pause.0 && n < pause.1) || clock_started;
		if ticking {
			clock += clock_rate * dt;
		}
		let mut ib = MockInfoBuilder::new();
		let cid = ib.add_clock(ticking, clock.floor() as u64, clock.fract());
		assert_eq!(cid, clock_id);
		let info = ib.build();
		let t_prev = t_now;
		t_now += dt;
		dev.update(dt, &info);
		stats.updates += 1;
		let v = dev.value();
		// continuity between chunks
		if let Some(p) = dev.previous() {
			if !T::same(&p, &last_value) {
				return Err(format!("update {}: previous_value() {:?} != value() of the previous update {:?}", n, p, last_value));
			}
			if let (true, Some(i0), Some(i1)) = (T::BOUNDED, dev.interpolated(0.0), dev.interpolated(1.0)) {
				// a + (b - a) * 1 carries rounding error proportional to the larger of |a|, |b|
				let scale = p.comps().iter().chain(v.comps().iter()).fold(0.0f64, |m, c| m.max(c.abs()));
				let tol = 8.0 * T::EPS * scale + T::ABS + T::EPS * 1.2e-37 + 1e-300;
				let close = |a: &T, b: &T| a.comps().iter().zip(b.comps()).all(|(x, y)| (x - y).abs() <= tol);
				if !close(&i0, &p) || !close(&i1, &v) {
					return Err(format!("update {}: interpolated_value(0/1) = {:?}/{:?} but previous/current = {:?}/{:?}", n, i0, i1, p, v));
				}
			}
		}
		last_value = v;
		let Some(a) = act.as_mut() else {
			if !T::same(&v, &held) {
				return Err(format!("update {}: idle parameter changed from {:?} to {:?}", n, held, v));
			}
			continue;
		};
		let d = a.op.duration;
		let fromc = a.from.comps();
		let tgtc = a.op.target.comps();
		let scale = fromc.iter().chain(tgtc.iter()).fold(0.0f64, |m, c| m.max(c.abs()));
		let span = fromc.iter().zip(&tgtc).fold(0.0f64, |m, (x, y)| m.max((x - y).abs()));
		// (the EPS * 1.2e-37 term: below f32::MIN_POSITIVE the spacing of f32 values is an absolute 1.4e-45, not relative)
		let tol = 16.0 * T::EPS * scale + 1e-11 * span + T::ABS + T::EPS * 1.2e-37 + 1e-300;
		let vc = v.comps();
		// the value never leaves the interval between start and target
		if T::BOUNDED {
			for ((x, lo), hi) in vc.iter().zip(&fromc).zip(&tgtc) {
				let (l, h) = (lo.min(*hi), lo.max(*hi));
				if !(*x >= l - tol && *x <= h + tol) {
					return Err(format!("update {}: value {:?} outside [start {:?}, target {:?}]", n, v, a.from, a.op.target));
				}
			}
		}
		// where is the start instant?
		let eps_t = 2e-9 * (n as f64 + 2.0);
		match a.op.start {
			StartKind::Immediate => {
				if a.straddle.is_none() {
					a.straddle = Some((a.issued_t, a.issued_t));
				}
			}
			StartKind::Delayed(dl) => {
				if a.straddle.is_none() && t_now + eps_t >= a.issued_t + dl {
					// if the delay runs out within rounding of this update's end, an implementation may
					// see it either in this update or in the next one
					let near_edge = (t_now - (a.issued_t + dl)).abs() < 4.0 * eps_t;
					let hi = if near_edge { t_now + part.get(n + 1).copied().unwrap_or(0.0) } else { t_now };
					a.straddle = Some((if dl == 0.0 { a.issued_t } else { t_prev.max(a.issued_t) }, if dl == 0.0 { a.issued_t } else { hi }));
				}
			}
			StartKind::Clock(c) => {
				if a.straddle.is_none() && ticking && clock >= c {
					// reached during this update (or already at issue time: then it starts right away)
					a.straddle = Some((t_prev, if a.clock_at_issue >= c && n == a.op.at_update { t_prev } else { t_now }));
				}
			}
			StartKind::MissingClock => {}
		}
		match a.straddle {
			None => {
				// not started: the old value is kept bit-exactly
				if !T::same(&v, &a.from) {
					return Err(format!("update {} (t={:.6}): value changed to {:?} before the tween's start time ({:?}); old value {:?}", n, t_now, v, a.op.start, a.from));
				}
				stats.held_checks += 1;
			}
			Some((t_lo, t_hi)) => {
				// elapsed time since the start instant lies in [t_now - t_hi, t_now - t_lo]
				let tau_lo = (t_now - t_hi - eps_t).max(0.0);
				let tau_hi = t_now - t_lo + eps_t;
				let zero_width = t_hi == t_lo;
				if zero_width {
					a.tau_exact += dt;
				}
				// a zero-duration tween takes effect at the next update after its start instant
				let x_of = |tau: f64| if d <= 0.0 { if tau > 0.0 { 1.0 } else { 0.0 } } else { (tau / d).clamp(0.0, 1.0) };
				if tau_lo >= d + eps_t {
					// finished (to within one update): exactly the target from now on
					if !T::same(&v, &a.op.target) {
						return Err(format!("update {} (t={:.6}): tween over ({}s after start >= duration {}s) but value {:?} != target {:?}", n, t_now, tau_lo, d, v, a.op.target));
					}
					stats.end_checks += 1;
					held = a.op.target;
					// stays there: checked on every later update through this same branch
					continue;
				}
				if zero_width {
					// exact law
					let tau = a.tau_exact;
					if tau >= d {
						if !T::same(&v, &a.op.target) {
							return Err(format!("update {}: elapsed {} >= duration {} but value {:?} != target {:?}", n, tau, d, v, a.op.target));
						}
						stats.end_checks += 1;
					} else {
						let want = T::ref_interp(&a.from, &a.op.target, ease_ref(a.op.easing, x_of(tau)));
						for (x, w) in vc.iter().zip(&want) {
							let t2 = if T::BOUNDED { tol } else { 1e-5 };
							if (x - w).abs() > t2 {
								return Err(format!(
									"update {}: value {:?} != start + (target-start)*ease({}/{}) = {:?} (start {:?}, target {:?}, {:?})",
									n, v, tau, d, want, a.from, a.op.target, a.op.easing
								));
							}
						}
						stats.exact_checks += 1;
					}
				} else if T::BOUNDED {
					// interval law: between ref(tau_lo) and ref(tau_hi)
					let lo = T::ref_interp(&a.from, &a.op.target, ease_ref(a.op.easing, x_of(tau_lo)));
					let hi = T::ref_interp(&a.from, &a.op.target, ease_ref(a.op.easing, x_of(tau_hi)));
					for ((x, l), h) in vc.iter().zip(&lo).zip(&hi) {
						let (mn, mx) = (l.min(*h), l.max(*h));
						if !(*x >= mn - tol && *x <= mx + tol) {
							return Err(format!(
								"update {} (t={:.6}): value {:?} not within one update of the easing law: allowed [{:e},{:e}] (start {:?}, target {:?}, dur {}, {:?}, start kind {:?})",
								n, t_now, v, mn, mx, a.from, a.op.target, d, a.op.easing, a.op.start
							));
						}
					}
					stats.interval_checks += 1;
				}
			}
		}
	}
	Ok(())
}

#[derive(Default)]
struct Stats {
	sets: u64,
	updates: u64,
	held_checks: u64,
	end_checks: u64,
	exact_checks: u64,
	interval_checks: u64,
}

fn gen_sets<T: Tw>(r: &mut Rng, n_updates: usize, part: &[f64]) -> (Vec<SetOp<T>>, f64) {
	let clock_rate = r.log_in(0.5, 200.0);
	let total: f64 = part.iter().sum();
	let nsets = 1 + r.below(3) as usize;
	let mut sets = vec![];
	let mut at = r.below(3) as usize;
	for _ in 0..nsets {
		if at >= n_updates {
			break;
		}
		let duration = match r.below(8) {
			0 => 0.0,
			1 => part[at.min(part.len() - 1)] * r.f64_in(0.05, 0.9), // shorter than one update
			2 => part[at.min(part.len() - 1)],
			_ => total * r.f64_in(0.02, 0.6),
		};
		let start = match r.below(10) {
			0..=3 => StartKind::Immediate,
			4 => StartKind::Delayed(0.0),
			5 | 6 => StartKind::Delayed(total * r.f64_in(0.0, 0.3)),
			7 | 8 => StartKind::Clock(clock_rate * total * r.f64_in(0.0, 0.5)),
			_ => StartKind::MissingClock,
		};
		// the API takes `Duration`s: model exactly the nanosecond-quantised values kira receives
		let q = |x: f64| Duration::from_secs_f64(x).as_secs_f64();
		let duration = q(duration);
		let start = match start {
			StartKind::Delayed(d) => StartKind::Delayed(q(d)),
			s => s,
		};
		sets.push(SetOp {
			at_update: at,
			target: T::gen(r),
			duration,
			easing: gen_easing(r),
			start,
		});
		at += 1 + r.below((n_updates / 2).max(1) as u64) as usize;
	}
	(sets, clock_rate)
}

fn case_param<T: Tw>(ctx: &mut Ctx, stream: &str, idx: u64, r: &mut Rng, stats: &mut Stats) {
	let n_updates = 20 + r.below(200) as usize;
	let part = gen_partition(r, n_updates);
	let v0 = T::gen(r);
	let (sets, clock_rate) = gen_sets::<T>(r, n_updates, &part);
	let pause = if r.chance(0.3) {
		let a = r.below(n_updates as u64 / 2) as usize;
		(a, a + r.below(10) as usize)
	} else {
		(usize::MAX, usize::MAX)
	};
	let mut dev = ParamDev(Parameter::new(Value::Fixed(v0), v0));
	let res = super::guarded(|| run_scenario(&mut dev, v0, &sets, &part, clock_rate, pause, stats));
	let desc = || {
		jobj! {"type" => T::NAME, "initial" => format!("{:?}", v0), "sets" => sets.iter().map(|s| J::S(format!("{:?}", s))).collect::<Vec<J>>(),
		"updates" => n_updates, "dt_first" => part[0], "clock_rate" => clock_rate}
	};
	match res {
		Ok(Ok(())) => {}
		Ok(Err(e)) => ctx.violation(stream, idx, &format!("Parameter<{}>: {}", T::NAME, e), desc()),
		Err(p) => ctx.violation(stream, idx, &format!("Parameter<{}>: panic {}", T::NAME, p.first().map(|p| p.sig()).unwrap_or_default()), desc()),
	}
	if ctx.want_sample() && idx % 11 == 0 {
		ctx.sample(desc());
	}
	for s in &sets {
		let dclass = if s.duration == 0.0 { 0 } else if s.duration < part[0] { 1 } else { 2 };
		let sk = match s.start {
			StartKind::Immediate => 0,
			StartKind::Delayed(_) => 1,
			StartKind::Clock(_) => 2,
			StartKind::MissingClock => 3,
		};
		if s.target != v0 {
			ctx.distinct_str(&format!("{}|{:?}|{}|{}|{}", T::NAME, std::mem::discriminant(&s.easing), sk, dclass, sets.len()));
		}
	}
}

fn case_tweener(ctx: &mut Ctx, stream: &str, idx: u64, r: &mut Rng, stats: &mut Stats) {
	let n_updates = 20 + r.below(200) as usize;
	let part = gen_partition(r, n_updates);
	let v0 = f64::gen(r);
	let (sets, clock_rate) = gen_sets::<f64>(r, n_updates, &part);
	let id = MockInfoBuilder::new().add_modulator(0.0);
	let (m, h) = TweenerBuilder { initial_value: v0 }.build(id);
	let mut dev = TweenerDev { m, h };
	let res = super::guarded(|| run_scenario(&mut dev, v0, &sets, &part, clock_rate, (usize::MAX, usize::MAX), stats));
	let desc = || jobj! {"type" => "tweener modulator", "initial" => v0, "sets" => sets.iter().map(|s| J::S(format!("{:?}", s))).collect::<Vec<J>>(), "updates" => n_updates};
	match res {
		Ok(Ok(())) => {}
		Ok(Err(e)) => ctx.violation(stream, idx, &format!("tweener modulator: {}", e), desc()),
		Err(p) => ctx.violation(stream, idx, &format!("tweener modulator: panic {}", p.first().map(|p| p.sig()).unwrap_or_default()), desc()),
	}
	for s in &sets {
		ctx.distinct_str(&format!("tweener|{:?}|{:?}", std::mem::discriminant(&s.easing), std::mem::discriminant(&s.start)));
	}
}

/// Partition independence: the same tween under two partitions agrees at common instants
/// to within one update's change.
fn case_partition(ctx: &mut Ctx, stream: &str, idx: u64, r: &mut Rng) {
	let total = r.f64_in(0.05, 2.0);
	let v0 = f64::gen(r);
	let target = f64::gen(r);
	let easing = gen_easing(r);
	let dur = total * r.f64_in(0.1, 0.9);
	let delay = if r.chance(0.5) { 0.0 } else { total * r.f64_in(0.0, 0.3) };
	let n1 = 10 + r.below(50) as usize;
	let mult = 2 + r.below(6) as usize;
	let run = |n: usize| -> Vec<f64> {
		let dt = total / n as f64;
		let mut p = Parameter::new(Value::Fixed(v0), v0);
		p.set(
			Value::Fixed(target),
			Tween {
				start_time: if delay > 0.0 { StartTime::Delayed(Duration::from_secs_f64(delay)) } else { StartTime::Immediate },
				duration: Duration::from_secs_f64(dur),
				easing,
			},
		);
		let info = MockInfoBuilder::new().build();
		(0..n)
			.map(|_| {
				p.update(dt, &info);
				p.value()
			})
			.collect()
	};
	let coarse = run(n1);
	let fine = run(n1 * mult);
	ctx.eval();
	// at the end of coarse update k == fine update (k+1)*mult-1; allowed disagreement: the largest change
	// over one coarse update (timing to within one update)
	let dtc = total / n1 as f64;
	for k in 0..n1 {
		let f = fine[(k + 1) * mult - 1];
		let c = coarse[k];
		let t = (k + 1) as f64 * dtc;
		let reff = |tau: f64| v0 + (target - v0) * ease_ref(easing, if dur <= 0.0 { 1.0 } else { ((tau - delay) / dur).clamp(0.0, 1.0) });
		let lo = reff(t - 1.5 * dtc);
		let hi = reff(t + 1.5 * dtc);
		let (mn, mx) = (lo.min(hi), lo.max(hi));
		let tol = 1e-9 * (v0.abs() + target.abs() + 1.0);
		if !(c >= mn - tol && c <= mx + tol && f >= mn - tol && f <= mx + tol) {
			ctx.violation(
				stream,
				idx,
				&format!("partition dependence: at t={} coarse={} fine={} allowed [{},{}]", t, c, f, mn, mx),
				jobj! {"v0" => v0, "target" => target, "dur" => dur, "delay" => delay, "easing" => format!("{:?}", easing), "n_coarse" => n1, "mult" => mult},
			);
			return;
		}
	}
	ctx.distinct_str(&format!("part|{:?}|{}|{}", std::mem::discriminant(&easing), delay > 0.0, mult));
}

/// End-to-end: gain envelope of a DC sound whose volume is tweened through its handle.
fn case_e2e(ctx: &mut Ctx, stream: &str, idx: u64, r: &mut Rng) {
	use crate::rig::Rig;
	let sr = *r.pick(&[8000u32, 44100, 48000]);
	let ibs = *r.pick(&[16usize, 64, 128, 100]);
	let mut rig = Rig::simple(sr, ibs);
	const DC: f32 = 0.05; // head-room for +24 dB below the output clamp
	let data = crate::probes::dc_sound(sr, 64, DC).loop_region(..);
	let mut h = rig.mgr.play(data).expect("play");
	let (l0, _) = rig.render_stereo(ibs * 2, &[ibs]);
	let target_db = *r.pick(&[-6.0f32, -20.0, -60.0, 3.0, -80.0, -0.5]);
	let easing = gen_easing(r);
	let chunks = 3 + r.below(12) as usize;
	let dur = chunks as f64 * ibs as f64 / sr as f64 * r.f64_in(0.6, 1.0);
	h.set_volume(
		target_db,
		Tween {
			start_time: StartTime::Immediate,
			duration: Duration::from_secs_f64(dur),
			easing,
		},
	);
	let (l, rr) = rig.render_stereo(ibs * (chunks + 3), &[ibs]);
	ctx.eval();
	let detail = jobj! {"sr" => sr, "ibs" => ibs, "target_db" => target_db, "dur" => dur, "easing" => format!("{:?}", easing)};
	let tgt_amp = DC * Decibels(target_db).as_amplitude();
	let mut bad = None;
	if l0.iter().any(|x| *x != DC) {
		bad = Some("DC sound at 0 dB is not unity before the tween".to_string());
	}
	// monotone towards the target, continuous, exact at the end
	let dir = if tgt_amp < DC { -1.0 } else { 1.0 };
	let mut prev = DC;
	for (i, (&a, &b)) in l.iter().zip(rr.iter()).enumerate() {
		if a != b {
			bad = Some(format!("frame {}: left {} != right {} for a centred DC sound", i, a, b));
			break;
		}
		// (at -60 dB the amplitude law jumps between 0.001 and 0 by definition: f32 rounding decides the side there)
		let at_floor = a.max(prev) <= DC * 0.00101;
		if !at_floor && (a - prev) * dir < -1e-7 {
			bad = Some(format!("frame {}: gain {} moved away from target after {}", i, a, prev));
			break;
		}
		prev = a;
	}
	// chunk-end values follow the law: dB = 0 + target_db * ease(t/dur)
	for c in 0..chunks + 2 {
		let t = (c + 1) as f64 * ibs as f64 / sr as f64;
		let got = l[(c + 1) * ibs - 1];
		// kira keeps the duration as a Duration (whole nanoseconds)
		let dur = Duration::from_secs_f64(dur).as_secs_f64();
		let want_db = if t >= dur { target_db as f64 } else { target_db as f64 * ease_ref(easing, t / dur) };
		let want = DC * crate::refmodel::db_to_amp(want_db) as f32;
		// measured conditioning: how much the law moves for a time error of one nanosecond (steep easings next to an end)
		let cond = {
			let e = |tt: f64| if tt >= dur { target_db as f64 } else { target_db as f64 * ease_ref(easing, (tt / dur).clamp(0.0, 1.0)) };
			let (lo, hi) = (DC * crate::refmodel::db_to_amp(e(t - 1e-9)) as f32, DC * crate::refmodel::db_to_amp(e(t + 1e-9)) as f32);
			(hi - lo).abs()
		};
		if t >= dur + 1e-9 {
			if got != tgt_amp {
				bad = Some(format!("chunk {}: tween over but gain {} != exact target amplitude {}", c, got, tgt_amp));
			}
		} else if (want_db + 60.0).abs() < 1e-3 {
			// as_amplitude is discontinuous at -60 dB (0.001 -> 0): either side is right within f32 rounding
			if !(got >= 0.0 && got <= DC * 0.00101) {
				bad = Some(format!("chunk {} end: gain {} near the -60 dB threshold is neither silence nor ~0.001", c, got));
			}
		} else if (got - want).abs() > 2e-5 * want.max(1e-4) + 1e-7 + cond {
			bad = Some(format!("chunk {} end (t={}): gain {} != amplitude of eased dB {} ", c, t, got, want));
		}
	}
	let last = *l.last().unwrap();
	if last != tgt_amp {
		bad = Some(format!("final gain {} != target amplitude {}", last, tgt_amp));
	}
	if rig.alloc_events != 0 {
		bad = Some("allocation inside callback".into());
	}
	if let Some(w) = bad {
		ctx.violation(stream, idx, &format!("volume tween through handle: {}", w), detail.clone());
	}
	if ctx.want_sample() && idx % 50 == 0 {
		ctx.sample(detail);
	}
	ctx.distinct_str(&format!("e2e|{:?}|{}|{}", std::mem::discriminant(&easing), target_db, ibs));
}

pub fn run(ctx: &mut Ctx) {
	let n = ctx.t(480_000u64, 40_000_000u64);
	let mut stats = Stats::default();
	for i in 0..n {
		if !ctx.owns("tw", i) {
			continue;
		}
		if !ctx.replaying() && !ctx.time_left(0.8) {
			ctx.note("time budget reached before the case limit");
			break;
		}
		let mut r = Rng::for_case(ctx.seed, 601, i);
		ctx.eval();
		match i % 13 {
			0 => case_param::<f64>(ctx, "tw", i, &mut r, &mut stats),
			1 => case_param::<f32>(ctx, "tw", i, &mut r, &mut stats),
			2 => case_param::<Decibels>(ctx, "tw", i, &mut r, &mut stats),
			3 => case_param::<Panning>(ctx, "tw", i, &mut r, &mut stats),
			4 => case_param::<PlaybackRate>(ctx, "tw", i, &mut r, &mut stats),
			5 => case_param::<Semitones>(ctx, "tw", i, &mut r, &mut stats),
			6 => case_param::<Mix>(ctx, "tw", i, &mut r, &mut stats),
			7 => case_param::<Vec3>(ctx, "tw", i, &mut r, &mut stats),
			8 => case_param::<Duration>(ctx, "tw", i, &mut r, &mut stats),
			9 => case_param::<ClockSpeed>(ctx, "tw", i, &mut r, &mut stats),
			10 => case_param::<Quat>(ctx, "tw", i, &mut r, &mut stats),
			11 => case_tweener(ctx, "tw", i, &mut r, &mut stats),
			_ => case_partition(ctx, "tw", i, &mut r),
		}
	}
	let ne = ctx.t(3_000u64, 200_000u64);
	for i in 0..ne {
		if !ctx.owns("e2e", i) {
			continue;
		}
		if !ctx.replaying() && !ctx.time_left(1.0) {
			break;
		}
		let mut r = Rng::for_case(ctx.seed, 602, i);
		crate::monitors::set_current(ctx, "e2e", i, "volume tween e2e", false);
		case_e2e(ctx, "e2e", i, &mut r);
		crate::monitors::clear_current();
	}
	ctx.count("set_calls", stats.sets);
	ctx.count("updates_observed", stats.updates);
	ctx.count("checks_value_held_before_start", stats.held_checks);
	ctx.count("checks_exact_target_after_end", stats.end_checks);
	ctx.count("checks_exact_easing_law", stats.exact_checks);
	ctx.count("checks_within_one_update_interval", stats.interval_checks);
}

pub fn confirm(_key: &str) -> Option<Option<String>> {
	None
}
