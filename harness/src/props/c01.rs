//! C01 — the audio callback is real-time safe and its output is always well-formed.
//! Scenario programs over the whole public surface, executed on two rigs in lock-step
//! (stereo + k channels), with always-on monitors: allocation counter armed inside callbacks,
//! panic recorder, CPU-time watchdog, output scanner, channel laws.

use crate::jobj;
use crate::monitors;
use crate::util::{Ctx, Rng, J};
use crate::world::{Excl, Op, Program, World};

pub struct Stats {
	pub callbacks: u64,
	pub frames: u64,
	pub nonzero: u64,
	pub clamped: u64,
	pub lockstep_frames: u64,
	pub creation_errors: u64,
}

fn op_name(op: &Op) -> String {
	let s = format!("{:?}", op);
	s.split(|c: char| !c.is_alphanumeric()).next().unwrap_or("").to_string()
}

pub fn run_program(p: &Program, k_channels: u16, capture_bt: bool, stats: &mut Stats, ops_seen: &mut std::collections::BTreeMap<String, u64>) -> Result<(), String> {
	let lockstep = !p.uses_streaming;
	let mut a = World::new(p, if lockstep { 2 } else { k_channels });
	let mut b = if lockstep { Some(World::new(p, k_channels)) } else { None };
	a.rig.capture_bt = capture_bt;
	let kc = k_channels as usize;
	let mut result = Ok(());
	for (n, op) in p.ops.iter().enumerate() {
		*ops_seen.entry(op_name(op)).or_insert(0) += 1;
		if capture_bt {
			eprintln!("op {}: {}", n, format!("{:?}", op).chars().take(600).collect::<String>());
		}
		let before = a.rig.alloc_events;
		let cb = a.apply(op);
		if let Some(bw) = b.as_mut() {
			bw.apply(op);
		}
		if let Some(frames) = cb {
			stats.callbacks += 1;
			stats.frames += frames as u64;
			if a.rig.alloc_events != before {
				let bt = monitors::ALLOC_BACKTRACE.lock().ok().and_then(|g| g.clone()).unwrap_or_default();
				result = Err(format!("op {} (callback of {} frames): {} heap allocation/free events on the audio thread inside the callback {}", n, frames, a.rig.alloc_events - before, bt.lines().filter(|l| l.contains("kira") || l.contains("alloc")).take(12).collect::<Vec<_>>().join(" | ")));
				break;
			}
			let ach = a.rig.cfg.channels as usize;
			let sc = monitors::scan(&a.rig.buf, ach);
			stats.nonzero += sc.nonzero_samples;
			stats.clamped += sc.clamped_samples;
			if let Some((i, x)) = sc.non_finite {
				result = Err(format!("op {} (callback of {} frames): sample {} of the device buffer is {:?} (not a finite number)", n, frames, i, x));
				break;
			}
			if let Some((i, x)) = sc.out_of_range {
				result = Err(format!("op {}: sample {} = {:e} outside [-1, 1]", n, i, x));
				break;
			}
			if let Some((i, x)) = sc.extra_channel_nonzero {
				result = Err(format!("op {}: channel {} of {} carries {:e}; channels beyond the second must be silent", n, i % ach, ach, x));
				break;
			}
			if let Some(bw) = b.as_ref() {
				if bw.rig.alloc_events != 0 {
					result = Err(format!("op {}: heap allocation on the audio thread ({}-channel rig)", n, kc));
					break;
				}
				let sb = monitors::scan(&bw.rig.buf, kc);
				if sb.non_finite.is_some() || sb.out_of_range.is_some() || sb.extra_channel_nonzero.is_some() {
					result = Err(format!("op {}: {}-channel rig: malformed output {:?}", n, kc, sb));
					break;
				}
				// channel laws against the stereo rig fed the identical program
				for f in 0..frames {
					let (l, r) = (a.rig.buf[2 * f], a.rig.buf[2 * f + 1]);
					if cfg!(miri) {
						// Miri deliberately perturbs inexact float intrinsics (powf, sin, ...) by an ulp at random, so
						// two executions of one program are not bit-identical there; the channel laws are judged by
						// the native engines, Miri contributes undefined-behaviour detection
						continue;
					}
					if kc == 1 {
						let m = (l + r) / 2.0;
						if bw.rig.buf[f] != m {
							result = Err(format!("op {} frame {}: mono sample {:e} != mean of left {:e} and right {:e} = {:e}", n, f, bw.rig.buf[f], l, r, m));
							break;
						}
					} else {
						if bw.rig.buf[kc * f] != l || bw.rig.buf[kc * f + 1] != r {
							result = Err(format!("op {} frame {}: first two of {} channels ({:e},{:e}) != stereo output ({:e},{:e})", n, f, kc, bw.rig.buf[kc * f], bw.rig.buf[kc * f + 1], l, r));
							break;
						}
					}
				}
				if result.is_err() {
					break;
				}
				stats.lockstep_frames += frames as u64;
			}
		}
	}
	stats.creation_errors += a.creation_errors;
	a.teardown();
	if let Some(mut bw) = b {
		bw.teardown();
	}
	crate::hooks::release_all();
	result
}

/// Delta debugging over the op list: smallest sub-program that still fails with the same kind of violation.
pub fn shrink(p: &Program, k: u16, class: &str) -> Program {
	let fails = |q: &Program| -> bool {
		let mut st = Stats { callbacks: 0, frames: 0, nonzero: 0, clamped: 0, lockstep_frames: 0, creation_errors: 0 };
		let mut seen = Default::default();
		match super::guarded(|| run_program(q, k, false, &mut st, &mut seen)) {
			Ok(Ok(())) => false,
			Ok(Err(e)) => e.contains(class),
			Err(pn) => pn.first().map(|p| p.msg.contains(class) || class == "panic").unwrap_or(false),
		}
	};
	let mut cur = p.clone();
	let mut chunk = (cur.ops.len() / 2).max(1);
	while chunk >= 1 {
		let mut i = 0;
		let mut progressed = false;
		while i < cur.ops.len() {
			let mut q = cur.clone();
			let end = (i + chunk).min(q.ops.len());
			q.ops.drain(i..end);
			if !q.ops.is_empty() && fails(&q) {
				cur = q;
				progressed = true;
			} else {
				i += chunk;
			}
		}
		if chunk == 1 && !progressed {
			break;
		}
		chunk = if progressed { chunk } else { chunk / 2 };
		if chunk == 0 {
			break;
		}
	}
	// also try dropping the main-track effects
	for j in (0..cur.main_fx.len()).rev() {
		let mut q = cur.clone();
		q.main_fx.remove(j);
		if fails(&q) {
			cur = q;
		}
	}
	cur
}

pub fn excl_from(ctx: &Ctx) -> Excl {
	Excl {
		distortion_silence: ctx.known("C01.distortion_drive_silence"),
		short_delay: ctx.known("C01.delay_shorter_than_one_frame"),
		reverse_past_end: ctx.known("C01.reverse_start_at_or_past_end"),
		zero_clock_speed: ctx.known("C01.clock_seconds_per_tick_zero"),
		bad_slice: ctx.known("C01.slice_out_of_range_or_inverted"),
		bad_loop: ctx.known("C01.empty_or_inverted_loop_region"),
		small: false,
		hits: Default::default(),
	}
}

pub fn run(ctx: &mut Ctx) {
	let n = ctx.t(8_000u64, 2_000_000u64);
	let mut stats = Stats { callbacks: 0, frames: 0, nonzero: 0, clamped: 0, lockstep_frames: 0, creation_errors: 0 };
	let mut ops_seen = std::collections::BTreeMap::new();
	let mut ex = excl_from(ctx);
	let max_ops = if ctx.engine == "miri" { 24 } else { 300 };
	for i in 0..n {
		if !ctx.owns("prog", i) {
			continue;
		}
		if !ctx.replaying() && !ctx.time_left(0.9) {
			ctx.note("time budget reached before the case limit");
			break;
		}
		let mut r = Rng::for_case(ctx.seed, 101, i);
		let n_ops = if ctx.engine == "miri" { r.usize_in(6, max_ops) } else { r.usize_in(30, max_ops) };
		let p = Program::gen(&mut r, &mut ex, n_ops, ctx.engine == "miri");
		let k = match r.below(3) {
			0 => 1u16,
			_ => r.usize_in(3, 8) as u16,
		};
		ctx.eval();
		monitors::set_current(ctx, "prog", i, &format!("scenario program {} ({} ops, sr {}, ibs {})", i, p.ops.len(), p.sr, p.ibs), false);
		let replaying = ctx.replaying();
		let before_nz = stats.nonzero;
		let res = super::guarded(|| run_program(&p, k, replaying, &mut stats, &mut ops_seen));
		monitors::clear_current();
		let detail = || {
			jobj! {"sample_rate" => p.sr, "internal_buffer_size" => p.ibs, "capacities" => p.caps.to_vec(), "channels" => k, "main_effects" => format!("{:?}", p.main_fx),
			"ops" => p.ops.iter().map(|o| J::S(format!("{:?}", o).chars().take(400).collect())).collect::<Vec<J>>()}
		};
		match res {
			Ok(Ok(())) => {}
			Ok(Err(e)) => {
				if replaying {
					let class = if e.contains("not a finite") { "not a finite" } else if e.contains("allocation") { "allocation" } else if e.contains("outside [-1, 1]") { "outside" } else { "op" };
					let m = shrink(&p, k, class);
					eprintln!("---- shrunk witness ({} ops, main_fx {:?}, sr {}, ibs {}, channels {}):", m.ops.len(), m.main_fx, m.sr, m.ibs, k);
					for o in &m.ops {
						eprintln!("   {}", format!("{:?}", o).chars().take(900).collect::<String>());
					}
				}
				ctx.violation("prog", i, &e, detail())
			}
			Err(pn) if pn.first().map(|p| !p.in_callback && !p.in_harness()).unwrap_or(false) => {
				// a panic raised by an API call on the caller's thread (not inside a callback) ends the program;
				// the property is about callbacks, so it is counted, not judged here
				ctx.count("programs_ended_by_a_panic_in_an_api_call_outside_callbacks", 1);
				crate::hooks::release_all();
			}
			Err(pn) => {
				let sig = pn.first().map(|p| format!("{} (in callback: {})", p.sig(), p.in_callback)).unwrap_or_default();
				if replaying {
					let m = shrink(&p, k, "panic");
					eprintln!("---- shrunk witness ({} ops, main_fx {:?}, sr {}, ibs {}, channels {}):", m.ops.len(), m.main_fx, m.sr, m.ibs, k);
					for o in &m.ops {
						eprintln!("   {}", format!("{:?}", o).chars().take(900).collect::<String>());
					}
				}
				ctx.violation("prog", i, &format!("panic: {}", sig), detail());
			}
		}
		if stats.nonzero > before_nz {
			// distinct: (op-kind multiset class x config class) with audible output
			let mut kinds: Vec<String> = p.ops.iter().map(op_name).collect();
			kinds.sort();
			kinds.dedup();
			ctx.distinct_str(&format!("{:?}|{}|{}|{}", kinds, p.ibs, p.sr, k));
		}
		if ctx.want_sample() && i % 97 == 0 {
			ctx.sample(jobj! {"sample_rate" => p.sr, "internal_buffer_size" => p.ibs, "channels" => k, "n_ops" => p.ops.len(), "first_ops" => p.ops.iter().take(10).map(|o| J::S(format!("{:?}", o).chars().take(160).collect())).collect::<Vec<J>>()});
		}
		if i % 64 == 0 {
			crate::hooks::prune();
		}
	}
	ctx.count("callbacks", stats.callbacks);
	ctx.count("frames_scanned", stats.frames);
	ctx.count("nonzero_samples", stats.nonzero);
	ctx.count("samples_at_the_clamp", stats.clamped);
	ctx.count("frames_checked_against_stereo_rig_in_lockstep", stats.lockstep_frames);
	ctx.count("resource_limit_errors_returned", stats.creation_errors);
	for (k, v) in ops_seen {
		ctx.count(&format!("op_{}", k), v);
	}
	for (k, v) in ex.hits {
		for _ in 0..v {
			ctx.exclude(&k);
		}
	}
}

// ------------------------------------------------------------------ confirmations of listed findings

fn tiny_program(ops: Vec<Op>, main_fx: Vec<crate::probes::FxSpec>) -> Program {
	Program { sr: 48000, ibs: 64, caps: [8, 8, 8, 8, 8], main_vol: 0.0, main_fx, main_sound_cap: 8, ops, uses_streaming: false }
}

fn run_confirm(p: Program) -> Option<String> {
	let mut stats = Stats { callbacks: 0, frames: 0, nonzero: 0, clamped: 0, lockstep_frames: 0, creation_errors: 0 };
	let mut seen = Default::default();
	match super::guarded(|| run_program(&p, 1, false, &mut stats, &mut seen)) {
		Ok(Ok(())) => None,
		Ok(Err(e)) => Some(e),
		Err(pn) => Some(format!("panic: {}", pn.first().map(|p| format!("{} (in callback: {})", p.sig(), p.in_callback)).unwrap_or_default())),
	}
}

pub fn confirm(key: &str) -> Option<Option<String>> {
	use crate::probes::FxSpec;
	use crate::world::{ClockSpeedSpec, SoundX, StartSpec, ValSpec};
	use kira::effect::distortion::DistortionKind;
	let sound = |reverse: bool, len: usize, start: usize, lp: Option<(usize, usize)>| SoundX {
		seed: 1,
		len,
		sr: 48000,
		slice: None,
		start,
		lp,
		reverse,
		rate: ValSpec::Fixed(1.0),
		vol: ValSpec::Fixed(0.0),
		pan: ValSpec::Fixed(0.0),
		fade_in: None,
		start_time: StartSpec::Immediate,
		amp: 0.5,
		packets: vec![64],
		seek_gran: 1,
	};
	match key {
		"C01.distortion_drive_silence" => Some(run_confirm(tiny_program(
			vec![Op::PlayStatic { track: None, s: sound(false, 1000, 0, None) }, Op::Callback(64), Op::Callback(64)],
			vec![FxSpec::Distortion { kind: DistortionKind::HardClip, drive_db: -60.0, mix: 1.0 }],
		))),
		"C01.delay_shorter_than_one_frame" => Some(run_confirm(tiny_program(
			vec![Op::PlayStatic { track: None, s: sound(false, 1000, 0, None) }, Op::Callback(64)],
			vec![FxSpec::Delay { time_s: 0.0, feedback_db: -6.0, mix: 0.5, inner: vec![] }],
		))),
		"C01.reverse_start_at_or_past_end" => {
			// with a loop region the callback never returns: the watchdog (known_hang) reports it
			// reverse + negative rate plays forwards from the underflowed position: the loop wrap never ends
			let mut sx = sound(true, 1, 2, Some((0, 1)));
			sx.rate = ValSpec::Fixed(-1.0);
			let p = tiny_program(vec![Op::PlayStatic { track: None, s: sx }, Op::Callback(64)], vec![]);
			if let Ok(mut g) = monitors::CURRENT.lock() {
				*g = Some(monitors::WatchInfo { property: "C01".into(), stream: "confirm".into(), case: 0, seed: 0, tier: "quick".into(), engine: "native-rel".into(), what: "reversed static sound with start position past its end and a loop region: the audio callback never returns (`num_frames - 1 - start_position` underflows, the loop wrap then runs 2^64 times)".into(), replay_dir: "/verif/replays".into(), known_hang: true });
			}
			let r = run_confirm(p);
			Some(r)
		}
		"C01.slice_out_of_range_or_inverted" => {
			let mut sx = sound(false, 100, 0, None);
			sx.slice = Some((0, 120));
			Some(run_confirm(tiny_program(vec![Op::PlayStatic { track: None, s: sx }, Op::Callback(64), Op::Callback(64), Op::Callback(64)], vec![])))
		}
		"C01.empty_or_inverted_loop_region" => {
			let p = tiny_program(vec![Op::PlayStatic { track: None, s: sound(false, 100, 0, Some((10, 10))) }, Op::Callback(64)], vec![]);
			if let Ok(mut g) = monitors::CURRENT.lock() {
				*g = Some(monitors::WatchInfo { property: "C01".into(), stream: "confirm".into(), case: 0, seed: 0, tier: "quick".into(), engine: "native-rel".into(), what: "static sound with an empty loop region (start == end): the wrap loop in Transport::increment_position subtracts 0 forever; the audio callback never returns".into(), replay_dir: "/verif/replays".into(), known_hang: true });
			}
			Some(run_confirm(p))
		}
		"C01.clock_seconds_per_tick_zero" => {
			let p = tiny_program(vec![Op::AddClock { speed: ClockSpeedSpec::Spt(0.0) }, Op::ClockStart(0), Op::Callback(64)], vec![]);
			if let Ok(mut g) = monitors::CURRENT.lock() {
				*g = Some(monitors::WatchInfo { property: "C01".into(), stream: "confirm".into(), case: 0, seed: 0, tier: "quick".into(), engine: "native-rel".into(), what: "a started clock with ClockSpeed::SecondsPerTick(0.0): ticks per second is infinite and the tick loop in Clock::update never ends (callback hangs)".into(), replay_dir: "/verif/replays".into(), known_hang: true });
			}
			Some(run_confirm(p))
		}
		_ => None,
	}
}
