//! C12 — pausing a track freezes its subtree; removal follows handle/persistence rules;
//! track state queries never panic.

use std::time::Duration;

use kira::clock::{ClockSpeed, ClockTime};
use kira::sound::static_sound::StaticSoundHandle;
use kira::sound::PlaybackState;
use kira::track::{TrackBuilder, TrackHandle, TrackPlaybackState};
use kira::{Easing, StartTime, Tween};

use crate::jobj;
use crate::rig::Rig;
use crate::util::{Ctx, Rng, J};

const SR: u32 = 8000;
const IBS: usize = 16;

fn inst() -> Tween {
	Tween { start_time: StartTime::Immediate, duration: Duration::ZERO, easing: Easing::Linear }
}
fn fade(chunks: f64) -> Tween {
	Tween { start_time: StartTime::Immediate, duration: Duration::from_secs_f64(chunks * IBS as f64 / SR as f64), easing: Easing::Linear }
}

thread_local! {
	static CASE_CLASS: std::cell::Cell<u64> = const { std::cell::Cell::new(0) };
}

struct Node {
	handle: Option<TrackHandle>,
	parent: Option<usize>,
	persist: bool,
	/// sounds directly on this track: (handle, bit index, finite length in frames or None)
	sounds: Vec<(StaticSoundHandle, u32, Option<usize>)>,
	// model
	paused: bool,
	picked_up: bool,
	removed: bool,
	/// callbacks until the pending command takes hold (commands are read at callback start)
	pending_pause: Option<bool>,
	/// a pause/resume command took hold while a strict ancestor was paused: its fade only runs once the
	/// ancestors are un-paused again (fades do not advance in a frozen subtree)
	deferred: bool,
	/// sounds (by index) that have been unloaded from the track (the callback after they became Stopped)
	unloaded: Vec<bool>,
	/// resume_at(Delayed): chunks left to wait (the track stays frozen meanwhile), and the pending request
	/// (fewest, most) chunks left
	waiting: Option<(f64, f64)>,
	pending_wait: Option<f64>,
	/// pause() issued while the track is waiting to resume: the scheduled resume is cancelled, the track stays paused
	pending_cancel_wait: bool,
}

fn amp(bit: u32) -> f32 {
	1.0 / (1u32 << (bit + 2)) as f32
}

struct Scene {
	rig: Rig,
	nodes: Vec<Node>,
	main_sounds: Vec<(StaticSoundHandle, u32)>,
	next_bit: u32,
	log: Vec<String>,
}

impl Scene {
	fn chain_ok(&self, mut i: usize, f: &dyn Fn(&Node) -> bool) -> bool {
		loop {
			if !f(&self.nodes[i]) {
				return false;
			}
			match self.nodes[i].parent {
				Some(p) => i = p,
				None => return true,
			}
		}
	}
	fn children(&self, i: usize) -> Vec<usize> {
		(0..self.nodes.len()).filter(|&c| self.nodes[c].parent == Some(i)).collect()
	}
	/// the removal rule: handle dropped, every descendant track removable, and (if persisting) no sounds left
	fn removable(&self, i: usize, sounds_left: &dyn Fn(usize) -> bool) -> bool {
		let n = &self.nodes[i];
		if n.handle.is_some() {
			return false;
		}
		for c in self.children(i) {
			if !self.nodes[c].removed && !self.removable(c, sounds_left) {
				return false;
			}
		}
		if n.persist && sounds_left(i) {
			return false;
		}
		true
	}
}

fn play_dc(sc: &mut Scene, node: Option<usize>, finite: Option<usize>) {
	if sc.next_bit >= 18 {
		return;
	}
	let bit = sc.next_bit;
	let len = finite.unwrap_or(64);
	let mut d = crate::probes::dc_sound(SR, len, amp(bit));
	if finite.is_none() {
		d = d.loop_region(..);
	}
	match node {
		Some(i) => {
			if let Some(h) = sc.nodes[i].handle.as_mut() {
				if let Ok(s) = h.play(d) {
					sc.nodes[i].sounds.push((s, bit, finite));
					sc.next_bit += 1;
					sc.log.push(format!("play bit{} on track {} ({:?})", bit, i, finite));
				}
			}
		}
		None => {
			if let Ok(s) = sc.rig.mgr.play(d) {
				sc.main_sounds.push((s, bit));
				sc.next_bit += 1;
				sc.log.push(format!("play bit{} on main", bit));
			}
		}
	}
}

/// Random tree + history of instant pause/resume + handle drops; exact audible-set and position monitor.
fn tree_case(r: &mut Rng, stats: &mut Stats) -> Result<(), String> {
	let mut sc = Scene { rig: Rig::simple(SR, IBS), nodes: vec![], main_sounds: vec![], next_bit: 0, log: vec![] };
	sc.rig.watch_alloc = true;
	// build a tree of 1..6 tracks
	let n_tracks = r.usize_in(1, 6);
	for i in 0..n_tracks {
		let persist = r.chance(0.35);
		let parent = if i > 0 && r.chance(0.7) { Some(r.below(i as u64) as usize) } else { None };
		let b = TrackBuilder::new().persist_until_sounds_finish(persist);
		let h = match parent {
			Some(p) => match sc.nodes[p].handle.as_mut() {
				Some(ph) => ph.add_sub_track(b).ok(),
				None => None,
			},
			None => sc.rig.mgr.add_sub_track(b).ok(),
		};
		let ok = h.is_some();
		sc.nodes.push(Node { handle: h, parent, persist, sounds: vec![], paused: false, picked_up: false, removed: !ok, pending_pause: None, deferred: false, unloaded: vec![], waiting: None, pending_wait: None, pending_cancel_wait: false });
		sc.log.push(format!("track {} parent {:?} persist {}", i, parent, persist));
	}
	for i in 0..n_tracks {
		for _ in 0..r.below(3) {
			let finite = if r.chance(0.4) { Some(r.usize_in(IBS, IBS * 12)) } else { None };
			play_dc(&mut sc, Some(i), finite);
		}
	}
	if r.chance(0.5) {
		play_dc(&mut sc, None, None);
	}
	let n_cb = r.usize_in(10, 60);
	// per sound: frames processed while its whole ancestor chain was steadily un-paused (for finite-sound ends)
	let mut last_positions: Vec<Vec<f64>> = sc.nodes.iter().map(|n| n.sounds.iter().map(|s| s.0.position()).collect()).collect();
	let mut last_frames = 0usize;
	let mut prev_full_adv: Vec<bool> = vec![false; n_tracks];
	let mut prev_full_frozen: Vec<bool> = vec![false; n_tracks];
	for cb in 0..n_cb {
		// ---- commands
		for _ in 0..r.below(3) {
			let i = r.below(n_tracks as u64) as usize;
			match r.below(6) {
				0 | 1 => {
					if sc.nodes[i].handle.is_some() && sc.nodes[i].pending_pause.is_none() && sc.nodes[i].waiting.is_none() && sc.nodes[i].pending_wait.is_none() {
						let want = !sc.nodes[i].paused;
						if let Some(h) = sc.nodes[i].handle.as_mut() {
							if want {
								h.pause(inst());
							} else {
								h.resume(inst());
							}
						}
						sc.nodes[i].pending_pause = Some(want);
						sc.log.push(format!("cb{}: {} track {}", cb, if want { "pause" } else { "resume" }, i));
					}
				}
				4 => {
					// resume_at(delayed): the track stays frozen (WaitingToResume) until the delay has elapsed
					if sc.nodes[i].handle.is_some() && sc.nodes[i].pending_pause.is_none() && sc.nodes[i].pending_wait.is_none() && sc.nodes[i].paused && sc.nodes[i].waiting.is_none() {
						let chunks = r.usize_in(2, 9) as f64;
						if let Some(h) = sc.nodes[i].handle.as_mut() {
							h.resume_at(StartTime::Delayed(Duration::from_secs_f64(chunks * IBS as f64 / SR as f64)), inst());
						}
						sc.nodes[i].pending_wait = Some(chunks);
						sc.log.push(format!("cb{}: resume_at(delayed {} chunks) track {}", cb, chunks, i));
					}
				}
				2 => {
					if sc.nodes[i].handle.is_some() && cb > 1 {
						sc.nodes[i].handle = None;
						sc.log.push(format!("cb{}: drop handle of track {}", cb, i));
					}
				}
				3 => {
					// stop a sound on a track (lets persisting tracks finish)
					if let Some(s) = sc.nodes[i].sounds.iter_mut().find(|s| s.0.state() != PlaybackState::Stopped) {
						s.0.stop(inst());
						sc.log.push(format!("cb{}: stop bit{} on track {}", cb, s.1, i));
					}
				}
				_ => {
					// pause a track that is waiting to resume (established by an earlier callback): the wait is cancelled
					if sc.nodes[i].handle.is_some() && sc.nodes[i].pending_pause.is_none() && sc.nodes[i].pending_wait.is_none() && sc.nodes[i].waiting.is_some() && !sc.nodes[i].pending_cancel_wait {
						if let Some(h) = sc.nodes[i].handle.as_mut() {
							h.pause(inst());
						}
						sc.nodes[i].pending_cancel_wait = true;
						sc.log.push(format!("cb{}: pause track {} while it waits to resume", cb, i));
					}
				}
			}
		}
		// the device announces a sample rate (the one already in force) between two callbacks: nothing is removed, paused or
		// resumed by that - the removal rules are the audio callback's alone
		if r.chance(0.12) {
			sc.rig.change_sample_rate(SR);
			sc.log.push(format!("cb{}: sample rate announced", cb));
			stats.rate_announcements += 1;
		}
		// ---- model: what takes hold at this callback's start
		let stopped_before: Vec<Vec<bool>> = sc.nodes.iter().map(|n| n.sounds.iter().map(|s| s.0.state() == PlaybackState::Stopped).collect()).collect();
		// removal (evaluated by the audio thread before it reads the new commands of the same callback)
		// a Stopped sound is unloaded by its track at the next callback; the track itself is examined by its
		// parent *before* that, so it sees the sound for one more callback
		for n in sc.nodes.iter_mut() {
			while n.unloaded.len() < n.sounds.len() {
				n.unloaded.push(false);
			}
		}
		let sounds_left = |i: usize| -> bool { sc.nodes[i].unloaded.iter().any(|u| !*u) };
		let mut to_remove = vec![];
		for i in 0..n_tracks {
			if !sc.nodes[i].removed && sc.nodes[i].picked_up && sc.nodes[i].parent.map(|p| !sc.nodes[p].removed).unwrap_or(true) && sc.removable(i, &sounds_left) {
				to_remove.push(i);
			}
		}
		// a finished (Stopped) sound is unloaded at the next callback: `sounds_left` above used the states before
		for i in to_remove {
			// removing a track removes its whole subtree (all of it was removable)
			let mut stack = vec![i];
			while let Some(k) = stack.pop() {
				sc.nodes[k].removed = true;
				stack.extend(sc.children(k));
			}
		}
		// this callback unloads the sounds that were Stopped before it
		for i in 0..n_tracks {
			for k in 0..sc.nodes[i].sounds.len() {
				if stopped_before[i][k] {
					sc.nodes[i].unloaded[k] = true;
				}
			}
		}
		let mut transition_nodes = vec![false; n_tracks];
		for i in 0..n_tracks {
			let ancestors_unpaused = match sc.nodes[i].parent {
				Some(p) => sc.chain_ok(p, &|x| !x.paused && x.pending_pause != Some(true) || x.pending_pause == Some(false)),
				None => true,
			};
			if let Some(p) = sc.nodes[i].pending_pause.take() {
				if !sc.nodes[i].removed {
					// a resume ramps the gain back over the first chunk
					transition_nodes[i] = !p;
					sc.nodes[i].paused = p;
					if !ancestors_unpaused {
						sc.nodes[i].deferred = true;
					}
				}
			}
			sc.nodes[i].picked_up = true;
		}
		let mut waiting_now = vec![false; n_tracks];
		for i in 0..n_tracks {
			if sc.nodes[i].pending_cancel_wait {
				sc.nodes[i].pending_cancel_wait = false;
				if !sc.nodes[i].removed {
					sc.nodes[i].waiting = None;
					sc.nodes[i].paused = true;
					// like any fade, the (zero-length) fade-out only runs once the ancestors are processed again
					let ancestors_unpaused = match sc.nodes[i].parent {
						Some(p) => sc.chain_ok(p, &|x| !x.paused),
						None => true,
					};
					if !ancestors_unpaused {
						sc.nodes[i].deferred = true;
					}
				}
			}
			if let Some(w) = sc.nodes[i].pending_wait.take() {
				if !sc.nodes[i].removed {
					sc.nodes[i].waiting = Some((w, w));
				}
			}
			waiting_now[i] = sc.nodes[i].waiting.is_some();
		}
		// deferred fades run (and finish) in the first callback in which the whole ancestor chain advances
		for i in 0..n_tracks {
			if sc.nodes[i].deferred {
				transition_nodes[i] = true;
				let thawed = match sc.nodes[i].parent {
					Some(p) => sc.chain_ok(p, &|x| !x.paused),
					None => true,
				};
				if thawed {
					sc.nodes[i].deferred = false;
				}
			}
		}
		let frames = *r.pick(&[IBS, IBS * 2, IBS * 3]);
		let out = sc.rig.callback(frames).to_vec();
		stats.callbacks += 1;
		if sc.rig.alloc_events != 0 {
			return Err("allocation in callback".into());
		}
		// ---- resume_at waits run down only while the track itself is processed (ancestors advancing)
		for i in 0..n_tracks {
			if let Some((lo, hi)) = sc.nodes[i].waiting {
				// surely processed: every strict ancestor steadily un-paused; possibly processed: an ancestor is in
				// a transition (resuming / wait about to expire) during this callback
				let (surely, maybe) = match sc.nodes[i].parent {
					Some(p) => {
						let steady = sc.chain_ok(p, &|x| !x.removed && !x.paused);
						let mut trans = false;
						let mut k = p;
						loop {
							if transition_nodes[k] || sc.nodes[k].waiting.map(|w| w.0 <= 1.0).unwrap_or(false) {
								trans = true;
							}
							match sc.nodes[k].parent {
								Some(q) => k = q,
								None => break,
							}
						}
						(steady && !trans, steady || trans)
					}
					None => (true, true),
				};
				let d = frames as f64 / IBS as f64;
				let lo2 = if maybe { lo - d } else { lo };
				let hi2 = if surely { hi - d } else { hi };
				if lo2 <= 1.0 {
					// about to expire (to within one chunk): undecided from here until it has surely resumed
					transition_nodes[i] = true;
				}
				if hi2 <= -1.0 {
					sc.nodes[i].waiting = None;
					sc.nodes[i].paused = false;
				} else {
					sc.nodes[i].waiting = Some((lo2, hi2));
				}
			}
		}
		if std::env::var("KVH_TRACE").is_ok() {
			let sts: Vec<String> = sc.nodes.iter().map(|n| match &n.handle { Some(h) => format!("{:?}/p{}/w{:?}", h.state(), n.paused as u8, n.waiting), None => "-".into() }).collect();
			eprintln!("cb {} frames {} states {:?} last {:e}", cb, frames, sts, out[out.len() - 2]);
		}
		// ---- states never panic and are one of the five
		for (i, n) in sc.nodes.iter().enumerate() {
			if let Some(h) = &n.handle {
				let st = std::panic::catch_unwind(std::panic::AssertUnwindSafe(|| h.state()));
				match st {
					Ok(s) => {
						let want = if waiting_now[i] && n.waiting.is_some() { TrackPlaybackState::WaitingToResume } else if n.paused { TrackPlaybackState::Paused } else { TrackPlaybackState::Playing };
						if s != want && !transition_nodes[i] {
							return Err(format!("cb {}: track {} reports {:?}, expected {:?} [{}]", cb, i, s, want, sc.log.join("; ")));
						}
					}
					Err(_) => {
						crate::monitors::take_panics();
						return Err(format!("cb {}: TrackHandle::state() panicked for track {}", cb, i));
					}
				}
			}
		}
		// ---- audible set: exactly the sounds whose chain is alive and un-paused (last frame of the callback)
		let any_transition_on_chain = |i: usize| -> bool {
			let mut k = i;
			loop {
				if transition_nodes[k] {
					return true;
				}
				match sc.nodes[k].parent {
					Some(p) => k = p,
					None => return false,
				}
			}
		};
		let mut expect_mask: u32 = 0;
		let mut unsure_mask: u32 = 0;
		for (i, n) in sc.nodes.iter().enumerate() {
			let audible = sc.chain_ok(i, &|x| !x.removed && !x.paused);
			for (k, s) in n.sounds.iter().enumerate() {
				let stopped = s.0.state() == PlaybackState::Stopped;
				if any_transition_on_chain(i) {
					unsure_mask |= 1 << s.1;
				}
				if let Some(_len) = s.2 {
					// finite sounds end on their own: undecided around the end
					if !stopped_before[i][k] && audible {
						unsure_mask |= 1 << s.1;
					}
					continue;
				}
				if audible && !stopped && !stopped_before[i][k] {
					expect_mask |= 1 << s.1;
				} else if audible && stopped != stopped_before[i][k] {
					unsure_mask |= 1 << s.1;
				}
				if any_transition_on_chain(i) {
					unsure_mask |= 1 << s.1;
				}
			}
		}
		for s in &sc.main_sounds {
			expect_mask |= 1 << s.1;
		}
		let last = out[out.len() - 2];
		let got_mask = (last * (1u32 << 20) as f32).round() as u32;
		// bit b has amplitude 2^-(b+2) => position 18-b in a 20-bit integer
		let to_bits = |m: u32| -> u32 { (0..18).filter(|b| m & (1 << b) != 0).map(|b| 1u32 << (18 - b)).sum() };
		let care = !to_bits(unsure_mask);
		if (got_mask & care) != (to_bits(expect_mask) & care) {
			let heard: Vec<u32> = (0..18).filter(|b| got_mask & (1 << (18 - b)) != 0).collect();
			let want: Vec<u32> = (0..18).filter(|b| expect_mask & (1 << b) != 0).collect();
			return Err(format!("cb {}: audible sounds (by level bit) {:?}, expected {:?} (undecided {:?}) [{}]", cb, heard, want, (0..18).filter(|b| unsure_mask & (1 << b) != 0).collect::<Vec<u32>>(), sc.log.join("; ")));
		}
		stats.mask_checks += 1;
		// ---- positions: frozen while any ancestor is steadily Paused, advancing by exactly the frames otherwise
		for (i, n) in sc.nodes.iter().enumerate() {
			let full_adv = sc.chain_ok(i, &|x| !x.removed && !x.paused) && !any_transition_on_chain(i);
			let full_frozen = sc.chain_ok(i, &|x| !x.removed) && !sc.chain_ok(i, &|x| !x.paused) && !any_transition_on_chain(i);
			for (k, s) in n.sounds.iter().enumerate() {
				let p = s.0.position();
				let before = last_positions[i][k];
				if s.2.is_none() && s.0.state() == PlaybackState::Playing && !stopped_before[i][k] {
					// position reported at the start of this callback reflects the previous callback's processing
					if prev_full_frozen[i] && full_frozen && p != before {
						return Err(format!("cb {}: position of a sound on track {} moved from {} to {} while an ancestor track is Paused [{}]", cb, i, before, p, sc.log.join("; ")));
					}
					if prev_full_adv[i] && full_adv {
						// looping 64-frame sound: compare modulo the loop length
						let d = ((p - before) * SR as f64).rem_euclid(64.0);
						let want = (last_frames as f64).rem_euclid(64.0);
						if (d - want).abs() > 1e-6 && (d - want).abs() < 64.0 - 1e-6 {
							return Err(format!("cb {}: position of a sound on track {} advanced by {} frames over a callback of {} frames (must continue exactly) [{}]", cb, i, d, last_frames, sc.log.join("; ")));
						}
						stats.position_checks += 1;
					}
				}
				last_positions[i][k] = p;
			}
			prev_full_adv[i] = full_adv;
			prev_full_frozen[i] = full_frozen;
		}
		last_frames = frames;
		// ---- num_sub_tracks of the manager and of every live handle
		let top_alive = (0..n_tracks).filter(|&i| sc.nodes[i].parent.is_none() && !sc.nodes[i].removed).count();
		if sc.rig.mgr.num_sub_tracks() != top_alive {
			return Err(format!("cb {}: num_sub_tracks() = {} but {} top-level tracks should exist by the handle/persistence rules [{}]", cb, sc.rig.mgr.num_sub_tracks(), top_alive, sc.log.join("; ")));
		}
		for i in 0..n_tracks {
			if let Some(h) = &sc.nodes[i].handle {
				let want = sc.children(i).iter().filter(|&&c| !sc.nodes[c].removed).count();
				if h.num_sub_tracks() != want {
					return Err(format!("cb {}: track {} num_sub_tracks() = {} but {} children should exist [{}]", cb, i, h.num_sub_tracks(), want, sc.log.join("; ")));
				}
			}
		}
	}
	// the class of this case: the tree's shape, which tracks persist, and which kinds of operation its history contains
	let shape: Vec<(Option<usize>, bool)> = sc.nodes.iter().map(|n| (n.parent, n.persist)).collect();
	let mut kinds: Vec<&str> = ["pause", "resume track", "resume_at", "drop handle", "stop bit", "while it waits"].into_iter().filter(|k| sc.log.iter().any(|l| l.contains(k))).collect();
	kinds.sort();
	CASE_CLASS.with(|c| c.set(crate::util::hash_str(&format!("{:?}|{:?}|{}", shape, kinds, sc.main_sounds.len())) & 0xFFFF_FFFF));
	Ok(())
}

/// A sound with a delayed start / a running fade under a track that is paused for a while:
/// the delay and the fade are extended by exactly the paused duration (± one chunk).
fn delay_extension_case(r: &mut Rng, stats: &mut Stats) -> Result<(), String> {
	// (in 40 % of the cases the device's internal buffer is three callbacks long: every callback is one short chunk, and
	// fades, delays and positions must still be counted in the frames actually rendered)
	let mut rig = Rig::simple(SR, if r.chance(0.4) { IBS * 3 } else { IBS });
	let mut parent = rig.mgr.add_sub_track(TrackBuilder::new()).map_err(|_| "t")?;
	let nested = r.chance(0.5);
	let mut child = if nested { Some(parent.add_sub_track(TrackBuilder::new()).map_err(|_| "t")?) } else { None };
	let delay_chunks = r.usize_in(4, 12);
	let d = crate::probes::dc_sound(SR, 64, 0.25).loop_region(..).start_time(StartTime::Delayed(Duration::from_secs_f64(delay_chunks as f64 * IBS as f64 / SR as f64)));
	let _s = match child.as_mut() {
		Some(c) => c.play(d),
		None => parent.play(d),
	}
	.map_err(|_| "play")?;
	let pause_at = r.usize_in(1, delay_chunks - 2);
	let pause_len = r.usize_in(1, 10);
	let fade_chunks = if r.chance(0.5) { 0.0 } else { r.f64_in(0.0, 2.0) };
	let mut first_audible: Option<usize> = None;
	for cb in 0..(delay_chunks + pause_len + 12) {
		if cb == pause_at {
			parent.pause(fade(fade_chunks));
		}
		if cb == pause_at + pause_len {
			parent.resume(fade(fade_chunks));
		}
		let out = rig.callback(IBS).to_vec();
		stats.callbacks += 1;
		if first_audible.is_none() && out.iter().any(|x| *x != 0.0) {
			first_audible = Some(cb);
		}
		let _ = parent.state();
	}
	// the track keeps advancing while its pause fade runs, and only then freezes
	let frozen_chunks = pause_len as f64 - fade_chunks.ceil();
	let want_lo = delay_chunks as f64 + frozen_chunks - 1.5;
	let want_hi = delay_chunks as f64 + pause_len as f64 + fade_chunks + 1.5;
	match first_audible {
		Some(f) if (f as f64) >= want_lo && (f as f64) <= want_hi => Ok(()),
		other => Err(format!(
			"a sound with a start delay of {} chunks on a {}track paused at chunk {} for {} chunks (fade {:.2}) became audible at chunk {:?}; the delay must be extended by the paused duration: expected within [{:.1}, {:.1}]",
			delay_chunks, if nested { "nested " } else { "" }, pause_at, pause_len, fade_chunks, other, want_lo, want_hi
		)),
	}
}

/// state() must return one of the five track states and never panic, for every pause / resume / resume_at
/// history including a resume scheduled on a clock that is later removed.
fn state_query_case(r: &mut Rng, known_clock_removed: bool, stats: &mut Stats) -> Result<(), String> {
	let mut rig = Rig::simple(SR, IBS);
	let mut t = rig.mgr.add_sub_track(TrackBuilder::new()).map_err(|_| "t")?;
	let mut clock = Some(rig.mgr.add_clock(ClockSpeed::TicksPerSecond(50.0)).map_err(|_| "c")?);
	if let Some(c) = clock.as_mut() {
		c.start();
	}
	let _s = t.play(crate::probes::dc_sound(SR, 64, 0.25).loop_region(..)).map_err(|_| "play")?;
	let mut hist = vec![];
	for cb in 0..r.usize_in(5, 40) {
		match r.below(8) {
			0 => {
				t.pause(fade(r.f64_in(0.0, 3.0)));
				hist.push(format!("cb{}: pause", cb));
			}
			1 => {
				t.resume(fade(r.f64_in(0.0, 3.0)));
				hist.push(format!("cb{}: resume", cb));
			}
			2 => {
				t.resume_at(StartTime::Delayed(Duration::from_secs_f64(r.f64_in(0.0, 0.02))), fade(r.f64_in(0.0, 3.0)));
				hist.push(format!("cb{}: resume_at(delayed)", cb));
			}
			3 => {
				if let Some(c) = &clock {
					let now = c.time();
					t.resume_at(StartTime::ClockTime(ClockTime::from_ticks_u64(c.id(), now.ticks + r.below(4))), fade(r.f64_in(0.0, 3.0)));
					hist.push(format!("cb{}: resume_at(clock)", cb));
				}
			}
			4 => {
				if !known_clock_removed && clock.is_some() {
					clock = None;
					hist.push(format!("cb{}: clock dropped", cb));
				}
			}
			_ => {}
		}
		rig.callback(IBS);
		stats.callbacks += 1;
		let st = std::panic::catch_unwind(std::panic::AssertUnwindSafe(|| t.state()));
		match st {
			Ok(s) => {
				stats.state_queries += 1;
				let _: TrackPlaybackState = s;
			}
			Err(_) => {
				let p = crate::monitors::take_panics();
				return Err(format!("TrackHandle::state() panicked: {} [{}]", p.first().map(|p| p.sig()).unwrap_or_default(), hist.join("; ")));
			}
		}
	}
	// whatever happened (also a resume whose clock was removed), the track can still be resumed
	t.resume(inst());
	rig.callback(IBS);
	rig.callback(IBS);
	let st = std::panic::catch_unwind(std::panic::AssertUnwindSafe(|| t.state()));
	match st {
		Ok(TrackPlaybackState::Playing) => {
			let b = rig.callback(IBS);
			if b.iter().all(|x| *x == 0.0) {
				return Err(format!("track reports Playing after resume but its sound is silent [{}]", hist.join("; ")));
			}
		}
		Ok(s) => return Err(format!("after resume(immediately) and two callbacks the track is {:?}, not Playing: it can no longer be resumed [{}]", s, hist.join("; "))),
		Err(_) => {
			let p = crate::monitors::take_panics();
			return Err(format!("TrackHandle::state() panicked: {} [{}]", p.first().map(|p| p.sig()).unwrap_or_default(), hist.join("; ")));
		}
	}
	Ok(())
}

/// A plain or a spatial track, paused, then (a) resumed with `resume(tween)` whose fade-in tween has a delayed start: the track
/// is Resuming at once - its sounds advance, silently, until the fade begins - and Playing when the delayed fade has ended;
/// or (b) resumed with `resume_at` a clock time of a clock that is NOT running (never started, paused past that time,
/// stopped): the track waits - frozen and silent - until the clock is started.
fn resume_variants_case(r: &mut Rng, stats: &mut Stats) -> Result<(), String> {
	enum T {
		Plain(TrackHandle),
		Spatial(kira::track::SpatialTrackHandle),
	}
	impl T {
		fn pause(&mut self, t: Tween) {
			match self {
				T::Plain(h) => h.pause(t),
				T::Spatial(h) => h.pause(t),
			}
		}
		fn resume(&mut self, t: Tween) {
			match self {
				T::Plain(h) => h.resume(t),
				T::Spatial(h) => h.resume(t),
			}
		}
		fn resume_at(&mut self, st: StartTime, t: Tween) {
			match self {
				T::Plain(h) => h.resume_at(st, t),
				T::Spatial(h) => h.resume_at(st, t),
			}
		}
		fn state(&self) -> TrackPlaybackState {
			match self {
				T::Plain(h) => h.state(),
				T::Spatial(h) => h.state(),
			}
		}
		fn play(&mut self, d: kira::sound::static_sound::StaticSoundData) -> Result<StaticSoundHandle, String> {
			match self {
				T::Plain(h) => h.play(d).map_err(|_| "play".to_string()),
				T::Spatial(h) => h.play(d).map_err(|_| "play".to_string()),
			}
		}
	}
	let mut rig = Rig::simple(SR, IBS);
	let listener = rig.mgr.add_listener(glam::Vec3::ZERO, glam::Quat::IDENTITY).map_err(|_| "listener")?;
	let spatial = r.chance(0.5);
	let kind = if spatial { "spatial track" } else { "track" };
	let mut t = if spatial {
		T::Spatial(rig.mgr.add_spatial_sub_track(&listener, glam::Vec3::ZERO, kira::track::SpatialTrackBuilder::new().attenuation_function(None::<Easing>).spatialization_strength(0.0)).map_err(|_| "t")?)
	} else {
		T::Plain(rig.mgr.add_sub_track(TrackBuilder::new()).map_err(|_| "t")?)
	};
	let s = t.play(crate::probes::dc_sound(SR, 100_000, 0.25))?;
	let mut clock = rig.mgr.add_clock(ClockSpeed::TicksPerSecond(SR as f64 / IBS as f64)).map_err(|_| "c")?;
	let clock_variant = r.below(3);
	let k = r.usize_in(1, 5);
	match clock_variant {
		0 => {}
		1 => {
			clock.start();
			for _ in 0..k {
				rig.callback(IBS);
			}
			clock.pause();
		}
		_ => {
			clock.start();
			for _ in 0..k {
				rig.callback(IBS);
			}
			clock.stop();
		}
	}
	rig.callback(IBS);
	t.pause(fade(0.0));
	for _ in 0..3 {
		rig.callback(IBS);
	}
	stats.callbacks += 4;
	if t.state() != TrackPlaybackState::Paused {
		return Err(format!("{}: not Paused three callbacks after an instant pause: {:?}", kind, t.state()));
	}
	let p0 = s.position();
	if r.chance(0.5) {
		// (a) resume() with a fade-in whose start is delayed
		let (w, d) = (r.usize_in(2, 6), r.usize_in(0, 3));
		let mut tw = fade(d as f64);
		tw.start_time = StartTime::Delayed(Duration::from_secs_f64((w as f64 + 0.5) * IBS as f64 / SR as f64));
		t.resume(tw);
		rig.callback(IBS);
		rig.callback(IBS);
		let st = t.state();
		if st != TrackPlaybackState::Resuming {
			return Err(format!("{}: resume() with a fade-in tween that starts after {}.5 chunks: state {:?} two callbacks later, expected Resuming (resume() resumes now; only the fade is delayed)", kind, w, st));
		}
		if s.position() <= p0 {
			return Err(format!("{}: resume() with a delayed fade-in: the sound's position has not moved two callbacks later ({} -> {})", kind, p0, s.position()));
		}
		for _ in 0..w + d + 3 {
			rig.callback(IBS);
		}
		let out = rig.callback(IBS).to_vec();
		if t.state() != TrackPlaybackState::Playing || out.iter().all(|x| *x == 0.0) {
			return Err(format!("{}: resume() with a fade-in of {} chunks delayed by {}.5 chunks: {} callbacks later the state is {:?} and the output is {}", kind, d, w, w + d + 6, t.state(), if out.iter().all(|x| *x == 0.0) { "silent" } else { "audible" }));
		}
	} else {
		// (b) resume_at a time of a clock that is not running
		let target = if clock_variant == 1 { r.below(k as u64 + 1) } else { 0 };
		let what = ["never started", "paused", "stopped (time back at 0)"][clock_variant as usize];
		t.resume_at(StartTime::ClockTime(ClockTime::from_ticks_u64(clock.id(), target)), fade(0.0));
		for n in 0..r.usize_in(3, 9) {
			let out = rig.callback(IBS).to_vec();
			if t.state() != TrackPlaybackState::WaitingToResume || out.iter().any(|x| *x != 0.0) || s.position() != p0 {
				return Err(format!("{}: resume_at tick {} of a clock that is not running ({}): {} callbacks later the state is {:?}, the output is {}, the sound's position went {} -> {}; expected to wait, frozen and silent, until the clock runs", kind, target, what, n + 1, t.state(), if out.iter().any(|x| *x != 0.0) { "audible" } else { "silent" }, p0, s.position()));
			}
		}
		clock.start();
		let mut heard = false;
		for _ in 0..4 {
			heard |= rig.callback(IBS).iter().any(|x| *x != 0.0);
		}
		if !heard {
			return Err(format!("{}: resume_at tick {} of a clock ({}) that was then started: still silent 4 callbacks later", kind, target, what));
		}
	}
	Ok(())
}

/// A pause whose fade-out tween has a delayed start: the track keeps playing (reported Pausing) until the start time,
/// then fades for the tween's duration (also when that is zero) and only then freezes.
fn delayed_fade_case(r: &mut Rng, stats: &mut Stats) -> Result<(), String> {
	let mut rig = Rig::simple(SR, if r.chance(0.4) { IBS * 3 } else { IBS });
	let mut t = rig.mgr.add_sub_track(TrackBuilder::new()).map_err(|_| "t")?;
	let s = t.play(crate::probes::dc_sound(SR, 100_000, 0.25)).map_err(|_| "play")?;
	for _ in 0..r.usize_in(1, 3) {
		rig.callback(IBS);
	}
	let delay_chunks = r.usize_in(2, 8);
	let dur_chunks = *r.pick(&[0.0f64, 0.0, 1.0, 2.5]);
	let chunk_s = IBS as f64 / SR as f64;
	t.pause(Tween { start_time: StartTime::Delayed(Duration::from_secs_f64(delay_chunks as f64 * chunk_s)), duration: Duration::from_secs_f64(dur_chunks * chunk_s), easing: kira::Easing::Linear });
	let mut prev_pos = s.position();
	for k in 0..delay_chunks + dur_chunks.ceil() as usize + 4 {
		let out = rig.callback(IBS).to_vec();
		stats.callbacks += 1;
		let pos = s.position();
		let st = t.state();
		if k + 1 < delay_chunks {
			// well before the start time: full level, position advancing
			if out.iter().any(|x| (*x - out[0]).abs() > 1e-6) || out[0].abs() < 0.1 {
				return Err(format!("pause with a fade that starts after {} chunks (duration {} chunks): callback {} is already attenuated or silent ({:?}..), state {:?}", delay_chunks, dur_chunks, k, &out[..2], st));
			}
			if k > 0 && pos <= prev_pos {
				return Err(format!("pause with a fade that starts after {} chunks: the sound's position stands still in callback {} (state {:?})", delay_chunks, k, st));
			}
			if st != TrackPlaybackState::Pausing {
				return Err(format!("pause with a fade that starts after {} chunks: state {:?} in callback {}, expected Pausing", delay_chunks, st, k));
			}
		}
		if k >= delay_chunks + dur_chunks.ceil() as usize + 2 {
			if st != TrackPlaybackState::Paused || out.iter().any(|x| *x != 0.0) || pos != prev_pos {
				return Err(format!("pause with a fade that starts after {} chunks (duration {} chunks): callback {} should be frozen and silent: state {:?}, output {:?}, position {} -> {}", delay_chunks, dur_chunks, k, st, &out[..2], prev_pos, pos));
			}
		}
		prev_pos = pos;
	}
	Ok(())
}

#[derive(Default)]
pub struct Stats {
	pub callbacks: u64,
	pub mask_checks: u64,
	pub position_checks: u64,
	pub state_queries: u64,
	pub rate_announcements: u64,
}

pub fn run(ctx: &mut Ctx) {
	let mut stats = Stats::default();
	let n = ctx.t(200_000u64, 10_000_000u64);
	let clock_known = ctx.known("C12.track_state_panics_after_resume_clock_removed");
	for i in 0..n {
		if !ctx.owns("tree", i) {
			continue;
		}
		if !ctx.replaying() && !ctx.time_left(0.9) {
			ctx.note("time budget reached before the case limit");
			break;
		}
		let mut r = Rng::for_case(ctx.seed, 1201, i);
		ctx.eval();
		crate::monitors::set_current(ctx, "tree", i, "track tree case", false);
		let kind = i % 10;
		let res = super::guarded(|| match kind {
			0..=5 => tree_case(&mut r, &mut stats),
			6 | 7 => delay_extension_case(&mut r, &mut stats),
			_ => {
				if r.chance(0.3) {
					delayed_fade_case(&mut r, &mut stats)
				} else if r.chance(0.4) {
					resume_variants_case(&mut r, &mut stats)
				} else {
					state_query_case(&mut r, clock_known, &mut stats)
				}
			}
		});
		crate::monitors::clear_current();
		if kind >= 8 && clock_known {
			ctx.exclude("C12.track_state_panics_after_resume_clock_removed");
		}
		match res {
			// distinct = a new class: (tree shape, persistence flags, kinds of operation in the history) for the tree cases, the
			// case family for the others
			Ok(Ok(())) => ctx.distinct_key(0xC12_0000_0000_0000 | (kind.min(6) << 40) | if kind <= 5 { CASE_CLASS.with(|c| c.get()) } else { 0 }),
			Ok(Err(e)) => ctx.violation("tree", i, &e, J::Null),
			Err(p) => ctx.violation("tree", i, &format!("panic: {} (in callback: {})", p.first().map(|p| p.sig()).unwrap_or_default(), p.first().map(|p| p.in_callback).unwrap_or(false)), J::Null),
		}
	}
	ctx.count("callbacks", stats.callbacks);
	ctx.count("audible_set_checks", stats.mask_checks);
	ctx.count("position_continuity_checks", stats.position_checks);
	ctx.count("state_queries", stats.state_queries);
	ctx.count("sample_rate_announcements_between_callbacks", stats.rate_announcements);
	ctx.sample(jobj! {"monitor" => "track trees", "note" => "1-6 tracks (nested, persist on/off), DC sounds with power-of-two levels (the output level decodes the audible set), instant pause/resume, handle drops, sound stops; audible set, positions, num_sub_tracks and state() compared with the model after every callback"});
}

pub fn confirm(key: &str) -> Option<Option<String>> {
	match key {
		"C12.track_state_panics_after_resume_clock_removed" => {
			let r = super::guarded(|| -> Option<String> {
				let mut rig = Rig::simple(SR, IBS);
				let mut t = rig.mgr.add_sub_track(TrackBuilder::new()).ok()?;
				let mut c = rig.mgr.add_clock(ClockSpeed::TicksPerSecond(1.0)).ok()?;
				c.start();
				rig.callback(IBS);
				t.pause(inst());
				t.resume_at(StartTime::ClockTime(ClockTime::from_ticks_u64(c.id(), 100)), inst());
				rig.callback(IBS);
				drop(c);
				rig.callback(IBS);
				rig.callback(IBS);
				let st = std::panic::catch_unwind(std::panic::AssertUnwindSafe(|| t.state()));
				match st {
					Ok(_) => None,
					Err(_) => {
						let p = crate::monitors::take_panics();
						Some(format!("TrackHandle::state() panics after pause + resume_at(clock time) when that clock is dropped: {}", p.first().map(|p| p.sig()).unwrap_or_default()))
					}
				}
			});
			Some(r.ok().flatten())
		}
		_ => None,
	}
}
