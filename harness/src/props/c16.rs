//! C16 — seconds and hertz mean the same at every device sample rate and across changes.
//! (A) rate-in-force invariant observed by a probe effect over all short histories of
//!     {add track (6 paths), change rate, callback} and over all interleavings of the two-thread race;
//! (B) quantities in seconds / hertz measured on renderings at different rates and across a change.

use std::sync::atomic::{AtomicU32, AtomicU64, Ordering};
use std::sync::{Arc, Mutex};
use std::time::Duration;

use kira::clock::{ClockSpeed, ClockTime};
use kira::effect::delay::DelayBuilder;
use kira::effect::filter::{FilterBuilder, FilterMode};
use kira::effect::volume_control::VolumeControlBuilder;
use kira::effect::{Effect, EffectBuilder};
use kira::info::Info;
use kira::listener::ListenerHandle;
use kira::track::{MainTrackBuilder, SendTrackBuilder, SendTrackHandle, SpatialTrackBuilder, SpatialTrackHandle, TrackBuilder, TrackHandle};
use kira::{Decibels, Easing, Frame, Mix, StartTime, Tween};

use crate::jobj;
use crate::rig::{Rig, RigConfig};
use crate::util::{Ctx, Rng, J};

pub const RATES: [u32; 8] = [8000, 11025, 16000, 22050, 44100, 48000, 96000, 192000];

// ---------------------------------------------------------------- probe effect

#[derive(Default)]
pub struct ProbeState {
	told: AtomicU32,
	inits: AtomicU32,
	changes: AtomicU32,
	calls: AtomicU64,
	bad: AtomicU64,
	bad_told: AtomicU32,
	bad_seen: AtomicU32,
}

struct RateProbe(Arc<ProbeState>, Option<Arc<Mutex<Vec<&'static str>>>>);

impl Effect for RateProbe {
	fn init(&mut self, sample_rate: u32, _ibs: usize) {
		self.0.told.store(sample_rate, Ordering::SeqCst);
		self.0.inits.fetch_add(1, Ordering::SeqCst);
		if let Some(l) = &self.1 {
			l.lock().unwrap().push("init");
		}
	}
	fn on_change_sample_rate(&mut self, sample_rate: u32) {
		self.0.told.store(sample_rate, Ordering::SeqCst);
		self.0.changes.fetch_add(1, Ordering::SeqCst);
	}
	fn process(&mut self, _input: &mut [Frame], dt: f64, _info: &Info) {
		let seen = (1.0 / dt).round() as u32;
		let told = self.0.told.load(Ordering::SeqCst);
		self.0.calls.fetch_add(1, Ordering::SeqCst);
		if seen != told && self.0.bad.fetch_add(1, Ordering::SeqCst) == 0 {
			self.0.bad_told.store(told, Ordering::SeqCst);
			self.0.bad_seen.store(seen, Ordering::SeqCst);
		}
	}
}

struct RateProbeBuilder(Arc<ProbeState>, Option<Arc<Mutex<Vec<&'static str>>>>);
impl EffectBuilder for RateProbeBuilder {
	type Handle = ();
	fn build(self) -> (Box<dyn Effect>, ()) {
		(Box::new(RateProbe(self.0, self.1)), ())
	}
}

// ---------------------------------------------------------------- (A) histories

enum AnyTrack {
	Plain(TrackHandle),
	Spatial(SpatialTrackHandle),
	Send(#[allow(dead_code)] SendTrackHandle),
	/// the handle was dropped; the track lives on through its children (whose handles are kept)
	Dropped,
}

const OP_NAMES: [&str; 11] = ["add_sub_track(fx)", "add_sub_track(group)", "handle.add_sub_track(fx)", "add_spatial_sub_track(fx)", "add_send_track(fx)", "change_sample_rate", "callback", "handle.add_sub_track(group)", "handle.add_spatial_sub_track(fx)", "add_sub_track(delay with fx in its feedback loop)", "drop the handle of a track that has children"];
const N_OPS: u64 = 11;

struct Hist {
	rig: Rig,
	listener: ListenerHandle,
	tracks: Vec<AnyTrack>,
	probes: Vec<(String, Arc<ProbeState>)>,
	rate_ix: usize,
	/// index in `tracks` of the parent of every nested track
	parent_of: Vec<(usize, usize)>,
	last_parent: Option<usize>,
}

impl Hist {
	fn new(ibs: usize, rate_ix: usize) -> Hist {
		let main_probe = Arc::new(ProbeState::default());
		let mut rig = Rig::new(RigConfig { sample_rate: RATES[rate_ix], ibs, ..Default::default() }, MainTrackBuilder::new().with_effect(RateProbeBuilder(main_probe.clone(), None)));
		let listener = rig.mgr.add_listener(glam::Vec3::ZERO, glam::Quat::IDENTITY).expect("listener");
		Hist { rig, listener, tracks: vec![], probes: vec![("main".into(), main_probe)], rate_ix, parent_of: vec![], last_parent: None }
	}
	fn probe(&mut self, name: &str) -> RateProbeBuilder {
		let p = Arc::new(ProbeState::default());
		self.probes.push((format!("{}#{}", name, self.probes.len()), p.clone()));
		RateProbeBuilder(p, None)
	}
	/// the most recent non-send track (parent of nested adds)
	fn parent(&mut self, pick: usize) -> Option<&mut AnyTrack> {
		let idx: Vec<usize> = self.tracks.iter().enumerate().filter(|(_, t)| !matches!(t, AnyTrack::Send(_) | AnyTrack::Dropped)).map(|(i, _)| i).collect();
		if idx.is_empty() {
			self.last_parent = None;
			return None;
		}
		let i = idx[idx.len() - 1 - pick % idx.len()];
		self.last_parent = Some(i);
		self.tracks.get_mut(i)
	}
	fn apply(&mut self, op: u64, pick: usize, cb_frames: usize) {
		match op {
			0 => {
				let b = TrackBuilder::new().with_effect(self.probe("top"));
				if let Ok(t) = self.rig.mgr.add_sub_track(b) {
					self.tracks.push(AnyTrack::Plain(t));
				}
			}
			1 => {
				if let Ok(t) = self.rig.mgr.add_sub_track(TrackBuilder::new()) {
					self.tracks.push(AnyTrack::Plain(t));
				}
			}
			2 | 7 => {
				let b = if op == 2 { TrackBuilder::new().with_effect(self.probe("nested")) } else { TrackBuilder::new() };
				let r = match self.parent(pick) {
					Some(AnyTrack::Plain(p)) => p.add_sub_track(b).ok(),
					Some(AnyTrack::Spatial(p)) => p.add_sub_track(b).ok(),
					_ => {
						if op == 2 {
							self.probes.pop();
						}
						None
					}
				};
				if let Some(t) = r {
					if let Some(p) = self.last_parent {
						self.parent_of.push((self.tracks.len(), p));
					}
					self.tracks.push(AnyTrack::Plain(t));
				}
			}
			3 => {
				let b = SpatialTrackBuilder::new().with_effect(self.probe("spatial"));
				let id = self.listener.id();
				if let Ok(t) = self.rig.mgr.add_spatial_sub_track(id, glam::Vec3::X, b) {
					self.tracks.push(AnyTrack::Spatial(t));
				}
			}
			4 => {
				let b = SendTrackBuilder::new().with_effect(self.probe("send"));
				if let Ok(t) = self.rig.mgr.add_send_track(b) {
					self.tracks.push(AnyTrack::Send(t));
				}
			}
			5 => {
				self.rate_ix = (self.rate_ix + 1 + pick % 3) % RATES.len();
				self.rig.change_sample_rate(RATES[self.rate_ix]);
			}
			6 => {
				self.rig.callback(cb_frames);
			}
			10 => {
				// a track outlives its handle while a track beneath it is kept: it (and everything beneath it) still has to learn
				// every sample-rate change
				let parents: Vec<usize> = self.parent_of.iter().map(|x| x.1).filter(|p| !matches!(self.tracks[*p], AnyTrack::Dropped)).collect();
				if !parents.is_empty() {
					let p = parents[pick % parents.len()];
					self.tracks[p] = AnyTrack::Dropped;
				}
			}
			9 => {
				// an effect inside another effect: the delay must hand init / rate changes on to its feedback effects
				// (for every line length, including lines whose length in frames is the same at both rates: zero and
				// sub-frame delay times; and one level deeper, a delay in a delay's feedback loop)
				let td = [Duration::from_millis(5), Duration::ZERO, Duration::from_micros(10), Duration::from_millis(40)][pick % 4];
				let inner = self.probe("in-delay-feedback");
				let b = if pick % 8 < 4 {
					TrackBuilder::new().with_effect(DelayBuilder::new().delay_time(td).with_feedback_effect(inner))
				} else {
					TrackBuilder::new().with_effect(DelayBuilder::new().delay_time(Duration::from_millis(3)).with_feedback_effect(DelayBuilder::new().delay_time(td).with_feedback_effect(inner)))
				};
				if let Ok(t) = self.rig.mgr.add_sub_track(b) {
					self.tracks.push(AnyTrack::Plain(t));
				}
			}
			_ => {
				let b = SpatialTrackBuilder::new().with_effect(self.probe("nested-spatial"));
				let id = self.listener.id();
				let r = match self.parent(pick) {
					Some(AnyTrack::Plain(p)) => p.add_spatial_sub_track(id, glam::Vec3::X, b).ok(),
					Some(AnyTrack::Spatial(p)) => p.add_spatial_sub_track(id, glam::Vec3::X, b).ok(),
					_ => {
						self.probes.pop();
						None
					}
				};
				if let Some(t) = r {
					if let Some(p) = self.last_parent {
						self.parent_of.push((self.tracks.len(), p));
					}
					self.tracks.push(AnyTrack::Spatial(t));
				}
			}
		}
	}
	/// verdict after the history: every probe must have been told the rate in force at every process call
	fn verdict(&mut self) -> Result<u64, String> {
		// (a track removed earlier in the history - e.g. a parent dropped while its only child was still waiting to be picked
		// up - is not told later rates and is not processed either: "last told" is judged for the probes still being processed)
		let before: Vec<u64> = self.probes.iter().map(|(_, p)| p.calls.load(Ordering::SeqCst)).collect();
		self.rig.callback(5);
		self.rig.callback(3);
		let cur = RATES[self.rate_ix];
		let mut processed = 0;
		for (k, (name, p)) in self.probes.iter().enumerate() {
			if p.bad.load(Ordering::SeqCst) > 0 {
				return Err(format!("effect '{}' processed with dt = 1/{} while the last sample rate it was told is {} ({} process calls affected; init calls {}, on_change_sample_rate calls {})", name, p.bad_seen.load(Ordering::SeqCst), p.bad_told.load(Ordering::SeqCst), p.bad.load(Ordering::SeqCst), p.inits.load(Ordering::SeqCst), p.changes.load(Ordering::SeqCst)));
			}
			if p.calls.load(Ordering::SeqCst) > before[k] {
				processed += 1;
				if p.told.load(Ordering::SeqCst) != cur {
					return Err(format!("effect '{}' was last told {} Hz but the device runs at {} Hz", name, p.told.load(Ordering::SeqCst), cur));
				}
			}
		}
		Ok(processed)
	}
}

fn decode_history(mut code: u64, len: usize) -> Vec<u64> {
	let mut v = vec![];
	for _ in 0..len {
		v.push(code % N_OPS);
		code /= N_OPS;
	}
	v
}

fn run_history(ops: &[(u64, usize, usize)], ibs: usize, rate_ix: usize) -> Result<u64, String> {
	let mut h = Hist::new(ibs, rate_ix);
	for (op, pick, n) in ops {
		h.apply(*op, *pick, *n);
	}
	let r = h.verdict();
	if h.rig.alloc_events != 0 {
		return Err("allocation inside a callback".into());
	}
	r
}

fn describe(ops: &[(u64, usize, usize)]) -> String {
	ops.iter().map(|(o, _, _)| OP_NAMES[*o as usize]).collect::<Vec<_>>().join(" ; ")
}

/// the deterministic history "track added, rate changed, then first picked up" (no callback between add and change)
fn is_add_change_pickup(ops: &[(u64, usize, usize)]) -> bool {
	let mut pending_add = false;
	for (o, _, _) in ops {
		match o {
			0 | 2 | 3 | 4 | 8 | 9 => pending_add = true,
			6 => pending_add = false,
			5 if pending_add => return true,
			_ => {}
		}
	}
	false
}

// ---------------------------------------------------------------- (A') race at track.add.loaded

const RACE_KEY: &str = "C16.rate_change_between_rate_load_and_enqueue";

fn race_filter(site: &str) -> bool {
	site == "track.add.loaded" || site.starts_with("game.") || site.starts_with("audio.")
}

/// returns (run result, events, verdict)
fn race_case(path: u64, prefix: Vec<usize>, n_changes: usize) -> (crate::sched::RunResult, Vec<&'static str>, Result<(), String>) {
	let events: Arc<Mutex<Vec<&'static str>>> = Arc::new(Mutex::new(vec![]));
	let probe = Arc::new(ProbeState::default());
	let mut rig = Rig::simple(RATES[0], 16);
	rig.watch_alloc = false;
	let listener = rig.mgr.add_listener(glam::Vec3::ZERO, glam::Quat::IDENTITY).expect("listener");
	// parents for the nested paths are created and picked up before the race
	let mut parent = rig.mgr.add_sub_track(TrackBuilder::new()).expect("parent");
	let mut sparent = rig.mgr.add_spatial_sub_track(listener.id(), glam::Vec3::X, SpatialTrackBuilder::new()).expect("sparent");
	rig.callback(4);
	let renderer = rig.renderer.take().unwrap();
	let back: Arc<Mutex<Option<kira::backend::Renderer>>> = Arc::new(Mutex::new(None));
	let back2 = back.clone();
	let ev_a = events.clone();
	let audio: Box<dyn FnOnce() + Send> = Box::new(move || {
		let mut renderer = renderer;
		let mut buf = vec![0.0f32; 8];
		for k in 0..n_changes {
			crate::sched::yield_now("audio.change");
			renderer.on_change_sample_rate(RATES[1 + k]);
			ev_a.lock().unwrap().push("change");
			crate::sched::yield_now("audio.cb");
			renderer.on_start_processing();
			renderer.process(&mut buf, 2);
			ev_a.lock().unwrap().push("callback");
		}
		*back2.lock().unwrap() = Some(renderer);
	});
	let ev_g = events.clone();
	let pb = RateProbeBuilder(probe.clone(), Some(events.clone()));
	let lid = listener.id();
	let keep: Arc<Mutex<Option<AnyTrack>>> = Arc::new(Mutex::new(None));
	let keep2 = keep.clone();
	let mgr_slot: Arc<Mutex<Option<Rig>>> = Arc::new(Mutex::new(None));
	let mgr_slot2 = mgr_slot.clone();
	let game: Box<dyn FnOnce() + Send> = Box::new(move || {
		let mut rig = rig;
		crate::sched::yield_now("game.add");
		let t = match path {
			0 => rig.mgr.add_sub_track(TrackBuilder::new().with_effect(pb)).ok().map(AnyTrack::Plain),
			1 => rig.mgr.add_spatial_sub_track(lid, glam::Vec3::X, SpatialTrackBuilder::new().with_effect(pb)).ok().map(AnyTrack::Spatial),
			2 => rig.mgr.add_send_track(SendTrackBuilder::new().with_effect(pb)).ok().map(AnyTrack::Send),
			3 => parent.add_sub_track(TrackBuilder::new().with_effect(pb)).ok().map(AnyTrack::Plain),
			4 => parent.add_spatial_sub_track(lid, glam::Vec3::X, SpatialTrackBuilder::new().with_effect(pb)).ok().map(AnyTrack::Spatial),
			5 => sparent.add_sub_track(TrackBuilder::new().with_effect(pb)).ok().map(AnyTrack::Plain),
			_ => sparent.add_spatial_sub_track(lid, glam::Vec3::X, SpatialTrackBuilder::new().with_effect(pb)).ok().map(AnyTrack::Spatial),
		};
		ev_g.lock().unwrap().push("enqueued");
		*keep2.lock().unwrap() = t;
		// handles must outlive the run: hand everything back
		std::mem::forget(parent);
		std::mem::forget(sparent);
		*mgr_slot2.lock().unwrap() = Some(rig);
	});
	crate::sched::set_site_filter(Some(race_filter));
	let res = crate::sched::run(vec![audio, game], prefix, None);
	crate::sched::set_site_filter(None);
	let mut rig = mgr_slot.lock().unwrap().take().expect("rig back");
	rig.renderer = back.lock().unwrap().take();
	let ev = events.lock().unwrap().clone();
	if rig.renderer.is_none() {
		return (res, ev, Err("audio body did not finish".into()));
	}
	rig.cfg.sample_rate = RATES[n_changes];
	rig.callback(4);
	rig.callback(4);
	let _l = listener;
	let verdict = if probe.bad.load(Ordering::SeqCst) > 0 {
		Err(format!("effect processed with dt = 1/{} while the last sample rate it was told is {} (events: {})", probe.bad_seen.load(Ordering::SeqCst), probe.bad_told.load(Ordering::SeqCst), ev.join(" < ")))
	} else if probe.calls.load(Ordering::SeqCst) == 0 {
		Err("probe effect never processed after the race".into())
	} else {
		Ok(())
	};
	drop(keep);
	(res, ev, verdict)
}

/// the rate changed strictly between the add path's load of the shared rate (followed at once by init) and its enqueue
fn is_load_change_enqueue(ev: &[&'static str]) -> bool {
	let i = ev.iter().position(|e| *e == "init");
	let e = ev.iter().position(|e| *e == "enqueued");
	match (i, e) {
		(Some(i), Some(e)) => ev[i..e].iter().any(|x| *x == "change"),
		_ => false,
	}
}

const PATH_NAMES: [&str; 7] = ["AudioManager::add_sub_track", "AudioManager::add_spatial_sub_track", "AudioManager::add_send_track", "TrackHandle::add_sub_track", "TrackHandle::add_spatial_sub_track", "SpatialTrackHandle::add_sub_track", "SpatialTrackHandle::add_spatial_sub_track"];

fn race_all(ctx: &mut Ctx) {
	let mut schedules = 0u64;
	let mut known_hits = 0u64;
	let mut race_cut = false;
	for path in 0..7u64 {
		for n_changes in 1..=2usize {
			if !ctx.owns("race", path * 2 + n_changes as u64 - 1) {
				continue;
			}
			let mut prefix = vec![];
			loop {
				crate::monitors::set_current(ctx, "race", path, "rate change racing an add-track call", false);
				let (res, ev, v) = race_case(path, prefix.clone(), n_changes);
				crate::monitors::clear_current();
				schedules += 1;
				ctx.eval();
				ctx.distinct_str(&format!("race:{}:{}", path, ev.join("<")));
				if let Err(e) = v {
					if is_load_change_enqueue(&ev) && ctx.known(RACE_KEY) {
						known_hits += 1;
					} else {
						ctx.violation("race", path * 1000 + schedules, &format!("{} racing a sample-rate change: {}", PATH_NAMES[path as usize], e), jobj! {"path" => PATH_NAMES[path as usize], "schedule" => J::A(res.log.iter().map(|x| J::F(x.0 as f64)).collect()), "events" => ev.join(" < ")});
						break;
					}
				}
				if schedules % 32 == 0 && !ctx.replaying() && !ctx.time_left(0.6) {
					ctx.note(&format!("race enumeration for {} stopped by the time budget", PATH_NAMES[path as usize]));
					race_cut = true;
					break;
				}
				match crate::sched::next_prefix(&res.log) {
					Some(p) => prefix = p,
					None => break,
				}
			}
		}
	}
	ctx.count("race_schedules_enumerated", schedules);
	ctx.count("shards_with_complete_race_enumeration", (!race_cut) as u64);
	if known_hits > 0 {
		ctx.count("race_schedules_matching_known_finding", known_hits);
		ctx.exclude(RACE_KEY);
	}
}

// ---------------------------------------------------------------- (B) measurements in seconds / hertz

struct Tl {
	rig: Rig,
	t: f64,
	/// (time of the frame, left)
	out: Vec<(f64, f32)>,
	/// right channel of the same frames
	out_r: Vec<f32>,
	change_at: Option<(f64, u32)>,
	/// time at which the planned change was really applied (a callback boundary)
	changed_at: Option<f64>,
	sizes_seed: Rng,
}

impl Tl {
	fn new(rig: Rig, change_at: Option<(f64, u32)>, seed: u64) -> Tl {
		Tl { rig, t: 0.0, out: vec![], out_r: vec![], change_at, changed_at: None, sizes_seed: Rng::new(seed) }
	}
	fn rate(&self) -> u32 {
		self.rig.cfg.sample_rate
	}
	fn callback(&mut self) {
		let sr = self.rate() as f64;
		let n = self.sizes_seed.usize_in(1, 3 * self.rig.cfg.ibs.max(8));
		let t0 = self.t;
		let b = self.rig.callback(n);
		for (k, f) in b.chunks(2).enumerate() {
			self.out.push((t0 + k as f64 / sr, f[0]));
			self.out_r.push(f[1]);
		}
		self.t = t0 + n as f64 / sr;
	}
	/// runs until `until` seconds, applying the planned rate change at the first callback boundary at or after its time
	fn run_until(&mut self, until: f64) {
		while self.t < until {
			if let Some((tc, sr)) = self.change_at {
				if self.t >= tc {
					self.rig.change_sample_rate(sr);
					self.change_at = None;
					self.changed_at = Some(self.t);
				}
			}
			self.callback();
		}
	}
	fn rising_edges(&self, level: f32) -> Vec<f64> {
		let mut v = vec![];
		let mut prev = 0.0f32;
		for (t, x) in &self.out {
			if prev.abs() < level && x.abs() >= level {
				v.push(*t);
			}
			prev = *x;
		}
		v
	}
}

#[derive(Debug, Clone)]
struct Cell {
	r1: u32,
	r2: Option<u32>,
	tc: f64,
	ibs: usize,
}

fn gen_cell(r: &mut Rng) -> Cell {
	let r1 = *r.pick(&RATES);
	let r2 = if r.chance(0.7) { Some(*r.pick(&RATES)) } else { None };
	Cell { r1, r2, tc: r.f64_in(0.002, 0.03), ibs: *r.pick(&[16usize, 32, 64, 128]) }
}

fn min_rate(c: &Cell) -> f64 {
	c.r1.min(c.r2.unwrap_or(c.r1)) as f64
}

fn sound(fs: u32, frames: Vec<f32>) -> kira::sound::static_sound::StaticSoundData {
	crate::probes::sound_from_frames(fs, frames.into_iter().map(Frame::from_mono).collect())
}

/// S1: duration and pitch of a sound
fn s_duration_pitch(r: &mut Rng, c: &Cell) -> Result<(), String> {
	let fs = *r.pick(&[8000u32, 22050, 44100, 48000]);
	let dur = r.f64_in(0.02, 0.06);
	let n = (dur * fs as f64).round() as usize;
	let f = r.f64_in(100.0, (fs as f64).min(min_rate(c)) / 10.0);
	let frames: Vec<f32> = (0..n).map(|k| 0.5 + 0.4 * (std::f64::consts::TAU * f * k as f64 / fs as f64).sin() as f32).collect();
	let mut rig = Rig::simple(c.r1, c.ibs);
	let _h = rig.mgr.play(sound(fs, frames)).map_err(|_| "play")?;
	let mut tl = Tl::new(rig, c.r2.map(|x| (c.tc, x)), r.next());
	tl.run_until(dur + 0.01);
	let t_end = tl.out.iter().rev().find(|(_, x)| x.abs() > 0.05).map(|x| x.0).unwrap_or(-1.0);
	let want = n as f64 / fs as f64;
	let tol = 5.0 / fs as f64 + 4.0 / min_rate(c);
	if (t_end - want).abs() > tol {
		return Err(format!("sound of {} frames at {} Hz should last {:.6} s but was audible until {:.6} s (device {:?})", n, fs, want, t_end, c));
	}
	let mut crossings = 0;
	let mut prev = None;
	for (t, x) in &tl.out {
		if *t > want - tol {
			break;
		}
		let s = *x > 0.5;
		if let Some(p) = prev {
			if p != s {
				crossings += 1;
			}
		}
		prev = Some(s);
	}
	let want_c = 2.0 * f * want;
	if (crossings as f64 - want_c).abs() > 3.0 + 0.01 * want_c {
		return Err(format!("a {:.1} Hz tone of {:.4} s should cross its mean {:.1} times, counted {} (sound rate {}, device {:?})", f, want, want_c, crossings, fs, c));
	}
	Ok(())
}

/// S2: a sound scheduled on a clock tick starts at ticks / (ticks per second) seconds
fn s_clock(r: &mut Rng, c: &Cell) -> Result<(), String> {
	let k = r.usize_in(1, 6) as u64;
	let target = r.f64_in(0.01, 0.06);
	let tps = k as f64 / target;
	let mut rig = Rig::simple(c.r1, c.ibs);
	let speed = if r.chance(0.5) { ClockSpeed::TicksPerSecond(tps) } else if r.chance(0.5) { ClockSpeed::SecondsPerTick(1.0 / tps) } else { ClockSpeed::TicksPerMinute(tps * 60.0) };
	let mut clock = rig.mgr.add_clock(speed).map_err(|_| "clock")?;
	clock.start();
	let d = crate::probes::dc_sound(48000, 4800, 0.5).start_time(StartTime::ClockTime(ClockTime { clock: clock.id(), ticks: k, fraction: 0.0 }));
	let _h = rig.mgr.play(d).map_err(|_| "play")?;
	let mut tl = Tl::new(rig, c.r2.map(|x| (c.tc, x)), r.next());
	tl.run_until(target + 0.01);
	let e = tl.rising_edges(0.25);
	// clock events take effect with the granularity of one internal chunk (C05)
	let tol = (c.ibs as f64 + 3.0) / min_rate(c) + 1e-9;
	match e.first() {
		Some(t) if (t - target).abs() <= tol => Ok(()),
		other => Err(format!("sound scheduled at tick {} of a clock at {:.4} ticks/s should start at {:.6} s, started at {:?} (device {:?})", k, tps, target, other, c)),
	}
}

/// S3: a volume tween of D seconds is half-way (in dB) after D/2 seconds
fn s_tween(r: &mut Rng, c: &Cell) -> Result<(), String> {
	let d = r.f64_in(0.02, 0.08);
	let mut rig = Rig::simple(c.r1, c.ibs);
	let mut h = rig.mgr.play(crate::probes::dc_sound(48000, 9600, 0.5)).map_err(|_| "play")?;
	h.set_volume(Decibels(-40.0), Tween { start_time: StartTime::Immediate, duration: Duration::from_secs_f64(d), easing: Easing::Linear });
	let mut tl = Tl::new(rig, c.r2.map(|x| (c.tc, x)), r.next());
	tl.run_until(d + 0.01);
	let half = tl.out.iter().find(|(_, x)| *x <= 0.05).map(|x| x.0);
	let done = tl.out.iter().find(|(_, x)| *x <= 0.005 * 1.02).map(|x| x.0);
	let tol = (c.ibs as f64 + 3.0) / min_rate(c);
	match (half, done) {
		(Some(a), Some(b)) if (a - d / 2.0).abs() <= tol && (b - d).abs() <= tol + 0.02 * d => Ok(()),
		other => Err(format!("a {:.5} s linear volume tween to -40 dB should pass -20 dB at {:.5} s and end at {:.5} s; observed {:?} (device {:?})", d, d / 2.0, d, other, c)),
	}
}

#[derive(Debug, Clone, Copy, PartialEq)]
enum Place {
	Main,
	Top,
	NestedPlain,
	NestedFx,
	NestedDeep,
	Send,
	Spatial,
	NestedInSpatial,
}
#[derive(Debug, Clone, Copy, PartialEq)]
enum Timing {
	/// add, callback (picked up), change
	PickedUpBeforeChange,
	/// add, change, callback
	AddedBeforeChangePickedUpAfter,
	/// change, add, callback
	AddedAfterChange,
}

enum PlayOn {
	Main,
	Plain(TrackHandle),
	Spatial(SpatialTrackHandle),
}

struct DelayScene {
	play_on: PlayOn,
	_keep: Vec<AnyTrack>,
	_listener: Option<ListenerHandle>,
	direct: bool,
}

fn delay_fx(td: f64) -> DelayBuilder {
	DelayBuilder::new().delay_time(Duration::from_secs_f64(td)).feedback(Decibels(-1.0)).mix(Mix::WET)
}

fn build_delay_scene(rig: &mut Rig, place: Place, td: f64) -> Result<DelayScene, String> {
	let mut keep = vec![];
	let mut listener = None;
	let mut direct = false;
	let flat = || SpatialTrackBuilder::new().attenuation_function(None::<Easing>).spatialization_strength(0.0);
	let play_on = match place {
		Place::Main => PlayOn::Main,
		Place::Top => PlayOn::Plain(rig.mgr.add_sub_track(TrackBuilder::new().with_effect(delay_fx(td))).map_err(|_| "t")?),
		Place::NestedPlain | Place::NestedFx | Place::NestedDeep => {
			let pb = if place == Place::NestedFx { TrackBuilder::new().with_effect(VolumeControlBuilder::new(Decibels::IDENTITY)) } else { TrackBuilder::new() };
			let mut p = rig.mgr.add_sub_track(pb).map_err(|_| "p")?;
			let t = if place == Place::NestedDeep {
				let mut q = p.add_sub_track(TrackBuilder::new()).map_err(|_| "q")?;
				let t = q.add_sub_track(TrackBuilder::new().with_effect(delay_fx(td))).map_err(|_| "t")?;
				keep.push(AnyTrack::Plain(q));
				t
			} else {
				p.add_sub_track(TrackBuilder::new().with_effect(delay_fx(td))).map_err(|_| "t")?
			};
			keep.push(AnyTrack::Plain(p));
			PlayOn::Plain(t)
		}
		Place::Send => {
			let s = rig.mgr.add_send_track(SendTrackBuilder::new().with_effect(delay_fx(td))).map_err(|_| "s")?;
			let t = rig.mgr.add_sub_track(TrackBuilder::new().with_send(&s, Decibels::IDENTITY)).map_err(|_| "t")?;
			keep.push(AnyTrack::Send(s));
			direct = true;
			PlayOn::Plain(t)
		}
		Place::Spatial => {
			let l = rig.mgr.add_listener(glam::Vec3::ZERO, glam::Quat::IDENTITY).map_err(|_| "l")?;
			let t = rig.mgr.add_spatial_sub_track(l.id(), glam::Vec3::X, flat().with_effect(delay_fx(td))).map_err(|_| "t")?;
			listener = Some(l);
			PlayOn::Spatial(t)
		}
		Place::NestedInSpatial => {
			let l = rig.mgr.add_listener(glam::Vec3::ZERO, glam::Quat::IDENTITY).map_err(|_| "l")?;
			let mut p = rig.mgr.add_spatial_sub_track(l.id(), glam::Vec3::X, flat()).map_err(|_| "p")?;
			let t = p.add_spatial_sub_track(l.id(), glam::Vec3::X, flat().with_effect(delay_fx(td))).map_err(|_| "t")?;
			keep.push(AnyTrack::Spatial(p));
			listener = Some(l);
			PlayOn::Spatial(t)
		}
	};
	Ok(DelayScene { play_on, _keep: keep, _listener: listener, direct })
}

/// S4: echo time of a wet-only delay, for every track placement and add/change/pick-up order
fn s_delay(r: &mut Rng, c: &Cell) -> Result<(), String> {
	let td = r.f64_in(0.004, 0.03);
	let place = *r.pick(&[Place::Main, Place::Top, Place::NestedPlain, Place::NestedFx, Place::NestedDeep, Place::Send, Place::Spatial, Place::NestedInSpatial]);
	let timing = *r.pick(&[Timing::PickedUpBeforeChange, Timing::AddedBeforeChangePickedUpAfter, Timing::AddedAfterChange]);
	let r2 = c.r2.unwrap_or(*r.pick(&RATES));
	let main = if place == Place::Main { MainTrackBuilder::new().with_effect(delay_fx(td)) } else { MainTrackBuilder::new() };
	let mut rig = Rig::new(RigConfig { sample_rate: c.r1, ibs: c.ibs, ..Default::default() }, main);
	let scene;
	match timing {
		Timing::PickedUpBeforeChange => {
			scene = build_delay_scene(&mut rig, place, td)?;
			rig.callback(c.ibs + 3);
			rig.change_sample_rate(r2);
		}
		Timing::AddedBeforeChangePickedUpAfter => {
			scene = build_delay_scene(&mut rig, place, td)?;
			rig.change_sample_rate(r2);
		}
		Timing::AddedAfterChange => {
			rig.callback(5);
			rig.change_sample_rate(r2);
			scene = build_delay_scene(&mut rig, place, td)?;
		}
	}
	rig.callback(c.ibs + 1);
	let mut scene = scene;
	let burst = crate::probes::dc_sound(48000, 96, 0.5); // 2 ms
	let _h = match &mut scene.play_on {
		PlayOn::Main => rig.mgr.play(burst),
		PlayOn::Plain(t) => t.play(burst),
		PlayOn::Spatial(t) => t.play(burst),
	}
	.map_err(|_| "play")?;
	let mut tl = Tl::new(rig, None, r.next());
	tl.run_until(td + 0.012);
	let edges = tl.rising_edges(0.25);
	if std::env::var("KVH_DEBUG").is_ok() {
		eprintln!("t_end {} out: {:?}", tl.t, tl.out.iter().filter(|x| x.1 != 0.0).map(|x| (format!("{:.6}", x.0), x.1)).collect::<Vec<_>>());
	}
	// kira keeps the delay time as a Duration (whole nanoseconds) and uses floor(delay x rate) frames
	let frames = (Duration::from_secs_f64(td).as_secs_f64() * r2 as f64).floor() / r2 as f64;
	let tol = 3.0 / r2 as f64;
	// the wet signal is the delay line scaled by the feedback (-1 dB): the burst recurs every `frames` seconds
	let horizon = (tl.t - 0.001).min(4.5 * frames) - 2.0 * tol; // 4 recurrences stay above the detection level
	let mut want: Vec<f64> = if scene.direct { vec![0.0] } else { vec![] };
	let mut k = 1.0;
	while k * frames < horizon {
		want.push(k * frames);
		k += 1.0;
	}
	// edges and recurrences inside the last 2 tolerances before the horizon are not judged (either side of it)
	let edges: Vec<f64> = edges.into_iter().filter(|t| *t < horizon + tol).collect();
	let ok = want.iter().all(|w| edges.iter().any(|e| (e - w).abs() <= tol)) && edges.iter().all(|e| *e >= horizon - tol || want.iter().any(|w| (e - w).abs() <= tol));
	if !ok {
		return Err(format!("wet-only delay of {:.6} s on {:?} ({:?}, device {} -> {} Hz, buffer {}): a 2 ms burst played at 0 s should appear at {:?} s, output rises at {:?} s", td, place, timing, c.r1, r2, c.ibs, want, edges));
	}
	Ok(())
}

/// S5: the gain of a low-pass at its cutoff frequency is the same at every device rate and after a change
fn s_filter(r: &mut Rng, c: &Cell) -> Result<(), String> {
	// (cutoffs from 70 Hz: a low cutoff is a small fraction of a high device rate)
	let fc = r.log_in(70.0, 1500.0);
	let mode = *r.pick(&[FilterMode::LowPass, FilterMode::HighPass, FilterMode::BandPass]);
	let res = r.f64_in(0.0, 0.6);
	let fs = 48000u32;
	let n = (fs as f64 / fc * 8.0).round() as usize; // not an exact number of periods: irrelevant, we loop nothing
	let _ = n;
	let total = 0.09;
	let frames: Vec<f32> = (0..(total * fs as f64) as usize + 9600).map(|k| 0.5 * (std::f64::consts::TAU * fc * k as f64 / fs as f64).sin() as f32).collect();
	let measure = |r1: u32, change: Option<(f64, u32)>, seed: u64| -> Result<(f64, f64), String> {
		let mut rig = Rig::simple(r1, c.ibs);
		let mut t = rig.mgr.add_sub_track(TrackBuilder::new().with_effect(FilterBuilder::new().mode(mode).cutoff(fc).resonance(res))).map_err(|_| "t")?;
		let _h = t.play(sound(fs, frames.clone())).map_err(|_| "play")?;
		let mut tl = Tl::new(rig, change, seed);
		tl.run_until(total);
		// the late window starts 20 ms after the change was really applied (callbacks can be tens of ms long)
		let late = match (change, tl.changed_at) {
			(Some(_), Some(tc)) => tc + 0.02,
			(Some(_), None) => return Err("planned rate change was never applied".into()),
			_ => 0.07,
		};
		tl.run_until(late + 0.02);
		let rms = |a: f64, b: f64| {
			let v: Vec<f64> = tl.out.iter().filter(|(t, _)| *t >= a && *t < b).map(|x| x.1 as f64).collect();
			(v.iter().map(|x| x * x).sum::<f64>() / v.len().max(1) as f64).sqrt()
		};
		// windows of a whole number of periods
		let per = 1.0 / fc;
		let w = (0.015 / per).floor() * per;
		Ok((20.0 * (rms(0.02, 0.02 + w) / (0.5 / 2f64.sqrt())).log10(), 20.0 * (rms(late, late + w) / (0.5 / 2f64.sqrt())).log10()))
	};
	let seed = r.next();
	let (a1, a2) = measure(c.r1, None, seed)?;
	let rb = c.r2.unwrap_or(*r.pick(&RATES));
	let (b1, b2) = measure(c.r1, Some((0.04, rb)), seed)?;
	let (c1, _) = measure(rb, None, seed)?;
	if std::env::var("KVH_DEBUG").is_ok() {
		eprintln!("a1 {} a2 {} b1 {} b2 {} c1 {} c2 {}", a1, a2, b1, b2, c1, measure(rb, None, seed)?.1);
	}
	for (name, x, y) in [("same rate, early vs late window", a1, a2), ("before the change", a1, b1), ("after the change vs never changed", a2, b2), ("other device rate", a1, c1)] {
		if (x - y).abs() > 0.25 {
			return Err(format!("{:?} filter, cutoff {:.1} Hz, resonance {:.2}: gain at the cutoff differs ({}): {:.3} dB vs {:.3} dB (device {} Hz, then {} Hz, buffer {})", mode, fc, res, name, x, y, c.r1, rb, c.ibs));
		}
	}
	Ok(())
}

/// S6: the reverb's first reflections arrive after the same number of seconds at every device rate, in both channels
/// (Freeverb: shortest comb 1116 samples at 44.1 kHz on the left, 1116 + 23 on the right)
fn s_reverb(r: &mut Rng, c: &Cell) -> Result<(), String> {
	use kira::effect::reverb::ReverbBuilder;
	let change_first = c.r2.is_some() && r.chance(0.5);
	let rate = if change_first { c.r2.unwrap() } else { c.r1 };
	let mut rig = Rig::new(RigConfig { sample_rate: c.r1, ibs: c.ibs, ..Default::default() }, MainTrackBuilder::new().with_effect(ReverbBuilder::new().mix(Mix::WET).feedback(0.5).damping(0.5).stereo_width(1.0)));
	rig.callback(c.ibs + 1);
	if change_first {
		rig.change_sample_rate(rate);
		rig.callback(c.ibs);
	}
	let _h = rig.mgr.play(crate::probes::dc_sound(48000, 48, 0.5)).map_err(|_| "play")?;
	let mut tl = Tl::new(rig, None, r.next());
	tl.run_until(0.034);
	let tl_l = tl.out.iter().find(|x| x.1.abs() > 1e-7).map(|x| x.0);
	let tl_r = tl.out.iter().zip(tl.out_r.iter()).find(|(_, b)| b.abs() > 1e-7).map(|(a, _)| a.0);
	let tol = 4.5 / rate as f64;
	let (want_l, want_r) = (1116.0 / 44100.0, (1116.0 + 23.0) / 44100.0);
	match (tl_l, tl_r) {
		(Some(a), Some(b)) if (a - want_l).abs() <= tol && (b - want_r).abs() <= tol => Ok(()),
		other => Err(format!("reverb at {} Hz{}: first reflection expected after {:.5} s (left) and {:.5} s (right) at every device rate, observed {:?}", rate, if change_first { format!(" (after a change from {} Hz)", c.r1) } else { String::new() }, want_l, want_r, other)),
	}
}


/// S7: a compressor's attack time is a time in seconds: a compressor that has already run at the first rate reaches 63 % of
/// its final gain reduction one attack time after a loud signal begins, at whatever rate the device runs by then
fn s_compressor(r: &mut Rng, c: &Cell) -> Result<(), String> {
	use kira::effect::compressor::CompressorBuilder;
	let attack = r.f64_in(0.008, 0.04);
	let b = CompressorBuilder::new().threshold(-30.0).ratio(10.0).attack_duration(Duration::from_secs_f64(attack)).release_duration(Duration::from_secs(2)).mix(Mix::WET);
	let rig = Rig::new(RigConfig { sample_rate: c.r1, ibs: c.ibs, ..Default::default() }, MainTrackBuilder::new().with_effect(b));
	let mut tl = Tl::new(rig, c.r2.map(|x| (c.tc, x)), r.next());
	tl.run_until(c.tc + 0.004);
	// (the change is applied at the first callback boundary after its time: one more callback if the last one overshot it)
	for _ in 0..3 {
		if c.r2.is_some() && tl.changed_at.is_none() {
			let t = tl.t;
			tl.run_until(t + 1e-6);
		}
	}
	if c.r2.is_some() && tl.changed_at.is_none() {
		return Err("planned rate change was never applied".into());
	}
	let rate = c.r2.unwrap_or(c.r1);
	let _h = tl.rig.mgr.play(crate::probes::dc_sound(48000, 48, 0.5).loop_region(..)).map_err(|_| "play")?;
	let t_play = tl.t;
	tl.run_until(t_play + attack * 9.0 + 0.01);
	let on: Vec<(f64, f64)> = tl.out.iter().filter(|x| x.0 >= t_play && x.1 > 0.0).map(|x| (x.0, 20.0 * (x.1 as f64 / 0.5).log10())).collect();
	let (t0, last) = match (on.first(), on.last()) {
		(Some(a), Some(b)) => (a.0, b.1),
		_ => return Err("compressor measurement: the test signal was not heard".into()),
	};
	if last > -15.0 {
		return Err(format!("compressor (threshold -30 dB, ratio 10) at {} Hz: gain reduction after 9 attack times is only {:.2} dB on a -6 dB signal", rate, last));
	}
	let t63 = on.iter().find(|x| x.1 <= 0.632 * last).map(|x| x.0).unwrap_or(f64::INFINITY);
	let got = t63 - t0;
	if (got - attack).abs() > 0.07 * attack + 3.0 / rate as f64 {
		return Err(format!("compressor with an attack time of {:.4} s at {} Hz{}: 63 % of the final gain reduction ({:.2} dB) is reached after {:.4} s", attack, rate, if c.r2.is_some() { format!(" (after a change from {} Hz, the compressor had already run)", c.r1) } else { String::new() }, last, got));
	}
	Ok(())
}


/// S8: an EQ band sits at its frequency in hertz at every device rate: the gain measured at the corner of a shelf is half the
/// shelf's gain (in dB), at the centre of a bell it is the bell's gain - also where the frequency is a large fraction of the
/// device rate, and after a rate change
fn s_eq(r: &mut Rng, c: &Cell) -> Result<(), String> {
	use kira::effect::eq_filter::{EqFilterBuilder, EqFilterKind};
	let kind = *r.pick(&[EqFilterKind::HighShelf, EqFilterKind::LowShelf, EqFilterKind::Bell]);
	let gain = *r.pick(&[12.0f32, -12.0, 6.0]);
	let rb = c.r2.unwrap_or(c.r1);
	let lowest = c.r1.min(rb) as f64;
	let fc = r.f64_in(500.0, (0.3 * lowest).min(3000.0).max(600.0));
	let fs = 48000u32;
	let total = 0.09;
	let frames: Vec<f32> = (0..(total * fs as f64) as usize + 9600).map(|k| 0.1 * (std::f64::consts::TAU * fc * k as f64 / fs as f64).sin() as f32).collect();
	let measure = |r1: u32, change: Option<(f64, u32)>, seed: u64| -> Result<f64, String> {
		let mut rig = Rig::simple(r1, c.ibs);
		let mut t = rig.mgr.add_sub_track(TrackBuilder::new().with_effect(EqFilterBuilder::new(kind, fc, Decibels(gain), 1.0))).map_err(|_| "t")?;
		let _h = t.play(sound(fs, frames.clone())).map_err(|_| "play")?;
		let mut tl = Tl::new(rig, change, seed);
		tl.run_until(total);
		let late = match (change, tl.changed_at) {
			(Some(_), Some(tc)) => tc + 0.02,
			(Some(_), None) => return Err("planned rate change was never applied".into()),
			_ => 0.05,
		};
		tl.run_until(late + 0.02);
		let per = 1.0 / fc;
		let w = (0.015 / per).floor() * per;
		let v: Vec<f64> = tl.out.iter().filter(|(t, _)| *t >= late && *t < late + w).map(|x| x.1 as f64).collect();
		let rms = (v.iter().map(|x| x * x).sum::<f64>() / v.len().max(1) as f64).sqrt();
		Ok(20.0 * (rms / (0.1 / 2f64.sqrt())).log10())
	};
	let seed = r.next();
	let a = measure(c.r1, None, seed)?;
	let b = measure(c.r1, Some((0.04, rb)), seed)?;
	let want = if matches!(kind, EqFilterKind::Bell) { gain as f64 } else { gain as f64 / 2.0 };
	for (name, x) in [("at the first rate", a), ("after the change", b)] {
		if (x - want).abs() > 0.35 {
			return Err(format!("{:?} EQ band at {:.1} Hz with {} dB: gain measured at that frequency {} is {:.3} dB, expected {:.2} dB (device {} Hz, then {} Hz, buffer {})", kind, fc, gain, name, x, want, c.r1, rb, c.ibs));
		}
	}
	Ok(())
}

// ---------------------------------------------------------------- driver

const ADD_CHANGE_KEY: &str = "C16.track_added_before_rate_change_picked_up_after";

pub fn run(ctx: &mut Ctx) {
	// (A) exhaustive short histories
	let max_len = ctx.t(5usize, 6usize);
	let mut idx = 0u64;
	let mut hist_n = 0u64;
	let mut processed = 0u64;
	let mut known_hits = 0u64;
	let mut enumeration_cut = false;
	'outer: for len in 1..=max_len {
		let total = N_OPS.pow(len as u32);
		for code in 0..total {
			idx += 1;
			if !ctx.owns("hist", idx) {
				continue;
			}
			// (under ThreadSanitizer a history costs ten times as much: the enumeration is also bounded by half the shard's time
			// budget; an enumeration that was cut short is recorded as such)
			if hist_n % 256 == 255 && !ctx.replaying() && !ctx.time_left(0.5) {
				ctx.note(&format!("exhaustive history enumeration stopped by the time budget at length {} (code {} of {})", len, code, total));
				enumeration_cut = true;
				break 'outer;
			}
			let ops: Vec<(u64, usize, usize)> = decode_history(code, len).into_iter().enumerate().map(|(k, o)| (o, k + code as usize, 1 + (k * 7 + code as usize) % 40)).collect();
			ctx.eval();
			crate::monitors::set_current(ctx, "hist", idx, "add/change/callback history", false);
			let res = super::guarded(|| run_history(&ops, 16, (code % 8) as usize));
			crate::monitors::clear_current();
			hist_n += 1;
			match res {
				Ok(Ok(p)) => {
					processed += p;
					ctx.distinct_key(0xC16_0000_0000 | (len as u64) << 16 | ops.iter().fold(0u64, |a, o| a | 1 << o.0));
				}
				Ok(Err(e)) => {
					if is_add_change_pickup(&ops) && ctx.known(ADD_CHANGE_KEY) {
						known_hits += 1;
					} else {
						ctx.violation("hist", idx, &format!("history [{}]: {}", describe(&ops), e), J::Null);
						if ctx.violations.len() > 8 {
							break 'outer;
						}
					}
				}
				Err(p) => ctx.violation("hist", idx, &format!("panic in history [{}]: {}", describe(&ops), p.first().map(|p| p.sig()).unwrap_or_default()), J::Null),
			}
		}
	}
	// random longer histories
	let n_rand = ctx.t(20_000u64, 3_000_000u64);
	for i in 0..n_rand {
		if !ctx.owns("rhist", i) {
			continue;
		}
		if !ctx.replaying() && !ctx.time_left(0.45) {
			break;
		}
		let mut r = Rng::for_case(ctx.seed, 1601, i);
		let len = r.usize_in(6, 24);
		let ops: Vec<(u64, usize, usize)> = (0..len).map(|_| (r.below(N_OPS), r.below(8) as usize, r.usize_in(1, 50))).collect();
		let ibs = *r.pick(&[1usize, 7, 16, 64]);
		ctx.eval();
		crate::monitors::set_current(ctx, "rhist", i, "add/change/callback history", false);
		let res = super::guarded(|| run_history(&ops, ibs, r.below(8) as usize));
		crate::monitors::clear_current();
		hist_n += 1;
		match res {
			Ok(Ok(p)) => processed += p,
			Ok(Err(e)) => {
				if is_add_change_pickup(&ops) && ctx.known(ADD_CHANGE_KEY) {
					known_hits += 1;
				} else {
					ctx.violation("rhist", i, &format!("history [{}]: {}", describe(&ops), e), J::Null);
				}
			}
			Err(p) => ctx.violation("rhist", i, &format!("panic in history [{}]: {}", describe(&ops), p.first().map(|p| p.sig()).unwrap_or_default()), J::Null),
		}
	}
	ctx.count("histories", hist_n);
	ctx.count("shards_with_complete_history_enumeration", (!enumeration_cut) as u64);
	ctx.count("probe_effects_observed_processing", processed);
	if known_hits > 0 {
		ctx.count("histories_matching_known_finding", known_hits);
		ctx.exclude(ADD_CHANGE_KEY);
	}
	// (A') race
	race_all(ctx);
	// (B) measurements
	let n = ctx.t(6_000u64, 2_000_000u64);
	let mut measured = [0u64; 8];
	for i in 0..n {
		if !ctx.owns("meas", i) {
			continue;
		}
		if !ctx.replaying() && !ctx.time_left(0.92) {
			ctx.note("time budget reached before the case limit");
			break;
		}
		let mut r = Rng::for_case(ctx.seed, 1602, i);
		let c = gen_cell(&mut r);
		let kind = r.below(10);
		ctx.eval();
		crate::monitors::set_current(ctx, "meas", i, "seconds/hertz measurement", false);
		let res = super::guarded(|| match kind {
			0 => s_duration_pitch(&mut r, &c),
			1 => s_clock(&mut r, &c),
			2 => s_tween(&mut r, &c),
			3 | 4 | 5 => s_delay(&mut r, &c),
			6 => s_reverb(&mut r, &c),
			8 => s_compressor(&mut r, &c),
			9 => s_eq(&mut r, &c),
			_ => s_filter(&mut r, &c),
		});
		crate::monitors::clear_current();
		let k = match kind {
			0 => 0,
			1 => 1,
			2 => 2,
			3..=5 => 3,
			6 => 5,
			8 => 6,
			9 => 7,
			_ => 4,
		};
		match res {
			Ok(Ok(())) => {
				measured[k] += 1;
				ctx.distinct_key(0xC16_1000_0000 | (k as u64) << 16 | (RATES.iter().position(|x| *x == c.r1).unwrap() as u64) << 8 | c.r2.map(|x| 1 + RATES.iter().position(|y| *y == x).unwrap() as u64).unwrap_or(0));
			}
			Ok(Err(e)) => {
				if k == 3 && e.contains("AddedBeforeChangePickedUpAfter") && ctx.known(ADD_CHANGE_KEY) {
					ctx.exclude(ADD_CHANGE_KEY);
				} else {
					ctx.violation("meas", i, &e, J::Null)
				}
			}
			Err(p) => ctx.violation("meas", i, &format!("panic: {}", p.first().map(|p| p.sig()).unwrap_or_default()), J::Null),
		}
	}
	for (k, name) in ["duration_and_pitch", "clock_scheduled_start", "tween_duration", "delay_echo_time", "filter_gain_at_cutoff", "reverb_first_reflection_time", "compressor_attack_time", "eq_gain_at_its_frequency"].iter().enumerate() {
		ctx.count(&format!("measured_{}", name), measured[k]);
	}
	ctx.sample(jobj! {"monitor" => "rate-in-force probe + seconds/hertz measurements", "rates" => J::A(RATES.iter().map(|x| J::F(*x as f64)).collect()), "history_alphabet" => J::A(OP_NAMES.iter().map(|x| J::S(x.to_string())).collect())});
}

pub fn confirm(key: &str) -> Option<Option<String>> {
	match key {
		ADD_CHANGE_KEY => {
			let ops = [(0u64, 0usize, 4usize), (5, 0, 4), (6, 0, 4)];
			Some(run_history(&ops, 16, 0).err())
		}
		RACE_KEY => {
			// schedule: game runs to the hook after loading the rate, audio changes the rate and runs a callback, game enqueues
			let mut prefix = vec![];
			loop {
				let (res, ev, v) = race_case(0, prefix.clone(), 1);
				if is_load_change_enqueue(&ev) {
					return Some(v.err());
				}
				match crate::sched::next_prefix(&res.log) {
					Some(p) => prefix = p,
					None => return Some(None),
				}
			}
		}
		_ => None,
	}
}
