//! C18 — decoding is faithful; streaming a file equals loading it; bad files give errors.
//! (F) WAV files from an independent encoder -> StaticSoundData::from_cursor: rate, frame count, samples.
//! (S) streaming the same bytes (real Symphonia decoder + real decoder thread, kept ahead through the
//!     dec.* hooks) follows the loaded frames: every output frame is the next file frame, the loop start,
//!     or the landing frame of the oldest pending seek; also the shipped assets.
//! (X) single-byte corruptions and truncations: error value or a prefix of what an independent parser
//!     reads from the same bytes; no panic, no hang; streaming them ends.

use std::io::Cursor;
use std::sync::Arc;
use std::time::Duration;

use kira::info::MockInfoBuilder;
use kira::sound::static_sound::StaticSoundData;
use kira::sound::streaming::StreamingSoundData;
use kira::sound::{EndPosition, FromFileError, PlaybackPosition, PlaybackState, Region, SoundData};
use kira::{Frame, Tween};

use crate::jobj;
use crate::util::{Ctx, Rng, J};

// ---------------------------------------------------------------- independent WAV encoder / parser

#[derive(Clone, Copy, Debug, PartialEq)]
pub enum Fmt {
	U8,
	I16,
	I24,
	I32,
	F32,
	F64,
}

impl Fmt {
	fn bits(self) -> u16 {
		match self {
			Fmt::U8 => 8,
			Fmt::I16 => 16,
			Fmt::I24 => 24,
			Fmt::I32 | Fmt::F32 => 32,
			Fmt::F64 => 64,
		}
	}
	fn float(self) -> bool {
		matches!(self, Fmt::F32 | Fmt::F64)
	}
}

#[derive(Clone, Debug)]
pub struct WavSpec {
	pub fmt: Fmt,
	pub channels: u16,
	pub rate: u32,
	pub extensible: bool,
	/// size of an unknown chunk placed before "data" (odd sizes are padded)
	pub junk_before: Option<usize>,
	pub junk_after: bool,
	pub fact: bool,
}

/// one sample as the file stores it
#[derive(Clone, Copy, Debug)]
pub enum Smp {
	Int(i64),
	Flt(f64),
}

/// what a decoder must produce for a stored sample (value, tolerance)
fn expected(fmt: Fmt, s: Smp) -> (f64, f64) {
	match (fmt, s) {
		(Fmt::U8, Smp::Int(v)) => ((v - 128) as f64 / 128.0, 1.0 / 128.0),
		(Fmt::I16, Smp::Int(v)) => (v as f64 / 32768.0, 1.0 / 32768.0),
		(Fmt::I24, Smp::Int(v)) => (v as f64 / 8388608.0, 1.0 / 8388608.0),
		(Fmt::I32, Smp::Int(v)) => (v as f64 / 2147483648.0, 1.0 / 2147483648.0 + 6e-8 * (v as f64 / 2147483648.0).abs()),
		(Fmt::F32, Smp::Flt(v)) => (v as f32 as f64, 0.0),
		(Fmt::F64, Smp::Flt(v)) => (v as f32 as f64, 6e-8 * v.abs()),
		_ => (0.0, 0.0),
	}
}

fn put_sample(out: &mut Vec<u8>, fmt: Fmt, s: Smp) {
	match (fmt, s) {
		(Fmt::U8, Smp::Int(v)) => out.push(v as u8),
		(Fmt::I16, Smp::Int(v)) => out.extend_from_slice(&(v as i16).to_le_bytes()),
		(Fmt::I24, Smp::Int(v)) => out.extend_from_slice(&(v as i32).to_le_bytes()[..3]),
		(Fmt::I32, Smp::Int(v)) => out.extend_from_slice(&(v as i32).to_le_bytes()),
		(Fmt::F32, Smp::Flt(v)) => out.extend_from_slice(&(v as f32).to_le_bytes()),
		(Fmt::F64, Smp::Flt(v)) => out.extend_from_slice(&v.to_le_bytes()),
		_ => {}
	}
}

pub fn encode_wav(spec: &WavSpec, frames: usize, sample: &mut dyn FnMut(usize, u16) -> Smp) -> Vec<u8> {
	let bytes_per = (spec.fmt.bits() / 8) as usize;
	let block = bytes_per * spec.channels as usize;
	let mut data = Vec::with_capacity(frames * block);
	for i in 0..frames {
		for c in 0..spec.channels {
			put_sample(&mut data, spec.fmt, sample(i, c));
		}
	}
	let mut fmt = vec![];
	let tag: u16 = if spec.extensible { 0xFFFE } else if spec.fmt.float() { 3 } else { 1 };
	fmt.extend_from_slice(&tag.to_le_bytes());
	fmt.extend_from_slice(&spec.channels.to_le_bytes());
	fmt.extend_from_slice(&spec.rate.to_le_bytes());
	fmt.extend_from_slice(&(spec.rate * block as u32).to_le_bytes());
	fmt.extend_from_slice(&(block as u16).to_le_bytes());
	fmt.extend_from_slice(&spec.fmt.bits().to_le_bytes());
	if spec.extensible {
		fmt.extend_from_slice(&22u16.to_le_bytes());
		fmt.extend_from_slice(&spec.fmt.bits().to_le_bytes()); // valid bits
		let mask: u32 = match spec.channels {
			1 => 0x4,
			2 => 0x3,
			3 => 0x7,
			6 => 0x3F,
			n => (1u32 << n) - 1,
		};
		fmt.extend_from_slice(&mask.to_le_bytes());
		let sub: u16 = if spec.fmt.float() { 3 } else { 1 };
		fmt.extend_from_slice(&sub.to_le_bytes());
		fmt.extend_from_slice(&[0x00, 0x00, 0x00, 0x00, 0x10, 0x00, 0x80, 0x00, 0x00, 0xAA, 0x00, 0x38, 0x9B, 0x71]);
	} else if spec.fmt.float() {
		fmt.extend_from_slice(&0u16.to_le_bytes());
	}
	let mut body = vec![];
	body.extend_from_slice(b"WAVE");
	let mut chunk = |id: &[u8; 4], payload: &[u8]| {
		body.extend_from_slice(id);
		body.extend_from_slice(&(payload.len() as u32).to_le_bytes());
		body.extend_from_slice(payload);
		if payload.len() % 2 == 1 {
			body.push(0);
		}
	};
	chunk(b"fmt ", &fmt);
	if spec.fact {
		chunk(b"fact", &(frames as u32).to_le_bytes());
	}
	if let Some(n) = spec.junk_before {
		// a chunk no reader knows: to be skipped (odd sizes are padded)
		let p: Vec<u8> = (0..n).map(|k| (k * 7 + 1) as u8).collect();
		chunk(b"junk", &p);
	}
	chunk(b"data", &data);
	if spec.junk_after {
		chunk(b"LIST", b"INFOISFT\x04\x00\x00\x00kvh\x00");
	}
	let mut out = b"RIFF".to_vec();
	out.extend_from_slice(&(body.len() as u32).to_le_bytes());
	out.extend_from_slice(&body);
	out
}

pub struct Parsed {
	pub rate: u32,
	pub channels: u16,
	pub fmt: Fmt,
	/// per frame, per channel: (value, tolerance)
	pub frames: Vec<Vec<(f64, f64)>>,
}

/// Independent strict RIFF/WAVE reader. Err(reason) when this reader would not accept the bytes or when the
/// header is not self-consistent (then the harness does not judge what kira returns).
pub fn parse_wav(b: &[u8]) -> Result<Parsed, &'static str> {
	let u16at = |o: usize| -> Option<u16> { b.get(o..o + 2).map(|x| u16::from_le_bytes([x[0], x[1]])) };
	let u32at = |o: usize| -> Option<u32> { b.get(o..o + 4).map(|x| u32::from_le_bytes([x[0], x[1], x[2], x[3]])) };
	if b.len() < 12 || &b[0..4] != b"RIFF" || &b[8..12] != b"WAVE" {
		return Err("not RIFF/WAVE");
	}
	let riff_end = (8 + u32at(4).unwrap() as usize).min(b.len());
	let mut o = 12;
	let mut fmt: Option<(Fmt, u16, u32)> = None;
	while o + 8 <= riff_end {
		let id = &b[o..o + 4];
		let size = u32at(o + 4).unwrap() as usize;
		let start = o + 8;
		if id == b"fmt " {
			if size < 16 || start + size > b.len() {
				return Err("short fmt");
			}
			let mut tag = u16at(start).unwrap();
			let channels = u16at(start + 2).unwrap();
			let rate = u32at(start + 4).unwrap();
			let block = u16at(start + 12).unwrap();
			let bits = u16at(start + 14).unwrap();
			if tag == 0xFFFE {
				if size < 40 {
					return Err("short extensible fmt");
				}
				if u16at(start + 18).unwrap() != bits {
					return Err("valid bits != container bits");
				}
				tag = u16at(start + 24).unwrap();
				if b[start + 26..start + 40] != [0x00, 0x00, 0x00, 0x00, 0x10, 0x00, 0x80, 0x00, 0x00, 0xAA, 0x00, 0x38, 0x9B, 0x71] {
					return Err("unknown subformat guid");
				}
			}
			let f = match (tag, bits) {
				(1, 8) => Fmt::U8,
				(1, 16) => Fmt::I16,
				(1, 24) => Fmt::I24,
				(1, 32) => Fmt::I32,
				(3, 32) => Fmt::F32,
				(3, 64) => Fmt::F64,
				_ => return Err("format not handled by the harness reader"),
			};
			if channels == 0 || rate == 0 || block as usize != channels as usize * bits as usize / 8 {
				return Err("inconsistent fmt");
			}
			fmt = Some((f, channels, rate));
		} else if id == b"data" {
			let (f, channels, rate) = fmt.ok_or("data before fmt")?;
			let avail = b.len().saturating_sub(start).min(size);
			let block = channels as usize * f.bits() as usize / 8;
			let n = avail / block;
			let mut frames = Vec::with_capacity(n);
			for i in 0..n {
				let mut fr = vec![];
				for c in 0..channels as usize {
					let p = start + i * block + c * (f.bits() as usize / 8);
					let s = match f {
						Fmt::U8 => Smp::Int(b[p] as i64),
						Fmt::I16 => Smp::Int(i16::from_le_bytes([b[p], b[p + 1]]) as i64),
						Fmt::I24 => Smp::Int(((i32::from_le_bytes([0, b[p], b[p + 1], b[p + 2]])) >> 8) as i64),
						Fmt::I32 => Smp::Int(i32::from_le_bytes([b[p], b[p + 1], b[p + 2], b[p + 3]]) as i64),
						Fmt::F32 => Smp::Flt(f32::from_le_bytes([b[p], b[p + 1], b[p + 2], b[p + 3]]) as f64),
						Fmt::F64 => Smp::Flt(f64::from_le_bytes([b[p], b[p + 1], b[p + 2], b[p + 3], b[p + 4], b[p + 5], b[p + 6], b[p + 7]])),
					};
					fr.push(expected(f, s));
				}
				frames.push(fr);
			}
			return Ok(Parsed { rate, channels, fmt: f, frames });
		}
		o = start + size + (size & 1);
	}
	Err("no data chunk")
}

/// compares loaded frames with the independent reading; `prefix_ok`: fewer frames than expected are accepted
fn compare_loaded(data: &StaticSoundData, p: &Parsed, prefix_ok: bool) -> Result<(), String> {
	if data.sample_rate != p.rate {
		return Err(format!("sample rate {} but the file says {}", data.sample_rate, p.rate));
	}
	if data.frames.len() > p.frames.len() || (!prefix_ok && data.frames.len() != p.frames.len()) {
		return Err(format!("{} frames loaded but the file holds {}", data.frames.len(), p.frames.len()));
	}
	for (i, f) in data.frames.iter().enumerate() {
		let e = &p.frames[i];
		let (l, r) = if p.channels == 1 { (e[0], e[0]) } else { (e[0], e[1]) };
		for (got, (want, tol), ch) in [(f.left, l, "left"), (f.right, r, "right")] {
			let ok = if want.is_nan() { got.is_nan() } else { (got as f64 - want).abs() <= tol || (got as f64 == want) };
			if !ok {
				return Err(format!("frame {} {}: loaded {:e} but the file stores {:e} (+-{:e}) [{:?}, {} channel(s)]", i, ch, got, want, tol, p.fmt, p.channels));
			}
		}
	}
	Ok(())
}

fn gen_sample(r: &mut Rng, fmt: Fmt) -> Smp {
	let edge = r.chance(0.1);
	match fmt {
		Fmt::U8 => Smp::Int(if edge { *r.pick(&[0, 255, 128, 127, 129]) } else { r.below(256) as i64 }),
		Fmt::I16 => Smp::Int(if edge { *r.pick(&[-32768, 32767, 0, 1, -1]) } else { r.below(65536) as i64 - 32768 }),
		Fmt::I24 => Smp::Int(if edge { *r.pick(&[-8388608, 8388607, 0, 1, -1]) } else { r.below(1 << 24) as i64 - (1 << 23) }),
		Fmt::I32 => Smp::Int(if edge { *r.pick(&[i32::MIN as i64, i32::MAX as i64, 0, 1, -1]) } else { r.below(1 << 32) as i64 - (1i64 << 31) }),
		Fmt::F32 | Fmt::F64 => Smp::Flt(if edge { *r.pick(&[0.0, 1.0, -1.0, 1e-30, 3.5, -0.0]) } else { r.f64_in(-1.0, 1.0) }),
	}
}

fn gen_spec(r: &mut Rng) -> WavSpec {
	let fmt = *r.pick(&[Fmt::U8, Fmt::I16, Fmt::I24, Fmt::I32, Fmt::F32, Fmt::F64]);
	WavSpec {
		fmt,
		channels: *r.pick(&[1u16, 2, 1, 2, 2, 3, 6]),
		rate: *r.pick(&[8000u32, 11025, 22050, 44100, 48000, 96000, 192000, 1, 12345]),
		extensible: r.chance(0.25),
		junk_before: if r.chance(0.3) { Some(r.usize_in(0, 41)) } else { None },
		junk_after: r.chance(0.3),
		fact: r.chance(0.3),
	}
}

fn err_name(e: &FromFileError) -> &'static str {
	match e {
		FromFileError::NoDefaultTrack => "NoDefaultTrack",
		FromFileError::UnknownSampleRate => "UnknownSampleRate",
		FromFileError::UnknownDuration => "UnknownDuration",
		FromFileError::UnsupportedChannelConfiguration => "UnsupportedChannelConfiguration",
		FromFileError::IoError(_) => "IoError",
		FromFileError::SymphoniaError(_) => "SymphoniaError",
		_ => "other",
	}
}

/// (F) fidelity of loading
fn fidelity_case(r: &mut Rng) -> Result<u64, String> {
	let spec = gen_spec(r);
	let n = match r.below(6) {
		0 => 0,
		1 => 1,
		2 => r.usize_in(2, 9),
		3 => 1151 + r.usize_in(0, 3),
		4 => r.usize_in(10, 3000) | 1,
		_ => r.usize_in(10, 20000),
	};
	let mut stored: Vec<Smp> = vec![];
	let mut rr = r.clone();
	let bytes = encode_wav(&spec, n, &mut |_, _| {
		let s = gen_sample(&mut rr, spec.fmt);
		stored.push(s);
		s
	});
	let parsed = parse_wav(&bytes).map_err(|e| format!("harness reader rejects its own file: {}", e))?;
	let res = StaticSoundData::from_cursor(Cursor::new(bytes.clone()));
	let class = (spec.fmt as u64) | (spec.channels as u64) << 4 | (spec.extensible as u64) << 8 | ((n.min(3)) as u64) << 9;
	match res {
		Ok(d) => {
			if spec.channels > 2 && n > 0 {
				return Err(format!("{}-channel file loaded without the documented UnsupportedChannelConfiguration error ({:?})", spec.channels, spec));
			}
			if spec.channels <= 2 {
				compare_loaded(&d, &parsed, false).map_err(|e| format!("{} ({:?}, {} frames)", e, spec, n))?;
			}
			// the same through the streaming entry point: frame count and rate
			if spec.channels <= 2 {
				match StreamingSoundData::from_cursor(Cursor::new(bytes)) {
					Ok(s) => {
						if s.num_frames() != n {
							return Err(format!("StreamingSoundData::num_frames() = {} for a file of {} frames ({:?})", s.num_frames(), n, spec));
						}
					}
					Err(e) => return Err(format!("streaming entry point rejects a valid file that loads: {} ({:?}, {} frames)", err_name(&e), spec, n)),
				}
			}
			Ok(class)
		}
		Err(FromFileError::UnsupportedChannelConfiguration) if spec.channels > 2 => Ok(class | 1 << 12),
		Err(e) => Err(format!("valid WAV file rejected with {} ({}) ({:?}, {} frames)", err_name(&e), e, spec, n)),
	}
}

// ---------------------------------------------------------------- (S) streaming follows the loaded frames

/// "a decoder that keeps ahead": wait (by observing hook hits) until the decoder thread filled its ring, ended or failed
fn wait_dec(dec: &crate::hooks::DecState) -> bool {
	use std::sync::atomic::Ordering;
	let w0 = dec.waits.load(Ordering::SeqCst);
	let t0 = std::time::Instant::now();
	loop {
		if dec.ends.load(Ordering::SeqCst) > 0 || dec.errors.load(Ordering::SeqCst) > 0 || dec.waits.load(Ordering::SeqCst) > w0 + 1 {
			return true;
		}
		if t0.elapsed() > Duration::from_secs(5) {
			return false;
		}
		std::thread::sleep(Duration::from_micros(100));
	}
}


/// Like `wait_dec`, but tells a decoder thread that HANGS from one that is merely slow: `Err` when the thread has not passed a
/// single hook point (step, wait, end, error) while a reference thread - sleeping 1 ms at a time, as the decoder thread's own
/// wait loop does - completed 3000 sleeps. The reference thread is a logical clock that slows down with the machine.
fn wait_dec_or_hang(dec: &crate::hooks::DecState) -> Result<bool, String> {
	use std::sync::atomic::{AtomicBool, AtomicU64, Ordering};
	let hits = |d: &crate::hooks::DecState| d.steps.load(Ordering::SeqCst) + d.waits.load(Ordering::SeqCst) + d.ends.load(Ordering::SeqCst) + d.errors.load(Ordering::SeqCst);
	let ready = |d: &crate::hooks::DecState, w0: u64| d.ends.load(Ordering::SeqCst) > 0 || d.errors.load(Ordering::SeqCst) > 0 || d.waits.load(Ordering::SeqCst) > w0 + 1;
	let w0 = dec.waits.load(Ordering::SeqCst);
	let base = hits(dec);
	let t0 = std::time::Instant::now();
	while t0.elapsed() < Duration::from_millis(300) {
		if ready(dec, w0) {
			return Ok(true);
		}
		std::thread::sleep(Duration::from_micros(100));
	}
	let quanta = Arc::new(AtomicU64::new(0));
	let done = Arc::new(AtomicBool::new(false));
	let (q2, d2) = (quanta.clone(), done.clone());
	let reference = std::thread::spawn(move || {
		while !d2.load(Ordering::SeqCst) {
			std::thread::sleep(Duration::from_millis(1));
			q2.fetch_add(1, Ordering::SeqCst);
		}
	});
	let res = loop {
		if ready(dec, w0) {
			break Ok(true);
		}
		if quanta.load(Ordering::SeqCst) >= 3000 && hits(dec) == base {
			break Err("the decoder thread hangs: it has not reached a single point of its loop (step, wait, end, error) while a reference thread completed 3000 sleeps of 1 ms".to_string());
		}
		if t0.elapsed() > Duration::from_secs(12) {
			break Ok(false);
		}
		crate::monitors::bump();
		std::thread::sleep(Duration::from_micros(300));
	};
	done.store(true, Ordering::SeqCst);
	let _ = reference.join();
	res
}

fn region(a: usize, b: usize) -> Region {
	Region { start: PlaybackPosition::Samples(a), end: EndPosition::Custom(PlaybackPosition::Samples(b)) }
}

#[derive(Clone, Debug)]
struct StreamSpec {
	slice: Option<(usize, usize)>,
	start: usize,
	lp: Option<(usize, usize)>,
	chunk: usize,
	/// (callback, landing frame relative to the slice, seconds passed to seek_to, landing alternatives)
	seeks: Vec<(usize, f64, Vec<usize>)>,
	max_callbacks: usize,
	/// issue the seeks even after the decoder thread has reached the end of the file
	late: bool,
	/// see `follow`
	tolerant: bool,
	/// (callback, seconds) for seek_by: relative to the position the handle reports at that moment
	seek_bys: Vec<(usize, f64)>,
	/// every seek_to is accompanied, in the same callback interval, by a seek_by of this many seconds written
	/// before (true) or after (false) it: both sound types read seek_by first and seek_to second, so the seek_to
	/// target is where playback continues - exactly one landing, and nothing is applied late
	with_by: Option<(bool, f64)>,
}

#[derive(Default)]
struct StreamOut {
	frames: u64,
	gaps: u64,
	landed: Vec<usize>,
	ignored_late_seeks: u64,
	ended: bool,
	inconclusive: bool,
	/// tolerant mode: frames that were not judged, (unjudged frames, frames skipped) of every re-join
	unjudged: u64,
	unjudged_run: u64,
	resyncs: Vec<(u64, usize)>,
	resync_target: Option<(usize, usize)>,
	spurious_eof: bool,
	combined: u64,
}

/// follower: candidates (next expected index relative to the slice, number of seek landings consumed)
#[allow(clippy::too_many_arguments)]
fn follow(spec: &StreamSpec, frames: &[Frame], base: usize, len: usize, out_frames: &[Frame], cands: &mut Vec<(usize, usize)>, pending: &[Vec<usize>], out: &mut StreamOut, pos_dbg: u64) -> Result<(), String> {
	let mut k = 0;
	while k < out_frames.len() {
		let x = &out_frames[k];
		let mut next: Vec<(usize, usize)> = vec![];
		// the frame after `p`: p + 1, taken back into the loop region while it is at or past the loop end
		let succ = |p: usize| {
			let mut q = p + 1;
			if let Some((a, b)) = spec.lp {
				while q >= b {
					q -= b - a;
				}
			}
			q
		};
		for &(e, used) in cands.iter() {
			if e < len && frames[base + e] == *x {
				next.push((succ(e), used));
			}
			if used < pending.len() {
				for &l in &pending[used] {
					if l < len && frames[base + l] == *x {
						// (when the landing frame is also the next frame in line both readings are kept)
						next.push((succ(l), used + 1));
					}
				}
			}
		}
		if next.is_empty() {
			if *x == Frame::ZERO {
				// nothing audible: waiting for data (C10's subject) or past the end
				out.gaps += 1;
				k += 1;
				continue;
			}
			let (e, used) = cands[0];
			// Tolerant mode (compressed assets, known finding): after the start position or a seek landing the stream may
			// play up to 4096 frames that are not file frames and re-join the file up to 8192 frames after the target.
			if spec.tolerant {
				let target = if out.frames == 0 && out.unjudged == 0 { Some((spec.start, used)) } else if out.resync_target.is_some() { out.resync_target } else if used < pending.len() { Some((pending[used][0], used + 1)) } else { Some((e, used)) };
				if let Some((t, new_used)) = target {
					if out.unjudged_run < 4096 {
						let w = 8.min(out_frames.len() - k);
						let found = (0..8192usize).find(|j| t + j + w <= len && (0..w).all(|q| frames[base + t + j + q] == out_frames[k + q]) && w >= 4);
						if let Some(j) = found {
							out.resyncs.push((out.unjudged_run, j));
							out.unjudged_run = 0;
							out.resync_target = None;
							*cands = vec![(t + j + w, new_used)];
							while out.landed.len() < new_used {
								out.landed.push(t + j);
							}
							out.frames += w as u64;
							k += w;
							continue;
						}
						out.unjudged += 1;
						out.unjudged_run += 1;
						out.resync_target = Some((t, new_used));
						k += 1;
						continue;
					}
				}
			}
			let near = (0..len).find(|i| frames[base + i] == *x);
			return Err(format!("output frame {} ({:e},{:e}) is neither the next file frame #{} nor the landing frame of the pending seek {:?}; it is {}", pos_dbg + k as u64, x.left, x.right, e, pending.get(used), match near { Some(i) => format!("file frame #{}", i), None => "no frame of the file at all".to_string() }));
		}
		next.sort();
		next.dedup();
		// a candidate that consumed a landing: remember it
		let max_used = next.iter().map(|c| c.1).max().unwrap();
		while out.landed.len() < max_used {
			let u = out.landed.len();
			let l = next.iter().find(|c| c.1 > u).map(|c| c.0 - 1).unwrap_or(0);
			if std::env::var("KVH_DEBUG").is_ok() {
				eprintln!("landing at output {} cands {:?} next {:?}", pos_dbg + k as u64, cands, next);
			}
			out.landed.push(l);
		}
		*cands = next;
		out.frames += 1;
		k += 1;
	}
	Ok(())
}

static LOOPS_BY_HANDLE: std::sync::atomic::AtomicU64 = std::sync::atomic::AtomicU64::new(0);

fn stream_case(bytes: Arc<Vec<u8>>, loaded: &StaticSoundData, spec: &StreamSpec) -> Result<StreamOut, String> {
	let sr = loaded.sample_rate;
	let (base, len) = spec.slice.map(|(a, b)| (a, b - a)).unwrap_or((0, loaded.frames.len()));
	let mut d = StreamingSoundData::from_cursor(Cursor::new(ArcBytes(bytes))).map_err(|e| format!("streaming entry point rejects a file that loads: {}", err_name(&e)))?;
	if let Some((a, b)) = spec.slice {
		d = d.slice(region(a, b));
	}
	// (the start position is given in frames or - one case in three - as a time a quarter of a frame past it: rounds to it)
	d = if spec.start % 3 == 1 { d.start_position(PlaybackPosition::Seconds((spec.start as f64 + 0.25) / sr as f64)) } else { d.start_position(PlaybackPosition::Samples(spec.start)) };
	// every other loop region whose end lies more than one decoder ring (16 384 frames) past the start position is given
	// through the handle before the first callback instead of as a setting (open-ended when it runs to the end of the sound):
	// nothing decoded before the decoder thread has read the command depends on it, so the frames are the same
	let lp_by_handle = spec.lp.map(|(_, b)| b > spec.start + 16_384 + 200 && (spec.start + b) % 2 == 0).unwrap_or(false);
	if let (Some((a, b)), false) = (spec.lp, lp_by_handle) {
		d = d.loop_region(region(a, b));
	}
	let (mut sound, mut h) = d.into_sound().map_err(|e| format!("into_sound failed on a valid file: {}", err_name(&e)))?;
	let dec = crate::hooks::last_decoder().ok_or("decoder hook not observed")?;
	if let (Some((a, b)), true) = (spec.lp, lp_by_handle) {
		if b == len {
			h.set_loop_region(Region { start: PlaybackPosition::Samples(a), end: EndPosition::EndOfAudio });
		} else {
			h.set_loop_region(region(a, b));
		}
		LOOPS_BY_HANDLE.fetch_add(1, std::sync::atomic::Ordering::Relaxed);
	}
	// the handle reports the start position from the beginning (a seek_by issued before the first callback is relative to it)
	if spec.slice.is_none() && spec.start < len && (h.position() * sr as f64 - spec.start as f64).abs() > 1.0 {
		return Err(format!("before the first callback the handle reports position {} s = frame {:.2}, the start position is frame {}", h.position(), h.position() * sr as f64, spec.start));
	}
	let info = MockInfoBuilder::new().build();
	let dt = 1.0 / sr as f64;
	let mut buf = vec![Frame::ZERO; spec.chunk];
	let mut out = StreamOut::default();
	let mut cands = vec![(spec.start, 0usize)];
	let mut pending: Vec<Vec<usize>> = vec![];
	let mut result = Ok(());
	for cb in 0..spec.max_callbacks {
		// the decoder thread has caught up with the previous callback (and has read the previous seek command: commands
		// are last-write-wins, a second seek written before the first was read would replace it)
		if !wait_dec(&dec) {
			out.inconclusive = true;
			break;
		}
		let mut deferred: Vec<(f64, Vec<usize>)> = vec![];
		for (at, secs, lands) in &spec.seeks {
			if *at == cb {
				if dec.ended() && !spec.late {
					continue;
				}
				if spec.with_by.is_some() {
					deferred.push((*secs, lands.clone()));
					continue;
				}
				h.seek_to(*secs);
				pending.push(lands.clone());
			}
		}
		sound.on_start_processing();
		// a seek_to together with a seek_by: written while the decoder thread is parked on the full ring, after this callback's
		// position was published (the value the seek_by will be relative to), so the relative target is known to lie in the data
		for (secs, lands) in deferred {
			let by = spec.with_by.filter(|(_, amount)| {
				let t = (h.position() + amount) * sr as f64;
				t >= 4.0 && t + 4.0 < len as f64
			});
			if let Some((true, amount)) = by {
				h.seek_by(amount);
			}
			h.seek_to(secs);
			if let Some((false, amount)) = by {
				h.seek_by(amount);
			}
			out.combined += by.is_some() as u64;
			pending.push(lands);
		}
		// (issued after this callback's position was published: that is the value the decoder thread will read)
		for (at, amount) in &spec.seek_bys {
			if *at == cb && !dec.ended() {
				// relative to what is being heard (the position the handle reports), not to how far the decoder has read ahead
				let pos = h.position();
				let t = ((pos + amount) * sr as f64).round();
				if t >= 2.0 && (t as usize) + 3 < len {
					h.seek_by(*amount);
					let t = t as usize;
					pending.push(vec![t - 2, t - 1, t, t + 1, t + 2]);
				}
			}
		}
		sound.process(&mut buf, dt, &info);
		crate::monitors::bump();
		if let Err(e) = follow(spec, &loaded.frames, base, len, &buf, &mut cands, &pending, &mut out, (cb * spec.chunk) as u64) {
			result = Err(e);
			break;
		}
		if let Some(e) = h.pop_error() {
			if spec.tolerant && !out.resyncs.is_empty() && format!("{}", e).contains("end of stream") {
				// part of the listed Vorbis finding: frames were lost on the way, so the scheduler asks for more than the file has
				out.spurious_eof = true;
				out.ended = true;
				break;
			}
			result = Err(format!("streaming a valid file reported an error: {} ({})", err_name(&e), e));
			break;
		}
		if h.state() == PlaybackState::Stopped {
			out.ended = true;
			break;
		}
	}
	if !out.ended {
		h.stop(Tween { duration: Duration::ZERO, ..Default::default() });
		for _ in 0..4 {
			sound.on_start_processing();
			sound.process(&mut buf, dt, &info);
			if h.state() == PlaybackState::Stopped {
				break;
			}
		}
	}
	drop(sound);
	result?;
	if out.inconclusive {
		return Ok(out);
	}
	if let (true, Some((a, b)), false) = (out.ended, spec.lp, out.spurious_eof) {
		// nothing stops a looping sound that began before its loop end (the seeks of such a case land inside the loop)
		if spec.start < b {
			return Err(format!("the sound ended although the loop region {}..{} (of {} frames{}) was in force from the start (start position {})", a, b, len, if lp_by_handle { ", given through the handle before the first callback" } else { "" }, spec.start));
		}
	}
	if out.ended && spec.lp.is_none() {
		// everything up to the last frame was played and every seek issued while the decoder was alive landed
		let final_e = cands.iter().map(|c| c.0).max().unwrap_or(0);
		let used = cands.iter().map(|c| c.1).max().unwrap_or(0);
		if used < pending.len() {
			if spec.late {
				out.ignored_late_seeks = (pending.len() - used) as u64;
			} else {
				return Err(format!("the sound ended after {} of {} seeks had taken effect (landings expected {:?})", used, pending.len(), pending));
			}
		}
		if final_e != len && !(spec.tolerant && !out.resyncs.is_empty() && final_e + 8192 >= len) {
			return Err(format!("the sound ended after file frame #{} but the {} has {} frames", final_e as i64 - 1, if spec.slice.is_some() { "slice" } else { "file" }, len));
		}
	}
	Ok(out)
}

/// Arc-backed byte source so a 100 kB file is not copied per case
struct ArcBytes(Arc<Vec<u8>>);
impl AsRef<[u8]> for ArcBytes {
	fn as_ref(&self) -> &[u8] {
		&self.0
	}
}

/// index-coded WAV: every frame is unique and non-zero
fn coded_wav(r: &mut Rng, n: usize) -> (Vec<u8>, WavSpec) {
	let (fmt, channels) = *r.pick(&[(Fmt::I16, 2u16), (Fmt::I16, 2), (Fmt::I24, 1), (Fmt::F32, 2), (Fmt::I32, 1)]);
	let spec = WavSpec { fmt, channels, rate: *r.pick(&[8000u32, 22050, 44100, 48000]), extensible: r.chance(0.2), junk_before: if r.chance(0.2) { Some(r.usize_in(1, 30)) } else { None }, junk_after: r.chance(0.2), fact: false };
	let bytes = encode_wav(&spec, n, &mut |i, c| match (fmt, channels) {
		(Fmt::I16, _) => Smp::Int(if c == 0 { (i & 0x3FFF) as i64 + 1 } else { ((i >> 14) & 0x3FFF) as i64 + 1 }),
		(Fmt::I24, _) | (Fmt::I32, _) => Smp::Int(i as i64 + 1),
		_ => Smp::Flt(if c == 0 { ((i & 0xFFF) + 1) as f64 / 8192.0 } else { ((i >> 12) + 1) as f64 / 8192.0 }),
	});
	(bytes, spec)
}

fn gen_stream_spec(r: &mut Rng, n: usize, sr: u32) -> StreamSpec {
	let slice = if r.chance(0.4) {
		let a = r.usize_in(0, n / 2);
		let b = r.usize_in(a + n / 4, n);
		Some((a, b))
	} else {
		None
	};
	let len = slice.map(|(a, b)| b - a).unwrap_or(n);
	let start = if r.chance(0.5) { 0 } else { r.usize_in(0, len - 2) };
	let lp = if r.chance(0.3) && len > 3000 {
		// (also loop starts on a packet boundary of the file: 1152 frames for symphonia's WAV reader)
		let a = if r.chance(0.3) { (r.usize_in(0, len - 2500) / 1152) * 1152 } else { r.usize_in(0, len - 2500) };
		// (one loop in four runs to the end of the sound)
		let b = if r.chance(0.25) { len } else { r.usize_in(a + 1500, len) };
		Some((a, b))
	} else {
		None
	};
	let chunk = *r.pick(&[1000usize, 2048, 4096, 8000]);
	let max_callbacks = if lp.is_some() { (2 * len + 40000) / chunk } else { (len + 3 * 17000) / chunk + 8 };
	let mut seeks = vec![];
	let n_seeks = r.below(4) as usize;
	let mut cb = 0;
	for _ in 0..n_seeks {
		cb += r.usize_in(1, (len / chunk / 3).max(2));
		let k = match lp {
			// inside the loop region: the same landing whatever the current position
			Some((a, b)) => r.usize_in(a, b - 2),
			None => {
				if r.chance(0.4) {
					// close to where the decoder is (playback + ring)
					((cb * chunk + start + 16384) as i64 + r.usize_in(0, 2400) as i64 - 1200).clamp(0, len as i64 - 2) as usize
				} else {
					r.usize_in(0, len - 2)
				}
			}
		};
		// rewinds, packet-aligned targets and the same target twice in a row
		let k = if lp.is_none() && r.chance(0.15) {
			0
		} else if lp.is_none() && r.chance(0.25) {
			(k / 1152) * 1152
		} else if r.chance(0.2) && !seeks.is_empty() {
			let (_, _, l): &(usize, f64, Vec<usize>) = seeks.last().unwrap();
			l[0]
		} else {
			k
		};
		seeks.push((cb, (k as f64 + 0.25) / sr as f64, vec![k]));
	}
	let mut seek_bys = vec![];
	if lp.is_none() && r.chance(0.3) {
		// one relative seek, at a callback of its own
		let at = seeks.last().map(|s| s.0 + 1 + r.usize_in(0, 3)).unwrap_or(r.usize_in(1, (len / chunk / 3).max(2)));
		seek_bys.push((at, r.f64_in(-0.3, 0.6) * len as f64 / sr as f64));
	}
	// (only without a loop and a slice: the relative target must stay inside the data whatever it is relative to)
	let with_by = if lp.is_none() && r.chance(0.3) { Some((r.chance(0.5), r.f64_in(-0.2, 0.2) * len as f64 / sr as f64)) } else { None };
	StreamSpec { slice, start, lp, chunk, seeks, max_callbacks, late: false, tolerant: false, seek_bys, with_by }
}

const LATE_SEEK_KEY: &str = "C18.streaming_seek_ignored_after_decoder_reached_end";
const ROUNDING_KEY: &str = "C18.seek_to_truncates_in_static_rounds_in_streaming";
const RATE0_KEY: &str = "C18.wav_sample_rate_zero_panics_in_symphonia";
const RATE0_SIG: &str = "TimeBase cannot have 0 numerator or denominator";

/// landing of seek_to(seconds) in a static sound: first file frame heard after the jump
fn static_landing(loaded: &StaticSoundData, secs: f64) -> Option<usize> {
	let (mut s, mut h) = loaded.clone().into_sound().ok()?;
	let info = MockInfoBuilder::new().build();
	let dt = 1.0 / loaded.sample_rate as f64;
	let mut buf = vec![Frame::ZERO; 64];
	s.on_start_processing();
	s.process(&mut buf, dt, &info);
	h.seek_to(secs);
	s.on_start_processing();
	s.process(&mut buf, dt, &info);
	let idx: Vec<usize> = buf.iter().filter_map(|x| loaded.frames.iter().position(|f| f == x)).collect();
	// the first index that is not a continuation of the frames played before the seek (0..64+look-ahead)
	idx.iter().copied().find(|i| *i > 200).or_else(|| idx.last().copied())
}

// ---------------------------------------------------------------- (X) corruptions

fn corrupt_case(r: &mut Rng, stats: &mut XStats) -> Result<(), String> {
	let spec = WavSpec { channels: *r.pick(&[1u16, 2]), ..gen_spec(r) };
	let n = r.usize_in(0, 600);
	let mut rr = r.clone();
	let mut bytes = encode_wav(&spec, n, &mut |_, _| gen_sample(&mut rr, spec.fmt));
	let hdr = bytes.len() - n * (spec.fmt.bits() as usize / 8) * spec.channels as usize;
	let what;
	match r.below(4) {
		0 => {
			let cut = r.usize_in(0, bytes.len());
			bytes.truncate(cut);
			what = format!("truncated to {} bytes", cut);
		}
		1 | 2 => {
			let p = r.usize_in(0, hdr.min(bytes.len()).saturating_sub(1));
			let bit = 1u8 << r.below(8);
			bytes[p] ^= bit;
			what = format!("header byte {} ^= {:#x}", p, bit);
		}
		_ => {
			let p = r.usize_in(0, bytes.len() - 1);
			let v = *r.pick(&[0u8, 0xFF, 0x80, 0x7F]);
			bytes[p] = v;
			what = format!("byte {} = {:#x}", p, v);
		}
	}
	let parsed = parse_wav(&bytes);
	let res = StaticSoundData::from_cursor(Cursor::new(bytes.clone()));
	let mut loaded = None;
	match res {
		Err(e) => {
			stats.errors += 1;
			let _ = err_name(&e);
		}
		Ok(d) => match &parsed {
			Ok(p) if p.channels <= 2 => {
				compare_loaded(&d, p, true).map_err(|e| format!("{} after corruption [{}] of {:?} with {} frames: samples that the bytes do not hold", e, what, spec, n))?;
				stats.ok_prefix += 1;
				loaded = Some(d);
			}
			_ => {
				stats.ok_unjudged += 1;
				loaded = Some(d);
			}
		},
	}
	// streaming the same bytes: must end (or be refused), and follow what was loaded
	if r.chance(0.5) {
		if let Ok(d) = StreamingSoundData::from_cursor(Cursor::new(bytes.clone())) {
			let frames = d.num_frames();
			if let Ok((mut sound, mut h)) = d.into_sound() {
				let dec = crate::hooks::last_decoder().ok_or("decoder hook not observed")?;
				let info = MockInfoBuilder::new().build();
				let sr = loaded.as_ref().map(|l| l.sample_rate).unwrap_or(44100).max(1);
				let mut buf = vec![Frame::ZERO; 2048];
				let mut played: Vec<Frame> = vec![];
				let mut stopped = false;
				for _ in 0..(frames.min(1 << 20) / 2048 + 8) {
					match wait_dec_or_hang(&dec) {
						Ok(true) => {}
						Ok(false) => {
							stats.inconclusive += 1;
							break;
						}
						Err(e) => {
							// let the thread go if it still can, then report
							h.stop(Tween { duration: Duration::ZERO, ..Default::default() });
							sound.on_start_processing();
							sound.process(&mut buf, 1.0 / sr as f64, &info);
							return Err(format!("streaming the corrupted file [{}]: {} ({:?}, {} frames)", what, e, spec, n));
						}
					}
					sound.on_start_processing();
					sound.process(&mut buf, 1.0 / sr as f64, &info);
					crate::monitors::bump();
					played.extend_from_slice(&buf);
					if h.state() == PlaybackState::Stopped {
						stopped = true;
						break;
					}
				}
				let err = h.pop_error();
				if !stopped {
					h.stop(Tween { duration: Duration::ZERO, ..Default::default() });
					sound.on_start_processing();
					sound.process(&mut buf, 1.0 / sr as f64, &info);
				}
				drop(sound);
				stats.streamed += 1;
				if err.is_some() {
					stats.stream_errors += 1;
				}
				if let Some(l) = &loaded {
					// what was played must be a prefix of what loading gives (then silence)
					for (i, x) in played.iter().enumerate() {
						let want = l.frames.get(i).copied().unwrap_or(Frame::ZERO);
						// a non-finite sample spreads over the interpolator's four-frame window (0 x NaN = NaN): not judged there
						// (huge finite samples overflow inside the interpolator to the same effect)
						let wild = |v: f32| !v.is_finite() || v.abs() > 1e15;
						if (i.saturating_sub(1)..=i + 2).any(|j| l.frames.get(j).map(|f| wild(f.left) || wild(f.right)).unwrap_or(false)) {
							continue;
						}
						// a corrupted sample-rate field can give a rate r with r * (1/r) != 1: the playback position then drifts by
						// rounding errors and the interpolator is evaluated a hair off the frame: compare with a tolerance
						let close = |a: f32, b: f32| a == b || (a - b).abs() <= 1e-4 * (1.0 + b.abs());
						let same = close(x.left, want.left) && close(x.right, want.right);
						if !same && *x != Frame::ZERO {
							return Err(format!("streaming the corrupted file [{}] played ({:e},{:e}) at frame {} where loading it gives ({:e},{:e}) ({:?}, {} frames)", what, x.left, x.right, i, want.left, want.right, spec, n));
						}
					}
				}
			}
		}
	}
	Ok(())
}

#[derive(Default)]
struct XStats {
	errors: u64,
	ok_prefix: u64,
	ok_unjudged: u64,
	streamed: u64,
	stream_errors: u64,
	inconclusive: u64,
}

// ---------------------------------------------------------------- assets

fn asset_paths() -> Vec<String> {
	let mut v = vec![];
	for dir in ["/repo/crates/examples/assets", "/repo/crates/examples/assets/dynamic"] {
		if let Ok(rd) = std::fs::read_dir(dir) {
			for e in rd.flatten() {
				let p = e.path();
				if p.is_file() {
					v.push(p.to_string_lossy().to_string());
				}
			}
		}
	}
	v.sort();
	v
}

const OGG_KEY: &str = "C18.vorbis_streaming_misaligned_after_start_position_or_seek";

/// Ok((outcome, matched_known_ogg_finding))
fn asset_case(r: &mut Rng, path: &str, with_seeks: bool, ogg_known: bool) -> Result<(StreamOut, bool), String> {
	let bytes = Arc::new(std::fs::read(path).map_err(|e| format!("cannot read {}: {}", path, e))?);
	let loaded = StaticSoundData::from_cursor(Cursor::new(ArcBytes(bytes.clone()))).map_err(|e| format!("shipped asset {} does not load: {}", path, e))?;
	let n = loaded.frames.len();
	let chunk = 2048;
	let mut seeks = vec![];
	if with_seeks && n > 40000 {
		let mut cb = 0;
		for _ in 0..r.usize_in(1, 2) {
			cb += r.usize_in(1, n / chunk / 3);
			// land on an audible, locally unique frame
			let mut k = r.usize_in(0, n - 20000);
			while k < n - 2 && (loaded.frames[k].left.abs() < 1e-3 || loaded.frames[k] == loaded.frames[k + 1]) {
				k += 1;
			}
			seeks.push((cb, (k as f64 + 0.25) / loaded.sample_rate as f64, vec![k]));
		}
	}
	let start = if r.chance(0.5) { 0 } else { r.usize_in(0, n / 2) };
	let spec = StreamSpec { slice: None, start, lp: None, chunk, seeks, max_callbacks: (n + 3 * 17000) / chunk + 8, late: false, tolerant: false, seek_bys: vec![], with_by: None };
	let ctxs = format!("[asset {}, start {}, seeks {:?}]", path, start, spec.seeks);
	match stream_case(bytes.clone(), &loaded, &spec) {
		Ok(o) => Ok((o, false)),
		Err(e) => {
			let is_ogg_positioned = path.ends_with(".ogg") && (start > 0 || !spec.seeks.is_empty());
			if is_ogg_positioned && ogg_known {
				// the listed finding (input class: Vorbis asset streamed from a start position > 0 or with seeks): the stream
				// skips frames, plays blocks that are not in the file, or ends early with an end-of-stream error. What still
				// must hold (no panic, no hang, the sound ends) was checked by running the case.
				Ok((StreamOut::default(), true))
			} else {
				Err(format!("{} {}", e, ctxs))
			}
		}
	}
}

// ---------------------------------------------------------------- driver

pub fn run(ctx: &mut Ctx) {
	let n = ctx.t(40_000u64, 8_000_000u64);
	let assets = asset_paths();
	let mut xs = XStats::default();
	let mut streamed_frames = 0u64;
	let mut gaps = 0u64;
	let mut landed = 0u64;
	let mut combined = 0u64;
	let mut late_known = 0u64;
	let mut rounding_known = 0u64;
	let mut inconclusive = 0u64;
	let ogg_known = ctx.known(OGG_KEY);
	let mut rate0_known = 0u64;
	let (mut ogg_hits, mut ogg_max_garbage, mut ogg_max_shift) = (0u64, 0u64, 0u64);
	for i in 0..n {
		if !ctx.owns("dec", i) {
			continue;
		}
		if !ctx.replaying() && !ctx.time_left(0.92) {
			ctx.note("time budget reached before the case limit");
			break;
		}
		let mut r = Rng::for_case(ctx.seed, 1801, i);
		ctx.eval();
		let kind = r.below(20);
		crate::monitors::set_current(ctx, "dec", i, "decode case", false);
		let res = super::guarded(|| -> Result<u64, String> {
			match kind {
				0..=5 => fidelity_case(&mut r),
				6..=11 => corrupt_case(&mut r, &mut xs).map(|_| 1 << 16),
				12..=15 => {
					let n = *r.pick(&[3000usize, 20000, 40000, 70000]) + r.usize_in(0, 1500);
					let (bytes, wspec) = coded_wav(&mut r, n);
					let bytes = Arc::new(bytes);
					let loaded = StaticSoundData::from_cursor(Cursor::new(ArcBytes(bytes.clone()))).map_err(|e| format!("coded file does not load: {}", e))?;
					let spec = gen_stream_spec(&mut r, n, wspec.rate);
					let o = stream_case(bytes, &loaded, &spec).map_err(|e| format!("{} [{:?}, {} frames, {:?}]", e, wspec, n, spec))?;
					streamed_frames += o.frames;
					gaps += o.gaps;
					combined += o.combined;
					landed += o.landed.len() as u64;
					if o.inconclusive {
						inconclusive += 1;
					}
					Ok(2 << 16 | (spec.slice.is_some() as u64) | (spec.lp.is_some() as u64) << 1 | (spec.seeks.len() as u64) << 2 | ((spec.start > 0) as u64) << 5 | (wspec.fmt as u64) << 6)
				}
				16 => {
					// seek issued after the decoder thread reached the end of the file
					let n = r.usize_in(3000, 30000);
					let (bytes, wspec) = coded_wav(&mut r, n);
					let bytes = Arc::new(bytes);
					let loaded = StaticSoundData::from_cursor(Cursor::new(ArcBytes(bytes.clone()))).map_err(|e| format!("coded file does not load: {}", e))?;
					let k = r.usize_in(0, n / 2);
					let cb = if n > 17000 { (n - 16000) / 512 + 1 } else { r.usize_in(0, 3) };
					let spec = StreamSpec { slice: None, start: 0, lp: None, chunk: 512, seeks: vec![(cb, (k as f64 + 0.25) / wspec.rate as f64, vec![k])], max_callbacks: (2 * n + 3 * 17000) / 512 + 8, late: true, tolerant: false, seek_bys: vec![], with_by: None };
					let o = stream_case(bytes, &loaded, &spec).map_err(|e| format!("{} [{:?}, {} frames, {:?}]", e, wspec, n, spec))?;
					if o.ignored_late_seeks > 0 {
						return Err(LATE_SEEK_KEY.into());
					}
					Ok(3 << 16)
				}
				17 => {
					// seek_to(t) with t*sr = k + 0.75: the frame a static sound jumps to vs the frame a streaming sound jumps to
					let n = 40000;
					let (bytes, wspec) = coded_wav(&mut r, n);
					let bytes = Arc::new(bytes);
					let loaded = StaticSoundData::from_cursor(Cursor::new(ArcBytes(bytes.clone()))).map_err(|e| format!("coded file does not load: {}", e))?;
					// beyond everything the old stream still plays (seek at callback 1, 16384 frames buffered)
					let k = r.usize_in(25000, 38000);
					let secs = (k as f64 + *r.pick(&[0.75, 0.5, 0.999, 0.0])) / wspec.rate as f64;
					let st = static_landing(&loaded, secs).ok_or("static landing not observed")?;
					let spec = StreamSpec { slice: None, start: 0, lp: None, chunk: 1024, seeks: vec![(1, secs, vec![k - 1, k, k + 1])], max_callbacks: (n + 3 * 17000) / 1024 + 8, late: false, tolerant: false, seek_bys: vec![], with_by: None };
					let o = stream_case(bytes, &loaded, &spec)?;
					match o.landed.first() {
						Some(l) if *l == st => Ok(4 << 16),
						Some(l) => Err(format!("{}|seek_to({} s) at {} Hz (= frame {:.3}): a static sound continues from file frame {}, a streaming sound of the same file from frame {}", ROUNDING_KEY, secs, wspec.rate, secs * wspec.rate as f64, st, l)),
						None => Err("streaming seek never landed".into()),
					}
				}
				_ => {
					if assets.is_empty() {
						return Err("no shipped assets found under /repo/crates/examples/assets".into());
					}
					let p = &assets[r.below(assets.len() as u64) as usize];
					let (o, known) = asset_case(&mut r, p, kind == 19, ogg_known)?;
					if known {
						ogg_hits += 1;
						for (g, j) in &o.resyncs {
							ogg_max_garbage = ogg_max_garbage.max(*g);
							ogg_max_shift = ogg_max_shift.max(*j as u64);
						}
					}
					streamed_frames += o.frames;
					gaps += o.gaps;
					landed += o.landed.len() as u64;
					if o.inconclusive {
						inconclusive += 1;
					}
					Ok(5 << 16 | crate::util::hash_str(p) % 64 | ((kind == 19) as u64) << 8)
				}
			}
		});
		crate::monitors::clear_current();
		// panics on other threads (decoder thread) are recorded by the hook
		let stray = crate::monitors::take_panics();
		match res {
			Ok(Ok(class)) => {
				if let Some(p) = stray.iter().find(|p| !p.in_harness()) {
					ctx.violation("dec", i, &format!("panic on another thread while decoding: {}", p.sig()), J::Null);
				} else {
					ctx.distinct_key(0xC18_0000_0000 | class);
				}
			}
			Ok(Err(e)) if e == LATE_SEEK_KEY => {
				if ctx.known(LATE_SEEK_KEY) {
					late_known += 1;
				} else {
					ctx.violation("dec", i, "seek_to on a streaming sound was ignored: the decoder thread had already reached the end of the file (the last 16384 frames were buffered), the sound played to the end instead of jumping", J::Null);
				}
			}
			Ok(Err(e)) if e.starts_with(ROUNDING_KEY) => {
				if ctx.known(ROUNDING_KEY) {
					rounding_known += 1;
				} else {
					ctx.violation("dec", i, e.split_once('|').map(|x| x.1).unwrap_or(&e), J::Null);
				}
			}
			Ok(Err(e)) => ctx.violation("dec", i, &e, J::Null),
			Err(p) => {
				let sigs = p.iter().chain(stray.iter()).map(|p| p.sig()).collect::<Vec<_>>().join(" | ");
				if (6..=11).contains(&kind) && sigs.contains(RATE0_SIG) && ctx.known(RATE0_KEY) {
					rate0_known += 1;
				} else {
					ctx.violation("dec", i, &format!("panic: {}", sigs), J::Null)
				}
			}
		}
	}
	ctx.count("stream_cases_with_the_loop_region_given_through_the_handle", LOOPS_BY_HANDLE.load(std::sync::atomic::Ordering::Relaxed));
	ctx.count("streamed_frames_matched_to_file_frames", streamed_frames);
	ctx.count("silent_output_frames_while_waiting_or_after_end", gaps);
	ctx.count("seek_landings_observed", landed);
	ctx.count("seek_to_with_seek_by_in_the_same_interval", combined);
	ctx.count("corrupt_files_rejected_with_error", xs.errors);
	ctx.count("corrupt_files_loaded_as_prefix_of_independent_reading", xs.ok_prefix);
	ctx.count("corrupt_files_loaded_not_judged", xs.ok_unjudged);
	ctx.count("corrupt_files_streamed_to_the_end", xs.streamed);
	ctx.count("corrupt_files_streaming_error_reported", xs.stream_errors);
	ctx.inconclusive += inconclusive + xs.inconclusive;
	if late_known > 0 {
		ctx.count("late_seek_cases_matching_known_finding", late_known);
		ctx.exclude(LATE_SEEK_KEY);
	}
	if ogg_hits > 0 {
		ctx.count("vorbis_positioned_cases_matching_known_finding", ogg_hits);
		ctx.maxf("vorbis_frames_not_in_file_after_seek_max", ogg_max_garbage as f64);
		ctx.maxf("vorbis_rejoin_offset_frames_max", ogg_max_shift as f64);
		ctx.exclude(OGG_KEY);
	}
	if rate0_known > 0 {
		ctx.count("sample_rate_zero_panics_matching_known_finding", rate0_known);
		ctx.exclude(RATE0_KEY);
	}
	if rounding_known > 0 {
		ctx.count("rounding_cases_matching_known_finding", rounding_known);
		ctx.exclude(ROUNDING_KEY);
	}
	ctx.sample(jobj! {"monitor" => "independent WAV encoder/reader + file-frame follower on streamed output", "assets" => J::A(assets.iter().map(|a| J::S(a.clone())).collect())});
}

pub fn confirm(key: &str) -> Option<Option<String>> {
	let mut r = Rng::new(7);
	match key {
		LATE_SEEK_KEY => {
			let n = 20000;
			let (bytes, wspec) = coded_wav(&mut r, n);
			let bytes = Arc::new(bytes);
			let loaded = StaticSoundData::from_cursor(Cursor::new(ArcBytes(bytes.clone()))).ok()?;
			let spec = StreamSpec { slice: None, start: 0, lp: None, chunk: 512, seeks: vec![(10, 100.25 / wspec.rate as f64, vec![100])], max_callbacks: 200, late: true, tolerant: false, seek_bys: vec![], with_by: None };
			Some(match stream_case(bytes, &loaded, &spec) {
				Ok(o) if o.ignored_late_seeks > 0 => Some("seek_to issued after the decoder thread ended was ignored".into()),
				Ok(_) => None,
				Err(e) => Some(e),
			})
		}
		RATE0_KEY => {
			let spec = WavSpec { fmt: Fmt::I16, channels: 1, rate: 0, extensible: false, junk_before: None, junk_after: false, fact: false };
			let bytes = encode_wav(&spec, 10, &mut |i, _| Smp::Int(i as i64));
			let res = super::guarded(|| StaticSoundData::from_cursor(Cursor::new(bytes)).is_ok());
			Some(match res {
				Ok(_) => None,
				Err(p) => Some(format!("WAV with sample rate 0: {}", p.first().map(|p| p.sig()).unwrap_or_default())),
			})
		}
		OGG_KEY => {
			let p = "/repo/crates/examples/assets/drums.ogg";
			let bytes = Arc::new(std::fs::read(p).ok()?);
			let loaded = StaticSoundData::from_cursor(Cursor::new(ArcBytes(bytes.clone()))).ok()?;
			let spec = StreamSpec { slice: None, start: 12345, lp: None, chunk: 2048, seeks: vec![], max_callbacks: 20, late: false, tolerant: false, seek_bys: vec![], with_by: None };
			Some(stream_case(bytes, &loaded, &spec).err().map(|e| format!("drums.ogg streamed from start position 12345: {}", e)))
		}
		ROUNDING_KEY => {
			let n = 40000;
			let (bytes, wspec) = coded_wav(&mut r, n);
			let bytes = Arc::new(bytes);
			let loaded = StaticSoundData::from_cursor(Cursor::new(ArcBytes(bytes.clone()))).ok()?;
			let secs = 30000.75 / wspec.rate as f64;
			let st = static_landing(&loaded, secs)?;
			let spec = StreamSpec { slice: None, start: 0, lp: None, chunk: 1024, seeks: vec![(1, secs, vec![29999, 30000, 30001])], max_callbacks: 80, late: false, tolerant: false, seek_bys: vec![], with_by: None };
			Some(match stream_case(bytes, &loaded, &spec) {
				Ok(o) => match o.landed.first() {
					Some(l) if *l != st => Some(format!("seek_to(30000.75 frames): static lands on {}, streaming on {}", st, l)),
					_ => None,
				},
				Err(e) => Some(e),
			})
		}
		_ => None,
	}
}
