//! C11 — rendered audio does not depend on buffer sizes (metamorphic: N renderings of one scene).

use crate::jobj;
use crate::scene::{build, render, SceneSpec};
use crate::util::{Ctx, Rng, J};

const IBS: [usize; 10] = [1, 2, 3, 7, 16, 64, 128, 333, 1024, 4096];

fn gen_sizes(r: &mut Rng, ibs: usize) -> Vec<usize> {
	match r.below(6) {
		0 => vec![1],
		1 => vec![ibs],
		2 => vec![ibs * 2 + 1, ibs.max(2) - 1, 1],
		3 => (0..9).map(|_| r.usize_in(1, 3 * ibs.max(2))).collect(),
		4 => vec![441],
		_ => vec![100, 512, 37],
	}
}

fn one_case(ctx: &mut Ctx, idx: u64, r: &mut Rng) {
	let sr = *r.pick(&[22050u32, 44100, 48000, 96000]);
	// 15 % of the scenes have no effects, 35 % only memoryless ones (bit-exact class), 50 % any effect
	let fx_mode = r.below(20);
	let spec = SceneSpec::gen(r, sr, 0.12, &|f| f.known_trigger(sr).is_some() || fx_mode < 3 || (fx_mode < 10 && f.recursive()));
	let total = r.usize_in(600, if ctx.quick() { 3000 } else { 9000 });
	ctx.eval();
	let recursive = spec.has_recursive_fx();
	let detail = |extra: String| jobj! {"scene" => spec.describe(), "frames" => total, "difference" => extra};
	let res = super::guarded(|| -> Option<String> {
		let mut reference = build(&spec, 128, 2);
		let want = render(&mut reference, total, &[128]);
		if reference.rig.alloc_events != 0 {
			return Some("allocation in callback".into());
		}
		let nonzero = want.iter().filter(|x| **x != 0.0).count();
		let n_variants = 3;
		for v in 0..n_variants {
			let ibs = *r.pick(&IBS);
			let sizes = gen_sizes(r, ibs);
			let ch = match r.below(4) {
				0 => 1u16,
				1 => r.usize_in(3, 8) as u16,
				_ => 2,
			};
			let mut b = build(&spec, ibs, ch);
			let got = render(&mut b, total, &sizes);
			let chn = ch as usize;
			for f in 0..total {
				let (wl, wr) = (want[2 * f], want[2 * f + 1]);
				let (gl, gr, wl2, wr2) = if ch == 1 {
					let m = (wl + wr) / 2.0;
					(got[f], got[f], m, m)
				} else {
					(got[chn * f], got[chn * f + 1], wl, wr)
				};
				let d = (gl - wl2).abs().max((gr - wr2).abs());
				let ok = if recursive { d <= 1e-6 } else { gl.to_bits() == wl2.to_bits() && gr.to_bits() == wr2.to_bits() || (gl == wl2 && gr == wr2) };
				if !ok || !gl.is_finite() || !gr.is_finite() {
					return Some(format!(
						"variant {}: internal buffer {} / callbacks {:?} / {} channels differs from the reference (buffer 128) at frame {}: ({:e},{:e}) vs ({:e},{:e}){}",
						v, ibs, sizes, ch, f, gl, gr, wl2, wr2, if recursive { " [> 1e-6]" } else { " [must be bit-exact]" }
					));
				}
				if ch > 2 {
					for c in 2..chn {
						if got[chn * f + c] != 0.0 {
							return Some(format!("variant {}: channel {} of {} is not silent at frame {}", v, c, ch, f));
						}
					}
				}
			}
		}
		if nonzero == 0 {
			return Some("vacuous".into());
		}
		None
	});
	match res {
		Ok(None) => {
			ctx.count("renderings_compared", 3);
			ctx.count("frames_compared", 3 * total as u64);
			ctx.distinct_str(&format!("{}|{}|{}|{}|{}", spec.tracks.len(), spec.sends.len(), spec.count_sounds(), recursive, spec.main_fx.len()));
			ctx.distinct_str(&format!("fx:{:?}", spec.main_fx.iter().map(|f| f.kind_name()).collect::<Vec<_>>()));
			if recursive {
				ctx.count("scenes_with_recursive_effects", 1);
			} else {
				ctx.count("scenes_bit_exact_class", 1);
			}
		}
		Ok(Some(w)) if w == "vacuous" => ctx.count("silent_scenes", 1),
		Ok(Some(w)) => ctx.violation("scene", idx, &w, detail(w.clone())),
		Err(p) => ctx.violation("scene", idx, &format!("panic while rendering: {}", p.first().map(|p| p.sig()).unwrap_or_default()), detail(String::new())),
	}
	if ctx.want_sample() && idx % 13 == 0 {
		ctx.sample(jobj! {"scene" => spec.describe().chars().take(700).collect::<String>(), "frames" => total, "recursive_effects" => recursive});
	}
}

pub fn run(ctx: &mut Ctx) {
	let n = ctx.t(12_000u64, 1_000_000u64);
	for i in 0..n {
		if !ctx.owns("scene", i) {
			continue;
		}
		if !ctx.replaying() && !ctx.time_left(0.9) {
			ctx.note("time budget reached before the case limit");
			break;
		}
		let mut r = Rng::for_case(ctx.seed, 1101, i);
		crate::monitors::set_current(ctx, "scene", i, "buffer-size independence scene", false);
		one_case(ctx, i, &mut r);
		crate::monitors::clear_current();
	}
	let _ = J::Null;
}

pub fn confirm(_key: &str) -> Option<Option<String>> {
	None
}
