//! C11 — rendered audio does not depend on buffer sizes (metamorphic: N renderings of one scene).

use crate::jobj;
use crate::scene::{build, render, SceneSpec};
use crate::util::{Ctx, Rng, J};

const IBS: [usize; 10] = [1, 2, 3, 7, 16, 64, 128, 333, 1024, 4096];

fn gen_sizes(r: &mut Rng, ibs: usize) -> Vec<usize> {
	match r.below(6) {
		0 => vec![1],
		1 => vec![ibs],
		2 => vec![ibs * 2 + 1, ibs.max(2) - 1, 1],
		3 => (0..9).map(|_| r.usize_in(1, 3 * ibs.max(2))).collect(),
		4 => vec![441],
		_ => vec![100, 512, 37],
	}
}

fn one_case(ctx: &mut Ctx, idx: u64, r: &mut Rng) {
	let sr = *r.pick(&[22050u32, 44100, 48000, 96000]);
	// 15 % of the scenes have no effects, 35 % only memoryless ones (bit-exact class), 50 % any effect
	let fx_mode = r.below(20);
	let spec = SceneSpec::gen(r, sr, 0.12, &|f| f.known_trigger(sr).is_some() || fx_mode < 3 || (fx_mode < 10 && f.recursive()));
	let total = r.usize_in(600, if ctx.quick() { 3000 } else { 9000 });
	ctx.eval();
	let recursive = spec.has_recursive_fx();
	let detail = |extra: String| jobj! {"scene" => spec.describe(), "frames" => total, "difference" => extra};
	let res = super::guarded(|| -> Option<String> {
		let mut reference = build(&spec, 128, 2);
		let want = render(&mut reference, total, &[128]);
		if reference.rig.alloc_events != 0 {
			return Some("allocation in callback".into());
		}
		let nonzero = want.iter().filter(|x| **x != 0.0).count();
		let n_variants = 3;
		for v in 0..n_variants {
			let ibs = *r.pick(&IBS);
			let sizes = gen_sizes(r, ibs);
			let ch = match r.below(4) {
				0 => 1u16,
				1 => r.usize_in(3, 8) as u16,
				_ => 2,
			};
			let mut b = build(&spec, ibs, ch);
			let got = render(&mut b, total, &sizes);
			let chn = ch as usize;
			for f in 0..total {
				let (wl, wr) = (want[2 * f], want[2 * f + 1]);
				let (gl, gr, wl2, wr2) = if ch == 1 {
					let m = (wl + wr) / 2.0;
					(got[f], got[f], m, m)
				} else {
					(got[chn * f], got[chn * f + 1], wl, wr)
				};
				let d = (gl - wl2).abs().max((gr - wr2).abs());
				let ok = if recursive { d <= 1e-6 } else { gl.to_bits() == wl2.to_bits() && gr.to_bits() == wr2.to_bits() || (gl == wl2 && gr == wr2) };
				if !ok || !gl.is_finite() || !gr.is_finite() {
					return Some(format!(
						"variant {}: internal buffer {} / callbacks {:?} / {} channels differs from the reference (buffer 128) at frame {}: ({:e},{:e}) vs ({:e},{:e}){}",
						v, ibs, sizes, ch, f, gl, gr, wl2, wr2, if recursive { " [> 1e-6]" } else { " [must be bit-exact]" }
					));
				}
				if ch > 2 {
					for c in 2..chn {
						if got[chn * f + c] != 0.0 {
							return Some(format!("variant {}: channel {} of {} is not silent at frame {}", v, c, ch, f));
						}
					}
				}
			}
		}
		if nonzero == 0 {
			return Some("vacuous".into());
		}
		None
	});
	match res {
		Ok(None) => {
			ctx.count("renderings_compared", 3);
			ctx.count("frames_compared", 3 * total as u64);
			ctx.distinct_str(&format!("{}|{}|{}|{}|{}", spec.tracks.len(), spec.sends.len(), spec.count_sounds(), recursive, spec.main_fx.len()));
			ctx.distinct_str(&format!("fx:{:?}", spec.main_fx.iter().map(|f| f.kind_name()).collect::<Vec<_>>()));
			if recursive {
				ctx.count("scenes_with_recursive_effects", 1);
			} else {
				ctx.count("scenes_bit_exact_class", 1);
			}
		}
		Ok(Some(w)) if w == "vacuous" => ctx.count("silent_scenes", 1),
		Ok(Some(w)) => ctx.violation("scene", idx, &w, detail(w.clone())),
		Err(p) => ctx.violation("scene", idx, &format!("panic while rendering: {}", p.first().map(|p| p.sig()).unwrap_or_default()), detail(String::new())),
	}
	if ctx.want_sample() && idx % 13 == 0 {
		ctx.sample(jobj! {"scene" => spec.describe().chars().take(700).collect::<String>(), "frames" => total, "recursive_effects" => recursive});
	}
}

/// Two families aimed at what depends on where chunk boundaries fall. (0) "Gap" scenes: one sound - a burst, a stretch of exact
/// digital silence longer than a chunk, another burst - through one effect with memory (a compressor that really compresses, a
/// delay with a filter in its feedback loop, a reverb, a resonant filter): whatever an effect does with an all-zero chunk, the
/// rendering must not depend on whether a chunk happened to be all zero. (1) A plain sound at a fixed playback rate that is not a
/// power of two (1.5, 0.75, 1.25, 3, 0.9, 0.6), rendered in chunks whose length is not a power of two: bit-exact.
fn special_case(r: &mut Rng) -> Result<(), String> {
	use crate::rig::{Rig, RigConfig};
	use kira::effect::compressor::CompressorBuilder;
	use kira::effect::delay::DelayBuilder;
	use kira::effect::filter::FilterBuilder;
	use kira::effect::reverb::ReverbBuilder;
	use kira::track::MainTrackBuilder;
	use std::time::Duration;
	let sr = *r.pick(&[22050u32, 44100, 48000]);
	let kind = r.below(2);
	let fx = r.below(4);
	let rate = if kind == 0 { 1.0 } else { *r.pick(&[1.5f64, 0.75, 1.25, 3.0, 0.9, 0.6]) };
	let frames: Vec<kira::Frame> = if kind == 0 {
		let (n1, gap, n3) = (r.usize_in(200, 1200), r.usize_in(300, 5000), r.usize_in(200, 1200));
		let mut f = crate::probes::noise_frames(r.next(), n1, 0.5);
		f.extend(vec![kira::Frame::ZERO; gap]);
		f.extend(crate::probes::noise_frames(r.next(), n3, 0.5));
		f
	} else {
		crate::probes::noise_frames(r.next(), r.usize_in(1500, 4000), 0.5)
	};
	let total = (((frames.len() as f64 / rate) as usize) + 500).min(9000);
	let fx_name = if kind == 1 { "no effect" } else { ["compressor (-30 dB, 6:1, 5 ms / 80 ms)", "delay 10 ms, feedback -6 dB through a 1 kHz low-pass", "reverb", "resonant low-pass at 800 Hz"][fx as usize] };
	let run = |ibs: usize, sizes: &[usize]| -> Result<Vec<f32>, String> {
		let mut mb = MainTrackBuilder::new();
		if kind == 0 {
			mb = match fx {
				0 => mb.with_effect(CompressorBuilder::new().threshold(-30.0).ratio(6.0).attack_duration(Duration::from_millis(5)).release_duration(Duration::from_millis(80))),
				1 => mb.with_effect(DelayBuilder::new().delay_time(Duration::from_millis(10)).feedback(kira::Decibels(-6.0)).mix(kira::Mix(0.5)).with_feedback_effect(FilterBuilder::new().cutoff(1000.0))),
				2 => mb.with_effect(ReverbBuilder::new().mix(kira::Mix(0.5))),
				_ => mb.with_effect(FilterBuilder::new().cutoff(800.0).resonance(0.4)),
			};
		}
		let mut rig = Rig::new(RigConfig { sample_rate: sr, ibs, channels: 2, ..Default::default() }, mb);
		rig.mgr.play(crate::probes::sound_from_frames(sr, frames.clone()).playback_rate(rate)).map_err(|_| "play")?;
		let mut out = Vec::with_capacity(total * 2);
		let (mut done, mut i) = (0, 0);
		while done < total {
			let n = sizes[i % sizes.len()].max(1).min(total - done);
			i += 1;
			out.extend_from_slice(rig.callback(n));
			done += n;
		}
		Ok(out)
	};
	let want = run(128, &[128])?;
	for _ in 0..3 {
		let ibs = *r.pick(&IBS);
		let sizes = if kind == 1 { r.pick(&[vec![100usize], vec![37, 5], vec![441], vec![ibs * 2 + 1, 3]]).clone() } else { gen_sizes(r, ibs) };
		let got = run(ibs, &sizes)?;
		for f in 0..total * 2 {
			let ok = if kind == 0 { (got[f] - want[f]).abs() <= 1e-6 } else { got[f].to_bits() == want[f].to_bits() || got[f] == want[f] };
			if !ok {
				return Err(format!("{} / playback rate {} ({} Hz): internal buffer {} / callbacks {:?} differs from the reference (buffer 128) at frame {}: {:e} vs {:e}{}", fx_name, rate, sr, ibs, sizes, f / 2, got[f], want[f], if kind == 0 { " [> 1e-6]" } else { " [must be bit-exact]" }));
			}
		}
	}
	Ok(())
}

pub fn run(ctx: &mut Ctx) {
	let n = ctx.t(12_000u64, 1_000_000u64);
	for i in 0..n {
		if !ctx.owns("scene", i) {
			continue;
		}
		if !ctx.replaying() && !ctx.time_left(0.9) {
			ctx.note("time budget reached before the case limit");
			break;
		}
		let mut r = Rng::for_case(ctx.seed, 1101, i);
		crate::monitors::set_current(ctx, "scene", i, "buffer-size independence scene", false);
		one_case(ctx, i, &mut r);
		crate::monitors::clear_current();
	}
	let ns = ctx.t(1_600u64, 160_000u64);
	let mut special = 0u64;
	for i in 0..ns {
		if !ctx.owns("special", i) {
			continue;
		}
		if !ctx.replaying() && !ctx.time_left(0.98) {
			break;
		}
		let mut r = Rng::for_case(ctx.seed, 1102, i);
		ctx.eval();
		crate::monitors::set_current(ctx, "special", i, "gap / dyadic-rate scene", false);
		let res = super::guarded(|| special_case(&mut r));
		crate::monitors::clear_current();
		match res {
			Ok(Ok(())) => {
				special += 1;
				ctx.distinct_key(0xC11_0002_0000 | (i % 32));
			}
			Ok(Err(e)) => ctx.violation("special", i, &e, J::Null),
			Err(p) => ctx.violation("special", i, &format!("panic while rendering: {}", p.first().map(|p| p.sig()).unwrap_or_default()), J::Null),
		}
	}
	ctx.count("gap_and_dyadic_rate_scenes", special);
}

pub fn confirm(_key: &str) -> Option<Option<String>> {
	None
}
