//! One module per property: workload + oracle + coverage counters.

use crate::util::Ctx;

pub mod c01;
pub mod c02;
pub mod c03;
pub mod c04;
pub mod c05;
pub mod c06;
pub mod c07;
pub mod c08;
pub mod c09;
pub mod c10;
pub mod c11;
pub mod c12;
pub mod c13;
pub mod c14;
pub mod c15;
pub mod c16;
pub mod c17;
pub mod c18;
pub mod c19;

pub fn dispatch(ctx: &mut Ctx) -> bool {
	match ctx.id.as_str() {
		"C01" => c01::run(ctx),
		"C02" => c02::run(ctx),
		"C03" => c03::run(ctx),
		"C04" => c04::run(ctx),
		"C05" => c05::run(ctx),
		"C06" => c06::run(ctx),
		"C07" => c07::run(ctx),
		"C08" => c08::run(ctx),
		"C09" => c09::run(ctx),
		"C10" => c10::run(ctx),
		"C11" => c11::run(ctx),
		"C12" => c12::run(ctx),
		"C13" => c13::run(ctx),
		"C14" => c14::run(ctx),
		"C15" => c15::run(ctx),
		"C16" => c16::run(ctx),
		"C17" => c17::run(ctx),
		"C18" => c18::run(ctx),
		"C19" => c19::run(ctx),
		_ => return false,
	}
	true
}

/// Confirmation of a listed known finding: Some(Some(what)) = still reproduces,
/// Some(None) = no longer reproduces, None = unknown key.
pub fn confirm(key: &str) -> Option<Option<String>> {
	let prop = key.split('.').next().unwrap_or("");
	match prop {
		"C01" => c01::confirm(key),
		"C02" => c02::confirm(key),
		"C03" => c03::confirm(key),
		"C04" => c04::confirm(key),
		"C05" => c05::confirm(key),
		"C06" => c06::confirm(key),
		"C07" => c07::confirm(key),
		"C08" => c08::confirm(key),
		"C09" => c09::confirm(key),
		"C10" => c10::confirm(key),
		"C11" => c11::confirm(key),
		"C12" => c12::confirm(key),
		"C13" => c13::confirm(key),
		"C14" => c14::confirm(key),
		"C15" => c15::confirm(key),
		"C16" => c16::confirm(key),
		"C17" => c17::confirm(key),
		"C18" => c18::confirm(key),
		"C19" => c19::confirm(key),
		_ => None,
	}
}

/// Runs `f` under catch_unwind; returns Err(panic records) if it panicked.
pub fn guarded<T>(f: impl FnOnce() -> T) -> Result<T, Vec<crate::monitors::PanicRec>> {
	let r = std::panic::catch_unwind(std::panic::AssertUnwindSafe(f));
	match r {
		Ok(v) => Ok(v),
		Err(_) => {
			crate::monitors::disarm_alloc();
			Err(crate::monitors::take_panics())
		}
	}
}
