//! C07 — handle commands reach the audio thread exactly once; last write wins; none torn.
//! Monitor A: history + model over a probe channel built on the public kira::command module,
//!            explored under the controlled scheduler and as free-running two-thread stress.
//! Monitor B: table of every real command kind with an observable effect.

use std::sync::atomic::{AtomicBool, AtomicU64, Ordering};
use std::sync::{Arc, Mutex};
use std::time::Duration;

use glam::{Quat, Vec3};
use kira::clock::{ClockHandle, ClockSpeed};
use kira::command::{command_writer_and_reader, CommandReader, CommandWriter};
use kira::effect::compressor::{CompressorBuilder, CompressorHandle};
use kira::effect::delay::{DelayBuilder, DelayHandle};
use kira::effect::distortion::{DistortionBuilder, DistortionHandle, DistortionKind};
use kira::effect::eq_filter::{EqFilterBuilder, EqFilterHandle, EqFilterKind};
use kira::effect::filter::{FilterBuilder, FilterHandle, FilterMode};
use kira::effect::panning_control::{PanningControlBuilder, PanningControlHandle};
use kira::effect::reverb::{ReverbBuilder, ReverbHandle};
use kira::effect::volume_control::{VolumeControlBuilder, VolumeControlHandle};
use kira::listener::ListenerHandle;
use kira::modulator::lfo::{LfoBuilder, LfoHandle, Waveform};
use kira::modulator::tweener::{TweenerBuilder, TweenerHandle};
use kira::sound::static_sound::StaticSoundHandle;
use kira::sound::streaming::{StreamingSoundData, StreamingSoundHandle, StreamingSoundSettings};
use kira::sound::PlaybackState;
use kira::track::{MainTrackBuilder, SendTrackBuilder, SendTrackHandle, SpatialTrackBuilder, SpatialTrackHandle, TrackBuilder, TrackHandle};
use kira::{Decibels, Easing, Frame, Mapping, Mix, Panning, PlaybackRate, StartTime, Tween, Value};

use crate::hooks::DecState;
use crate::jobj;
use crate::probes::{DecoderScript, ScriptedDecoder};
use crate::rig::{Rig, RigConfig};
use crate::util::{mix64, Ctx, Rng, J};

// ------------------------------------------------------------------ Monitor A

/// 64-byte self-checking payload
#[derive(Clone, Copy, Debug, PartialEq)]
pub struct Payload {
	pub seq: u64,
	pub w: [u64; 6],
	pub checksum: u64,
}

impl Payload {
	pub fn new(seq: u64) -> Payload {
		let mut w = [0u64; 6];
		for (i, x) in w.iter_mut().enumerate() {
			*x = mix64(seq.wrapping_mul(31).wrapping_add(i as u64));
		}
		let checksum = w.iter().fold(seq, |a, b| mix64(a ^ b));
		Payload { seq, w, checksum }
	}
	pub fn valid(&self) -> bool {
		*self == Payload::new(self.seq)
	}
}

#[derive(Clone, Debug)]
enum EvA {
	WStart(u64),
	WDone(u64),
	RStart,
	RDone(Option<Payload>),
}

#[derive(Default)]
pub struct AStats {
	pub schedules: u64,
	pub writes: u64,
	pub reads_some: u64,
	pub reads_none: u64,
	pub max_burst_collapsed: u64,
	pub reads_overlapping_write: u64,
	pub exhaustive_complete: u64,
}

/// Checks one history (events in real-time order as observed by a global logical clock).
fn check_history(ev: &[EvA], final_read_expected: bool, st: &mut AStats) -> Result<(), String> {
	let mut last_read: u64 = 0;
	let mut completed_before: u64 = 0; // highest seq whose write completed
	let mut started: u64 = 0; // highest seq whose write started
	let mut completed_at_rstart = 0u64;
	let mut started_at_rstart = 0u64;
	for e in ev {
		match e {
			EvA::WStart(s) => started = started.max(*s),
			EvA::WDone(s) => {
				completed_before = completed_before.max(*s);
				st.writes += 1;
			}
			EvA::RStart => {
				completed_at_rstart = completed_before;
				started_at_rstart = started;
			}
			EvA::RDone(r) => {
				if started > started_at_rstart || completed_before > completed_at_rstart || started > completed_at_rstart {
					st.reads_overlapping_write += 1;
				}
				match r {
					Some(p) => {
						st.reads_some += 1;
						if !p.valid() {
							return Err(format!("the reader observed a half-written / invented command: {:?}", p));
						}
						if p.seq <= last_read {
							return Err(format!("command {} was delivered after command {} had already been delivered (twice or reordered)", p.seq, last_read));
						}
						if p.seq > started {
							return Err(format!("read returned command {} which had not been written yet (latest started write {})", p.seq, started));
						}
						// last write wins: everything completed before the read began must be superseded
						if p.seq < completed_at_rstart {
							return Err(format!("read returned command {} although command {} had been completely written before the read began (stale value: last write does not win)", p.seq, completed_at_rstart));
						}
						st.max_burst_collapsed = st.max_burst_collapsed.max(p.seq - last_read);
						last_read = p.seq;
					}
					None => {
						st.reads_none += 1;
						// None only if nothing newer than the last delivered command was completely written before the read began
						if completed_at_rstart > last_read {
							return Err(format!("read returned None although command {} had been completely written before the read began and the last delivered command is {} (command lost or late)", completed_at_rstart, last_read));
						}
					}
				}
			}
		}
	}
	if final_read_expected && last_read != completed_before {
		return Err(format!("after the writer stopped, the last written command {} was never delivered (last delivered {})", completed_before, last_read));
	}
	Ok(())
}

fn run_schedule_a(prefix: Vec<usize>, rng: Option<Rng>, n_w: u64, n_r: usize, pre_writes: u64) -> (crate::sched::RunResult, Vec<EvA>) {
	let log: Arc<Mutex<Vec<EvA>>> = Arc::new(Mutex::new(vec![]));
	let (mut w, mut r): (CommandWriter<Payload>, CommandReader<Payload>) = command_writer_and_reader();
	// writes issued before the reader's first read ("before the resource's first callback")
	for s in 1..=pre_writes {
		log.lock().unwrap().push(EvA::WStart(s));
		w.write(Payload::new(s));
		log.lock().unwrap().push(EvA::WDone(s));
	}
	let lw = log.clone();
	let writer: Box<dyn FnOnce() + Send> = Box::new(move || {
		for s in pre_writes + 1..=pre_writes + n_w {
			crate::sched::yield_now("w.next");
			lw.lock().unwrap().push(EvA::WStart(s));
			w.write(Payload::new(s));
			lw.lock().unwrap().push(EvA::WDone(s));
		}
	});
	let lr = log.clone();
	let back: Arc<Mutex<Option<CommandReader<Payload>>>> = Arc::new(Mutex::new(None));
	let back2 = back.clone();
	let reader: Box<dyn FnOnce() + Send> = Box::new(move || {
		for _ in 0..n_r {
			crate::sched::yield_now("r.next");
			lr.lock().unwrap().push(EvA::RStart);
			let v = r.read();
			lr.lock().unwrap().push(EvA::RDone(v));
		}
		*back2.lock().unwrap() = Some(r);
	});
	let res = crate::sched::run(vec![writer, reader], prefix, rng);
	// one more read after the writer has stopped: the last command must arrive (not lost, not late)
	if let Some(mut r) = back.lock().unwrap().take() {
		log.lock().unwrap().push(EvA::RStart);
		let v = r.read();
		log.lock().unwrap().push(EvA::RDone(v));
	}
	let ev = log.lock().unwrap().clone();
	(res, ev)
}

fn monitor_a(ctx: &mut Ctx, st: &mut AStats) {
	crate::sched::set_site_filter(Some(|s: &str| s == "w.next" || s == "r.next"));
	let fixed = if ctx.only_case.is_none() && ctx.nshards.is_power_of_two() { (ctx.nshards.trailing_zeros() as usize).min(3) } else { 0 };
	let my_prefix: Vec<usize> = (0..fixed).map(|b| ((ctx.shard >> b) & 1) as usize).collect();
	let duplicate_shard = ctx.only_case.is_none() && ctx.nshards.is_power_of_two() && (ctx.shard >> fixed) != 0;
	let max = ctx.t(4u64, 6u64);
	let mut cfg_no = 0u64;
	if !duplicate_shard {
		for w in 1..=max {
			for rr in 1..=max as usize {
				for pre in [0u64, 2] {
					cfg_no += 1;
					let mut case_no = cfg_no * 10_000_000;
					let mut prefix: Option<Vec<usize>> = Some(my_prefix.clone());
					let mut count = 0u64;
					while let Some(p) = prefix {
						let mine = ctx.only_case.as_ref().map(|(s, c)| s == "a" && *c == case_no).unwrap_or(true);
						case_no += 1;
						let (res, ev) = run_schedule_a(p.clone(), None, w, rr, pre);
						let duplicate = res.log.iter().take(fixed).zip(&my_prefix).any(|((c, n), want)| *n < 2 || c != want);
						if duplicate {
							break;
						}
						if mine {
							st.schedules += 1;
							ctx.eval();
							// the final read happens after the writer finished only if the writer is done: the checker
							// requires delivery of the last completed write by the end of the history
							if let Err(e) = check_history(&ev, true, st) {
								ctx.violation("a", case_no - 1, &e, jobj! {"writes" => w, "reads" => rr, "pre_writes" => pre, "history" => ev.iter().map(|x| J::S(format!("{:?}", x).chars().take(40).collect())).collect::<Vec<J>>()});
							}
							ctx.distinct_str(&format!("A{:?}", res.steps));
							if ctx.want_sample() && count == 3 && w == 2 {
								ctx.sample(jobj! {"monitor" => "A: probe command channel under the controlled scheduler", "writes" => w, "reads" => rr, "history" => ev.iter().map(|x| J::S(format!("{:?}", x).chars().take(30).collect())).collect::<Vec<J>>()});
							}
						}
						prefix = crate::sched::next_prefix_within(&res.log, fixed);
						count += 1;
					}
					st.exhaustive_complete += 1;
				}
			}
		}
	}
	crate::sched::set_site_filter(None);
}

/// Free-running two-thread stress with injected spin delays: reaches interleavings inside the triple buffer.
fn stress_a(ctx: &mut Ctx, st: &mut AStats) {
	let n_writes = match ctx.engine.as_str() {
		"miri" => 40u64,
		"tsan" => 200_000,
		// many histories of moderate length rather than a few enormous ones: a round of 10^6 writes keeps a shard below
		// ~1 GB (twenty times that made sixteen shards exceed the machine's memory)
		_ => ctx.t(400_000u64, 1_000_000u64),
	};
	let rounds = if ctx.engine == "miri" { 1 } else if ctx.engine == "tsan" { 4 } else { ctx.t(4u64, 60u64) };
	for round in 0..rounds {
		if round >= 4 && !ctx.time_left(0.6) {
			break;
		}
		let seed = ctx.seed ^ (ctx.shard << 8) ^ round;
		let (mut w, mut r): (CommandWriter<Payload>, CommandReader<Payload>) = command_writer_and_reader();
		let clock = Arc::new(AtomicU64::new(0));
		let done = Arc::new(AtomicBool::new(false));
		let (c1, d1) = (clock.clone(), done.clone());
		let wt = std::thread::spawn(move || {
			let mut rng = Rng::new(seed);
			let mut evs: Vec<(u64, u64, u64)> = Vec::with_capacity(n_writes as usize); // (seq, start, done)
			for s in 1..=n_writes {
				let a = c1.fetch_add(1, Ordering::SeqCst);
				w.write(Payload::new(s));
				let b = c1.fetch_add(1, Ordering::SeqCst);
				evs.push((s, a, b));
				let spin = rng.below(8);
				for _ in 0..spin * spin {
					std::hint::spin_loop();
				}
			}
			d1.store(true, Ordering::SeqCst);
			evs
		});
		let mut rng = Rng::new(seed ^ 0x55);
		let mut reads: Vec<(u64, u64, Option<Payload>)> = Vec::new();
		loop {
			let finished = done.load(Ordering::SeqCst);
			let a = clock.fetch_add(1, Ordering::SeqCst);
			let v = r.read();
			let b = clock.fetch_add(1, Ordering::SeqCst);
			reads.push((a, b, v));
			if finished {
				break;
			}
			let spin = rng.below(12);
			for _ in 0..spin * spin {
				std::hint::spin_loop();
			}
			if reads.len() > 6_000_000 {
				break;
			}
		}
		let writes = wt.join().unwrap();
		// merge into one history ordered by the logical clock
		let mut evs: Vec<(u64, EvA)> = Vec::with_capacity(writes.len() * 2 + reads.len() * 2);
		for (s, a, b) in &writes {
			evs.push((*a, EvA::WStart(*s)));
			evs.push((*b, EvA::WDone(*s)));
		}
		for (a, b, v) in &reads {
			evs.push((*a, EvA::RStart));
			evs.push((*b, EvA::RDone(*v)));
		}
		evs.sort_by_key(|e| e.0);
		let h: Vec<EvA> = evs.into_iter().map(|e| e.1).collect();
		ctx.eval();
		if let Err(e) = check_history(&h, true, st) {
			ctx.violation("stress", round, &format!("free-running stress: {}", e), jobj! {"writes" => n_writes, "reads" => reads.len()});
		}
		ctx.count("stress_writes", n_writes);
		ctx.count("stress_reads", reads.len() as u64);
	}
}

// ------------------------------------------------------------------ Monitor B: every real command kind

#[derive(Default)]
pub struct Hs {
	pub st: Option<StaticSoundHandle>,
	pub dy: Option<StreamingSoundHandle<String>>,
	pub dec: Option<Arc<DecState>>,
	pub track: Option<TrackHandle>,
	pub sp: Option<SpatialTrackHandle>,
	pub send: Option<SendTrackHandle>,
	pub clock: Option<ClockHandle>,
	pub listener: Option<ListenerHandle>,
	pub lfo: Option<LfoHandle>,
	pub tweener: Option<TweenerHandle>,
	pub filter: Option<FilterHandle>,
	pub eq: Option<EqFilterHandle>,
	pub delay: Option<DelayHandle>,
	pub dist: Option<DistortionHandle>,
	pub reverb: Option<ReverbHandle>,
	pub comp: Option<CompressorHandle>,
	pub vol: Option<VolumeControlHandle>,
	pub pan: Option<PanningControlHandle>,
}

const SR: u32 = 8000;

fn inst() -> Tween {
	Tween { start_time: StartTime::Immediate, duration: Duration::ZERO, easing: Easing::Linear }
}

/// three distinct settings per kind: index 0 (initial), 1, 2
fn sv(i: usize, a: f64, b: f64, c: f64) -> f64 {
	[a, b, c][i]
}

pub struct Row {
	pub name: &'static str,
	/// builds the scene with setting `i` as the initial value of the commanded parameter
	pub build: fn(i: usize) -> (Rig, Hs),
	/// issues the command that moves the parameter to setting `i`
	pub cmd: fn(h: &mut Hs, i: usize),
	/// handle-visible observables (besides the audio level)
	pub obs: fn(h: &Hs) -> Vec<f64>,
	/// the command is a one-shot action (seek_by): applied exactly once
	pub one_shot: bool,
	/// state commands whose initial "setting" cannot be built directly: reference = command on a fresh scene
	pub ref_by_cmd: bool,
}

fn noise_static(rig: &mut Rig) -> StaticSoundHandle {
	let d = crate::probes::sound_from_frames(SR, crate::probes::noise_frames(77, 256, 0.2)).loop_region(..);
	rig.mgr.play(d).expect("play")
}

fn base_rig(main: MainTrackBuilder) -> Rig {
	Rig::new(RigConfig { sample_rate: SR, ibs: 64, channels: 2, ..Default::default() }, main)
}

fn no_obs(_h: &Hs) -> Vec<f64> {
	vec![]
}

macro_rules! fx_row {
	($name:expr, $field:ident, $builder:expr, $cmd:expr) => {
		Row {
			name: $name,
			build: |i| {
				let mut mb = MainTrackBuilder::new();
				let mut h = Hs::default();
				#[allow(clippy::redundant_closure_call)]
				let b = ($builder)(i);
				h.$field = Some(mb.add_effect(b));
				let mut rig = base_rig(mb);
				h.st = Some(noise_static(&mut rig));
				(rig, h)
			},
			cmd: |h, i| {
				#[allow(clippy::redundant_closure_call)]
				($cmd)(h.$field.as_mut().unwrap(), i)
			},
			obs: no_obs,
			one_shot: false,
			ref_by_cmd: false,
		}
	};
}

fn stream_scene(i_loop: Option<(usize, usize)>) -> (Rig, Hs) {
	let mut rig = base_rig(MainTrackBuilder::new());
	// noise with a period of 256 frames (= the measuring window) repeated over 6000 frames
	let period = crate::probes::noise_frames(5, 256, 0.2);
	let frames = Arc::new((0..6000).map(|i| period[i % 256]).collect::<Vec<_>>());
	let (dec, _o) = ScriptedDecoder::new(frames, DecoderScript { sample_rate: SR, packets: vec![256], ..Default::default() });
	let mut st = StreamingSoundSettings::new();
	st = match i_loop {
		Some((a, b)) => st.loop_region(kira::sound::Region { start: kira::sound::PlaybackPosition::Samples(a), end: kira::sound::EndPosition::Custom(kira::sound::PlaybackPosition::Samples(b)) }),
		None => st.loop_region(..),
	};
	let h = rig.mgr.play(StreamingSoundData::from_decoder(dec).with_settings(st)).expect("play streaming");
	let mut hs = Hs::default();
	hs.dec = crate::hooks::last_decoder();
	hs.dy = Some(h);
	(rig, hs)
}

fn spatial_scene(pos: f32, strength: f32, lpos: f32, lrot: f32) -> (Rig, Hs) {
	let mut rig = base_rig(MainTrackBuilder::new());
	let l = rig.mgr.add_listener(Vec3::new(lpos, 0.0, 0.0), Quat::from_rotation_y(lrot)).expect("listener");
	let mut t = rig.mgr.add_spatial_sub_track(&l, Vec3::new(pos, 0.0, 2.0), SpatialTrackBuilder::new().distances((1.0, 50.0)).spatialization_strength(strength)).expect("spatial");
	let d = crate::probes::sound_from_frames(SR, crate::probes::noise_frames(77, 256, 0.2)).loop_region(..);
	let s = t.play(d).expect("play");
	let mut h = Hs::default();
	h.listener = Some(l);
	h.sp = Some(t);
	h.st = Some(s);
	(rig, h)
}

fn lfo_scene(wave: usize, freq: f64, amp: f64, offset: f64) -> (Rig, Hs) {
	let mut rig = base_rig(MainTrackBuilder::new());
	let w = [Waveform::Sine, Waveform::Saw, Waveform::Pulse { width: 0.5 }][wave];
	let l = rig.mgr.add_modulator(LfoBuilder::new().waveform(w).frequency(freq).amplitude(amp).offset(offset)).expect("lfo");
	let d = crate::probes::dc_sound(SR, 64, 0.2).loop_region(..).volume(Value::FromModulator { id: l.id(), mapping: Mapping { input_range: (-2.0, 2.0), output_range: (Decibels(-30.0), Decibels(0.0)), easing: Easing::Linear } });
	let s = rig.mgr.play(d).expect("play");
	let mut h = Hs::default();
	h.lfo = Some(l);
	h.st = Some(s);
	(rig, h)
}

pub fn rows() -> Vec<Row> {
	let mut v: Vec<Row> = vec![];
	// ---- static sound (9)
	v.push(Row { name: "static.set_volume", build: |i| { let mut rig = base_rig(MainTrackBuilder::new()); let d = crate::probes::sound_from_frames(SR, crate::probes::noise_frames(77, 256, 0.2)).loop_region(..).volume(Decibels(sv(i, 0.0, -9.0, -21.0) as f32)); let s = rig.mgr.play(d).unwrap(); (rig, Hs { st: Some(s), ..Default::default() }) }, cmd: |h, i| h.st.as_mut().unwrap().set_volume(Decibels(sv(i, 0.0, -9.0, -21.0) as f32), inst()), obs: no_obs, one_shot: false, ref_by_cmd: false });
	v.push(Row { name: "static.set_panning", build: |i| { let mut rig = base_rig(MainTrackBuilder::new()); let d = crate::probes::sound_from_frames(SR, crate::probes::noise_frames(77, 256, 0.2)).loop_region(..).panning(Panning(sv(i, 0.0, -0.7, 0.9) as f32)); let s = rig.mgr.play(d).unwrap(); (rig, Hs { st: Some(s), ..Default::default() }) }, cmd: |h, i| h.st.as_mut().unwrap().set_panning(Panning(sv(i, 0.0, -0.7, 0.9) as f32), inst()), obs: no_obs, one_shot: false, ref_by_cmd: false });
	v.push(Row { name: "static.set_playback_rate", build: |i| { let mut rig = base_rig(MainTrackBuilder::new()); let d = crate::probes::coded_sound(SR, 4000, 1.0 / 8192.0).loop_region(..).playback_rate(PlaybackRate(sv(i, 1.0, 0.5, 2.0))); let s = rig.mgr.play(d).unwrap(); (rig, Hs { st: Some(s), ..Default::default() }) }, cmd: |h, i| h.st.as_mut().unwrap().set_playback_rate(PlaybackRate(sv(i, 1.0, 0.5, 2.0)), inst()), obs: |h| vec![h.st.as_ref().unwrap().position()], one_shot: false, ref_by_cmd: true });
	v.push(Row { name: "static.set_loop_region", build: |i| { let mut rig = base_rig(MainTrackBuilder::new()); let d = crate::probes::coded_sound(SR, 40000, 1.0 / 65536.0); let d = match i { 0 => d.loop_region(..), 1 => d.loop_region(0.0..0.05), _ => d.loop_region(0.0..0.11) }; let s = rig.mgr.play(d).unwrap(); (rig, Hs { st: Some(s), ..Default::default() }) }, cmd: |h, i| match i { 0 => h.st.as_mut().unwrap().set_loop_region(..), 1 => h.st.as_mut().unwrap().set_loop_region(0.0..0.05), _ => h.st.as_mut().unwrap().set_loop_region(0.0..0.11) }, obs: |h| vec![h.st.as_ref().unwrap().position()], one_shot: false, ref_by_cmd: false });
	v.push(Row { name: "static.pause", build: |_| { let mut rig = base_rig(MainTrackBuilder::new()); let s = noise_static(&mut rig); (rig, Hs { st: Some(s), ..Default::default() }) }, cmd: |h, i| if i > 0 { h.st.as_mut().unwrap().pause(inst()) }, obs: |h| vec![h.st.as_ref().unwrap().state() as u8 as f64], one_shot: false, ref_by_cmd: true });
	v.push(Row { name: "static.resume", build: |_| { let mut rig = base_rig(MainTrackBuilder::new()); let mut s = noise_static(&mut rig); s.pause(inst()); rig.callback(64); (rig, Hs { st: Some(s), ..Default::default() }) }, cmd: |h, i| if i > 0 { h.st.as_mut().unwrap().resume(inst()) }, obs: |h| vec![h.st.as_ref().unwrap().state() as u8 as f64], one_shot: false, ref_by_cmd: true });
	v.push(Row { name: "static.stop", build: |_| { let mut rig = base_rig(MainTrackBuilder::new()); let s = noise_static(&mut rig); (rig, Hs { st: Some(s), ..Default::default() }) }, cmd: |h, i| if i > 0 { h.st.as_mut().unwrap().stop(inst()) }, obs: |h| vec![h.st.as_ref().unwrap().state() as u8 as f64], one_shot: false, ref_by_cmd: true });
	v.push(Row { name: "static.seek_to", build: |_| { let mut rig = base_rig(MainTrackBuilder::new()); let d = crate::probes::coded_sound(SR, 40000, 1.0 / 65536.0); let s = rig.mgr.play(d).unwrap(); (rig, Hs { st: Some(s), ..Default::default() }) }, cmd: |h, i| if i > 0 { h.st.as_mut().unwrap().seek_to(sv(i, 0.0, 1.0, 2.5)) }, obs: |h| vec![h.st.as_ref().unwrap().position()], one_shot: true, ref_by_cmd: true });
	v.push(Row { name: "static.seek_by", build: |_| { let mut rig = base_rig(MainTrackBuilder::new()); let d = crate::probes::coded_sound(SR, 40000, 1.0 / 65536.0); let s = rig.mgr.play(d).unwrap(); (rig, Hs { st: Some(s), ..Default::default() }) }, cmd: |h, i| if i > 0 { h.st.as_mut().unwrap().seek_by(sv(i, 0.0, 1.0, 2.5)) }, obs: |h| vec![h.st.as_ref().unwrap().position()], one_shot: true, ref_by_cmd: true });
	// ---- streaming sound (9): three of them are read by the decoder thread
	v.push(Row { name: "streaming.set_volume", build: |_| stream_scene(None), cmd: |h, i| h.dy.as_mut().unwrap().set_volume(Decibels(sv(i, 0.0, -9.0, -21.0) as f32), inst()), obs: no_obs, one_shot: false, ref_by_cmd: true });
	v.push(Row { name: "streaming.set_panning", build: |_| stream_scene(None), cmd: |h, i| h.dy.as_mut().unwrap().set_panning(Panning(sv(i, 0.0, -0.7, 0.9) as f32), inst()), obs: no_obs, one_shot: false, ref_by_cmd: true });
	v.push(Row { name: "streaming.set_playback_rate", build: |_| stream_scene(None), cmd: |h, i| h.dy.as_mut().unwrap().set_playback_rate(PlaybackRate(sv(i, 1.0, 0.5, 2.0)), inst()), obs: |h| vec![h.dy.as_ref().unwrap().position()], one_shot: false, ref_by_cmd: true });
	v.push(Row { name: "streaming.pause", build: |_| stream_scene(None), cmd: |h, i| if i > 0 { h.dy.as_mut().unwrap().pause(inst()) }, obs: |h| vec![h.dy.as_ref().unwrap().state() as u8 as f64], one_shot: false, ref_by_cmd: true });
	v.push(Row { name: "streaming.resume", build: |_| { let (mut rig, mut h) = stream_scene(None); h.dy.as_mut().unwrap().pause(inst()); rig.callback(64); (rig, h) }, cmd: |h, i| if i > 0 { h.dy.as_mut().unwrap().resume(inst()) }, obs: |h| vec![h.dy.as_ref().unwrap().state() as u8 as f64], one_shot: false, ref_by_cmd: true });
	v.push(Row { name: "streaming.stop", build: |_| stream_scene(None), cmd: |h, i| if i > 0 { h.dy.as_mut().unwrap().stop(inst()) }, obs: |h| vec![h.dy.as_ref().unwrap().state() as u8 as f64], one_shot: false, ref_by_cmd: true });
	v.push(Row { name: "streaming.seek_to(decoder)", build: |_| stream_scene(None), cmd: |h, i| if i > 0 { h.dy.as_mut().unwrap().seek_to(sv(i, 0.0, 0.2, 0.5)) }, obs: |h| vec![(h.dy.as_ref().unwrap().position() * 20.0).round()], one_shot: true, ref_by_cmd: true });
	v.push(Row { name: "streaming.seek_by(decoder)", build: |_| stream_scene(None), cmd: |h, i| if i > 0 { h.dy.as_mut().unwrap().seek_by(sv(i, 0.0, 0.2, 0.5)) }, obs: |h| vec![(h.dy.as_ref().unwrap().position() * 20.0).round()], one_shot: true, ref_by_cmd: true });
	v.push(Row { name: "streaming.set_loop_region(decoder)", build: |_| stream_scene(Some((0, 6000))), cmd: |h, i| match i { 0 => h.dy.as_mut().unwrap().set_loop_region(..), 1 => h.dy.as_mut().unwrap().set_loop_region(0.0..0.05), _ => h.dy.as_mut().unwrap().set_loop_region(0.0..0.11) }, obs: |h| vec![if h.dy.as_ref().unwrap().position() < 0.12 { 1.0 } else { 0.0 }, if h.dy.as_ref().unwrap().position() < 0.06 { 1.0 } else { 0.0 }], one_shot: false, ref_by_cmd: true });
	// ---- sub track (volume, pause, resume, send route) and spatial track (position, strength)
	v.push(Row { name: "track.set_volume", build: |i| { let mut rig = base_rig(MainTrackBuilder::new()); let mut t = rig.mgr.add_sub_track(TrackBuilder::new().volume(Decibels(sv(i, 0.0, -9.0, -21.0) as f32))).unwrap(); let d = crate::probes::sound_from_frames(SR, crate::probes::noise_frames(77, 256, 0.2)).loop_region(..); let s = t.play(d).unwrap(); (rig, Hs { st: Some(s), track: Some(t), ..Default::default() }) }, cmd: |h, i| h.track.as_mut().unwrap().set_volume(Decibels(sv(i, 0.0, -9.0, -21.0) as f32), inst()), obs: no_obs, one_shot: false, ref_by_cmd: false });
	v.push(Row { name: "track.pause", build: |_| { let mut rig = base_rig(MainTrackBuilder::new()); let mut t = rig.mgr.add_sub_track(TrackBuilder::new()).unwrap(); let d = crate::probes::sound_from_frames(SR, crate::probes::noise_frames(77, 256, 0.2)).loop_region(..); let s = t.play(d).unwrap(); (rig, Hs { st: Some(s), track: Some(t), ..Default::default() }) }, cmd: |h, i| if i > 0 { h.track.as_mut().unwrap().pause(inst()) }, obs: |h| vec![h.track.as_ref().unwrap().state() as u8 as f64], one_shot: false, ref_by_cmd: true });
	v.push(Row { name: "track.resume", build: |_| { let mut rig = base_rig(MainTrackBuilder::new()); let mut t = rig.mgr.add_sub_track(TrackBuilder::new()).unwrap(); let d = crate::probes::sound_from_frames(SR, crate::probes::noise_frames(77, 256, 0.2)).loop_region(..); let s = t.play(d).unwrap(); t.pause(inst()); rig.callback(64); (rig, Hs { st: Some(s), track: Some(t), ..Default::default() }) }, cmd: |h, i| if i > 0 { h.track.as_mut().unwrap().resume(inst()) }, obs: |h| vec![h.track.as_ref().unwrap().state() as u8 as f64], one_shot: false, ref_by_cmd: true });
	v.push(Row { name: "track.set_send", build: |i| { let mut rig = base_rig(MainTrackBuilder::new()); let send = rig.mgr.add_send_track(SendTrackBuilder::new()).unwrap(); let mut t = rig.mgr.add_sub_track(TrackBuilder::new().with_send(&send, Decibels(sv(i, 0.0, -9.0, -21.0) as f32))).unwrap(); let d = crate::probes::sound_from_frames(SR, crate::probes::noise_frames(77, 256, 0.2)).loop_region(..); let s = t.play(d).unwrap(); (rig, Hs { st: Some(s), track: Some(t), send: Some(send), ..Default::default() }) }, cmd: |h, i| { let id = h.send.as_ref().unwrap().id(); h.track.as_mut().unwrap().set_send(id, Decibels(sv(i, 0.0, -9.0, -21.0) as f32), inst()).unwrap() }, obs: no_obs, one_shot: false, ref_by_cmd: false });
	v.push(Row { name: "send.set_volume", build: |i| { let mut rig = base_rig(MainTrackBuilder::new()); let send = rig.mgr.add_send_track(SendTrackBuilder::new().volume(Decibels(sv(i, 0.0, -9.0, -21.0) as f32))).unwrap(); let mut t = rig.mgr.add_sub_track(TrackBuilder::new().with_send(&send, Decibels(0.0))).unwrap(); let d = crate::probes::sound_from_frames(SR, crate::probes::noise_frames(77, 256, 0.2)).loop_region(..); let s = t.play(d).unwrap(); (rig, Hs { st: Some(s), track: Some(t), send: Some(send), ..Default::default() }) }, cmd: |h, i| h.send.as_mut().unwrap().set_volume(Decibels(sv(i, 0.0, -9.0, -21.0) as f32), inst()), obs: no_obs, one_shot: false, ref_by_cmd: false });
	v.push(Row { name: "main.set_volume", build: |i| { let mut rig = base_rig(MainTrackBuilder::new().volume(Decibels(sv(i, 0.0, -9.0, -21.0) as f32))); let s = noise_static(&mut rig); (rig, Hs { st: Some(s), ..Default::default() }) }, cmd: |_h, _i| {}, obs: no_obs, one_shot: false, ref_by_cmd: false });
	v.push(Row { name: "spatial.set_position", build: |i| spatial_scene(sv(i, 0.0, 6.0, -11.0) as f32, 0.8, 0.0, 0.0), cmd: |h, i| h.sp.as_mut().unwrap().set_position(Vec3::new(sv(i, 0.0, 6.0, -11.0) as f32, 0.0, 2.0), inst()), obs: no_obs, one_shot: false, ref_by_cmd: false });
	v.push(Row { name: "spatial.set_spatialization_strength", build: |i| spatial_scene(5.0, sv(i, 0.8, 0.1, 0.45) as f32, 0.0, 0.0), cmd: |h, i| h.sp.as_mut().unwrap().set_spatialization_strength(sv(i, 0.8, 0.1, 0.45) as f32, inst()), obs: no_obs, one_shot: false, ref_by_cmd: false });
	v.push(Row { name: "spatial.set_volume", build: |_| spatial_scene(5.0, 0.8, 0.0, 0.0), cmd: |h, i| h.sp.as_mut().unwrap().set_volume(Decibels(sv(i, 0.0, -9.0, -21.0) as f32), inst()), obs: no_obs, one_shot: false, ref_by_cmd: true });
	v.push(Row { name: "spatial.pause", build: |_| spatial_scene(5.0, 0.8, 0.0, 0.0), cmd: |h, i| if i > 0 { h.sp.as_mut().unwrap().pause(inst()) }, obs: |h| vec![h.sp.as_ref().unwrap().state() as u8 as f64], one_shot: false, ref_by_cmd: true });
	v.push(Row { name: "spatial.resume", build: |_| { let (mut rig, mut h) = spatial_scene(5.0, 0.8, 0.0, 0.0); h.sp.as_mut().unwrap().pause(inst()); rig.callback(64); (rig, h) }, cmd: |h, i| if i > 0 { h.sp.as_mut().unwrap().resume(inst()) }, obs: |h| vec![h.sp.as_ref().unwrap().state() as u8 as f64], one_shot: false, ref_by_cmd: true });
	// ---- listener (2)
	v.push(Row { name: "listener.set_position", build: |i| spatial_scene(5.0, 0.8, sv(i, 0.0, 4.0, -9.0) as f32, 0.0), cmd: |h, i| h.listener.as_mut().unwrap().set_position(Vec3::new(sv(i, 0.0, 4.0, -9.0) as f32, 0.0, 0.0), inst()), obs: no_obs, one_shot: false, ref_by_cmd: false });
	v.push(Row { name: "listener.set_orientation", build: |i| spatial_scene(5.0, 0.8, 0.0, sv(i, 0.0, 1.0, -2.0) as f32), cmd: |h, i| h.listener.as_mut().unwrap().set_orientation(Quat::from_rotation_y(sv(i, 0.0, 1.0, -2.0) as f32), inst()), obs: no_obs, one_shot: false, ref_by_cmd: false });
	// ---- clock (3)
	v.push(Row { name: "clock.set_speed", build: |i| { let mut rig = base_rig(MainTrackBuilder::new()); let mut c = rig.mgr.add_clock(ClockSpeed::TicksPerSecond(sv(i, 10.0, 40.0, 160.0))).unwrap(); c.start(); (rig, Hs { clock: Some(c), ..Default::default() }) }, cmd: |h, i| h.clock.as_mut().unwrap().set_speed(ClockSpeed::TicksPerSecond(sv(i, 10.0, 40.0, 160.0)), inst()), obs: |h| { let t = h.clock.as_ref().unwrap().time(); vec![t.ticks as f64 + t.fraction] }, one_shot: false, ref_by_cmd: true });
	v.push(Row { name: "clock.set_ticking(start/pause)", build: |_| { let mut rig = base_rig(MainTrackBuilder::new()); let c = rig.mgr.add_clock(ClockSpeed::TicksPerSecond(50.0)).unwrap(); (rig, Hs { clock: Some(c), ..Default::default() }) }, cmd: |h, i| match i { 0 => {} 1 => h.clock.as_mut().unwrap().start(), _ => { h.clock.as_mut().unwrap().start(); h.clock.as_mut().unwrap().pause() } }, obs: |h| { let t = h.clock.as_ref().unwrap().time(); vec![t.ticks as f64 + t.fraction, h.clock.as_ref().unwrap().ticking() as u8 as f64] }, one_shot: false, ref_by_cmd: true });
	v.push(Row { name: "clock.reset(stop)", build: |_| { let mut rig = base_rig(MainTrackBuilder::new()); let mut c = rig.mgr.add_clock(ClockSpeed::TicksPerSecond(50.0)).unwrap(); c.start(); rig.callback(640); (rig, Hs { clock: Some(c), ..Default::default() }) }, cmd: |h, i| if i > 0 { h.clock.as_mut().unwrap().stop() }, obs: |h| { let t = h.clock.as_ref().unwrap().time(); vec![t.ticks as f64 + t.fraction] }, one_shot: false, ref_by_cmd: true });
	// ---- modulators: LFO (5) + tweener (1)
	v.push(Row { name: "lfo.set_waveform", build: |i| lfo_scene(i, 3.0, 1.5, 0.0), cmd: |h, i| h.lfo.as_mut().unwrap().set_waveform([Waveform::Sine, Waveform::Saw, Waveform::Pulse { width: 0.5 }][i]), obs: no_obs, one_shot: false, ref_by_cmd: true });
	v.push(Row { name: "lfo.set_frequency", build: |i| lfo_scene(0, sv(i, 0.0, 0.0, 0.0), 1.5, 0.0), cmd: |h, i| h.lfo.as_mut().unwrap().set_frequency(sv(i, 0.0, 1.0, 4.0), inst()), obs: no_obs, one_shot: false, ref_by_cmd: true });
	v.push(Row { name: "lfo.set_amplitude", build: |i| lfo_scene(2, 0.0, sv(i, 1.5, 0.3, 0.9), 0.0), cmd: |h, i| h.lfo.as_mut().unwrap().set_amplitude(sv(i, 1.5, 0.3, 0.9), inst()), obs: no_obs, one_shot: false, ref_by_cmd: false });
	v.push(Row { name: "lfo.set_offset", build: |i| lfo_scene(2, 0.0, 0.2, sv(i, 0.0, -1.0, 1.0)), cmd: |h, i| h.lfo.as_mut().unwrap().set_offset(sv(i, 0.0, -1.0, 1.0), inst()), obs: no_obs, one_shot: false, ref_by_cmd: false });
	v.push(Row { name: "lfo.set_phase", build: |_| lfo_scene(0, 0.0, 1.5, 0.0), cmd: |h, i| if i > 0 { h.lfo.as_mut().unwrap().set_phase(sv(i, 0.0, 1.0, 4.0)) }, obs: no_obs, one_shot: false, ref_by_cmd: true });
	v.push(Row { name: "tweener.set", build: |i| { let mut rig = base_rig(MainTrackBuilder::new()); let t = rig.mgr.add_modulator(TweenerBuilder { initial_value: sv(i, 0.0, -1.0, 1.5) }).unwrap(); let d = crate::probes::dc_sound(SR, 64, 0.2).loop_region(..).volume(Value::FromModulator { id: t.id(), mapping: Mapping { input_range: (-2.0, 2.0), output_range: (Decibels(-30.0), Decibels(0.0)), easing: Easing::Linear } }); let s = rig.mgr.play(d).unwrap(); (rig, Hs { st: Some(s), tweener: Some(t), ..Default::default() }) }, cmd: |h, i| h.tweener.as_mut().unwrap().set(sv(i, 0.0, -1.0, 1.5), inst()), obs: no_obs, one_shot: false, ref_by_cmd: false });
	// ---- effects
	v.push(fx_row!("filter.set_mode", filter, |i: usize| FilterBuilder::new().cutoff(400.0).mode([FilterMode::LowPass, FilterMode::HighPass, FilterMode::BandPass][i]), |h: &mut FilterHandle, i: usize| h.set_mode([FilterMode::LowPass, FilterMode::HighPass, FilterMode::BandPass][i])));
	v.push(fx_row!("filter.set_cutoff", filter, |i: usize| FilterBuilder::new().cutoff(sv(i, 2000.0, 300.0, 900.0)), |h: &mut FilterHandle, i: usize| h.set_cutoff(sv(i, 2000.0, 300.0, 900.0), inst())));
	v.push(fx_row!("filter.set_resonance", filter, |i: usize| FilterBuilder::new().cutoff(500.0).resonance(sv(i, 0.0, 0.5, 0.85)), |h: &mut FilterHandle, i: usize| h.set_resonance(sv(i, 0.0, 0.5, 0.85), inst())));
	v.push(fx_row!("filter.set_mix", filter, |i: usize| FilterBuilder::new().cutoff(300.0).mix(Mix(sv(i, 1.0, 0.3, 0.65) as f32)), |h: &mut FilterHandle, i: usize| h.set_mix(Mix(sv(i, 1.0, 0.3, 0.65) as f32), inst())));
	v.push(fx_row!("eq.set_kind", eq, |i: usize| EqFilterBuilder::new([EqFilterKind::Bell, EqFilterKind::LowShelf, EqFilterKind::HighShelf][i], 800.0, Decibels(12.0), 1.0), |h: &mut EqFilterHandle, i: usize| h.set_kind([EqFilterKind::Bell, EqFilterKind::LowShelf, EqFilterKind::HighShelf][i])));
	v.push(fx_row!("eq.set_frequency", eq, |i: usize| EqFilterBuilder::new(EqFilterKind::LowShelf, sv(i, 3000.0, 200.0, 900.0), Decibels(12.0), 1.0), |h: &mut EqFilterHandle, i: usize| h.set_frequency(sv(i, 3000.0, 200.0, 900.0), inst())));
	v.push(fx_row!("eq.set_gain", eq, |i: usize| EqFilterBuilder::new(EqFilterKind::Bell, 800.0, Decibels(sv(i, 0.0, 12.0, -12.0) as f32), 0.5), |h: &mut EqFilterHandle, i: usize| h.set_gain(Decibels(sv(i, 0.0, 12.0, -12.0) as f32), inst())));
	v.push(fx_row!("eq.set_q", eq, |i: usize| EqFilterBuilder::new(EqFilterKind::Bell, 800.0, Decibels(15.0), sv(i, 0.3, 2.0, 8.0)), |h: &mut EqFilterHandle, i: usize| h.set_q(sv(i, 0.3, 2.0, 8.0), inst())));
	v.push(fx_row!("delay.set_feedback", delay, |i: usize| DelayBuilder::new().delay_time(Duration::from_millis(5)).mix(Mix(1.0)).feedback(Decibels(sv(i, -40.0, -3.0, -10.0) as f32)), |h: &mut DelayHandle, i: usize| h.set_feedback(Decibels(sv(i, -40.0, -3.0, -10.0) as f32), inst())));
	v.push(fx_row!("delay.set_mix", delay, |i: usize| DelayBuilder::new().delay_time(Duration::from_millis(5)).feedback(Decibels(-20.0)).mix(Mix(sv(i, 0.0, 0.9, 0.4) as f32)), |h: &mut DelayHandle, i: usize| h.set_mix(Mix(sv(i, 0.0, 0.9, 0.4) as f32), inst())));
	v.push(fx_row!("distortion.set_kind", dist, |i: usize| DistortionBuilder::new().drive(Decibels(30.0)).kind([DistortionKind::HardClip, DistortionKind::SoftClip, DistortionKind::HardClip][i]), |h: &mut DistortionHandle, i: usize| h.set_kind([DistortionKind::HardClip, DistortionKind::SoftClip, DistortionKind::HardClip][i])));
	v.push(fx_row!("distortion.set_drive", dist, |i: usize| DistortionBuilder::new().drive(Decibels(sv(i, 0.0, 20.0, 35.0) as f32)), |h: &mut DistortionHandle, i: usize| h.set_drive(Decibels(sv(i, 0.0, 20.0, 35.0) as f32), inst())));
	v.push(fx_row!("distortion.set_mix", dist, |i: usize| DistortionBuilder::new().drive(Decibels(35.0)).mix(Mix(sv(i, 1.0, 0.2, 0.6) as f32)), |h: &mut DistortionHandle, i: usize| h.set_mix(Mix(sv(i, 1.0, 0.2, 0.6) as f32), inst())));
	v.push(fx_row!("reverb.set_feedback", reverb, |i: usize| ReverbBuilder::new().mix(Mix(1.0)).feedback(sv(i, 0.1, 0.7, 0.4)), |h: &mut ReverbHandle, i: usize| h.set_feedback(sv(i, 0.1, 0.7, 0.4), inst())));
	v.push(fx_row!("reverb.set_damping", reverb, |i: usize| ReverbBuilder::new().mix(Mix(1.0)).feedback(0.6).damping(sv(i, 0.0, 0.9, 0.5)), |h: &mut ReverbHandle, i: usize| h.set_damping(sv(i, 0.0, 0.9, 0.5), inst())));
	v.push(fx_row!("reverb.set_stereo_width", reverb, |i: usize| ReverbBuilder::new().mix(Mix(1.0)).feedback(0.3).stereo_width(sv(i, 1.0, 0.0, 0.5)), |h: &mut ReverbHandle, i: usize| h.set_stereo_width(sv(i, 1.0, 0.0, 0.5), inst())));
	v.push(fx_row!("reverb.set_mix", reverb, |i: usize| ReverbBuilder::new().feedback(0.3).mix(Mix(sv(i, 0.0, 1.0, 0.5) as f32)), |h: &mut ReverbHandle, i: usize| h.set_mix(Mix(sv(i, 0.0, 1.0, 0.5) as f32), inst())));
	v.push(fx_row!("compressor.set_threshold", comp, |i: usize| CompressorBuilder::new().ratio(8.0).threshold(sv(i, 0.0, -30.0, -45.0)), |h: &mut CompressorHandle, i: usize| h.set_threshold(sv(i, 0.0, -30.0, -45.0), inst())));
	v.push(fx_row!("compressor.set_ratio", comp, |i: usize| CompressorBuilder::new().threshold(-40.0).ratio(sv(i, 1.0, 4.0, 20.0)), |h: &mut CompressorHandle, i: usize| h.set_ratio(sv(i, 1.0, 4.0, 20.0), inst())));
	v.push(fx_row!("compressor.set_attack_duration", comp, |i: usize| CompressorBuilder::new().threshold(-40.0).ratio(10.0).release_duration(Duration::from_micros(200)).attack_duration(Duration::from_secs_f64(sv(i, 0.0001, 0.02, 0.3))), |h: &mut CompressorHandle, i: usize| h.set_attack_duration(Duration::from_secs_f64(sv(i, 0.0001, 0.02, 0.3)), inst())));
	v.push(fx_row!("compressor.set_release_duration", comp, |i: usize| CompressorBuilder::new().threshold(-40.0).ratio(10.0).attack_duration(Duration::from_micros(200)).release_duration(Duration::from_secs_f64(sv(i, 0.0001, 0.02, 0.3))), |h: &mut CompressorHandle, i: usize| h.set_release_duration(Duration::from_secs_f64(sv(i, 0.0001, 0.02, 0.3)), inst())));
	v.push(fx_row!("compressor.set_makeup_gain", comp, |i: usize| CompressorBuilder::new().makeup_gain(Decibels(sv(i, 0.0, 6.0, -9.0) as f32)), |h: &mut CompressorHandle, i: usize| h.set_makeup_gain(Decibels(sv(i, 0.0, 6.0, -9.0) as f32), inst())));
	v.push(fx_row!("compressor.set_mix", comp, |i: usize| CompressorBuilder::new().threshold(-40.0).ratio(20.0).mix(Mix(sv(i, 1.0, 0.0, 0.5) as f32)), |h: &mut CompressorHandle, i: usize| h.set_mix(Mix(sv(i, 1.0, 0.0, 0.5) as f32), inst())));
	v.push(fx_row!("volume_control.set_volume", vol, |i: usize| VolumeControlBuilder::new(Decibels(sv(i, 0.0, -9.0, -21.0) as f32)), |h: &mut VolumeControlHandle, i: usize| h.set_volume(Decibels(sv(i, 0.0, -9.0, -21.0) as f32), inst())));
	v.push(fx_row!("panning_control.set_panning", pan, |i: usize| PanningControlBuilder(Value::Fixed(Panning(sv(i, 0.0, -0.7, 0.9) as f32))), |h: &mut PanningControlHandle, i: usize| h.set_panning(Panning(sv(i, 0.0, -0.7, 0.9) as f32), inst())));
	v
}

/// renders `n` callbacks of 512 frames; returns [rmsL, rmsR] of the last one plus handle observables
fn observe(rig: &mut Rig, h: &Hs, row: &Row, n: usize) -> Vec<f64> {
	// commands read by the decoder act on what it decodes next; up to 16384 frames decoded earlier are heard first
	let n = if row.name.contains("(decoder)") { n * 12 } else { n };
	let mut last = vec![];
	for _ in 0..n {
		if let Some(d) = &h.dec {
			let _ = d.wait_ahead(Duration::from_millis(300));
		}
		last = rig.callback(512).to_vec();
	}
	rig.sync();
	let (mut sl, mut sr_) = (0.0f64, 0.0f64);
	let tail = &last[last.len() / 2..];
	for f in tail.chunks(2) {
		sl += (f[0] as f64).powi(2);
		sr_ += (f[1] as f64).powi(2);
	}
	let n2 = (tail.len() / 2) as f64;
	let mut o = vec![(sl / n2).sqrt(), (sr_ / n2).sqrt()];
	o.extend((row.obs)(h));
	o
}

fn close_tol(a: &[f64], b: &[f64], rel: f64) -> bool {
	a.len() == b.len() && a.iter().zip(b).all(|(x, y)| (x - y).abs() <= rel * x.abs().max(y.abs()) + 1e-6)
}

fn teardown(rig: &mut Rig, h: &mut Hs) {
	if let Some(d) = h.dy.as_mut() {
		d.stop(inst());
		rig.callback(64);
		rig.callback(64);
	}
	crate::hooks::release_all();
}

/// The main-track volume command needs the manager, so that row is special-cased here.
fn issue(rig: &mut Rig, h: &mut Hs, row: &Row, i: usize) {
	if row.name == "main.set_volume" {
		rig.mgr.main_track().set_volume(Decibels(sv(i, 0.0, -9.0, -21.0) as f32), inst());
	} else {
		(row.cmd)(h, i);
	}
}

fn monitor_b(ctx: &mut Ctx) -> (u64, u64) {
	let rows = rows();
	let total = rows.len() as u64;
	let mut covered = 0u64;
	for (ri, row) in rows.iter().enumerate() {
		if !ctx.owns("b", ri as u64) {
			continue;
		}
		ctx.eval();
		crate::monitors::set_current(ctx, "b", ri as u64, row.name, false);
		let res = super::guarded(|| -> Result<(), String> {
			// effects with long memory (reverb tails, delay lines) remember the audio processed under the previous
			// setting for a while: their levels are compared with 3 % slack (the settings differ by far more)
			let rel = if row.name.starts_with("reverb") || row.name.starts_with("delay") || row.name.starts_with("compressor") { 3e-2 } else { 2e-3 };
			let close = |a: &[f64], b: &[f64]| close_tol(a, b, rel);
			// observables that depend on when the command was issued (positions, clock times, LFO phase)
			let time_valued = ["seek", "rate", "speed", "ticking", "lfo.set_frequency", "lfo.set_phase", "lfo.set_waveform"].iter().any(|k| row.name.contains(k));
			// reference observables for settings 1 and 2
			let reference = |i: usize| -> Vec<f64> {
				let (mut rig, mut h) = if row.ref_by_cmd { (row.build)(0) } else { (row.build)(i) };
				rig.watch_alloc = false;
				if row.ref_by_cmd {
					observe(&mut rig, &h, row, 2);
					issue(&mut rig, &mut h, row, i);
				} else {
					observe(&mut rig, &h, row, 2);
				}
				let o = observe(&mut rig, &h, row, 3);
				teardown(&mut rig, &mut h);
				o
			};
			let (r0, r1, r2) = (reference(0), reference(1), reference(2));
			if close(&r1, &r2) && close(&r0, &r1) {
				return Err(format!("harness: settings of row {} are not distinguishable ({:?} {:?} {:?})", row.name, r0, r1, r2));
			}
			// (1) issued once between two callbacks: takes effect (begins at the next callback)
			{
				let (mut rig, mut h) = (row.build)(0);
				rig.watch_alloc = false;
				observe(&mut rig, &h, row, 2);
				issue(&mut rig, &mut h, row, 1);
				let o = observe(&mut rig, &h, row, 3);
				teardown(&mut rig, &mut h);
				if !close(&o, &r1) {
					return Err(format!("{}: command issued once did not take effect as expected: observed {:?}, reference scene with that setting {:?} (unchanged setting gives {:?})", row.name, o, r1, r0));
				}
			}
			// (1') promptness: the effect is in place within the very next callback (not one callback late),
			//      both for a running resource and for a command written before the resource's first callback
			let prompt = ["static.set_volume", "static.set_panning", "static.pause", "static.stop", "track.set_volume", "track.pause", "main.set_volume", "send.set_volume", "track.set_send", "spatial.set_volume", "spatial.pause", "spatial.set_position", "spatial.set_spatialization_strength", "listener.", "volume_control", "panning_control", "distortion.", "tweener.set", "lfo.set_amplitude", "lfo.set_offset", "streaming.set_volume", "streaming.set_panning", "streaming.pause", "streaming.stop"]
				.iter()
				.any(|k| row.name.starts_with(k));
			if prompt {
				for warm in [2usize, 0] {
					let (mut rig, mut h) = (row.build)(0);
					rig.watch_alloc = false;
					if warm > 0 {
						observe(&mut rig, &h, row, warm);
					}
					issue(&mut rig, &mut h, row, 1);
					let o = observe(&mut rig, &h, row, 1);
					teardown(&mut rig, &mut h);
					if !close(&o, &r1) {
						return Err(format!(
							"{}: command {} is not in effect within the next callback: observed {:?}, expected {:?} (unchanged setting gives {:?}) — applied late",
							row.name,
							if warm > 0 { "issued between two callbacks" } else { "issued before the resource's first callback" },
							o, r1, r0
						));
					}
				}
			}
			// (2) burst of two commands of the same kind between two callbacks: only the last is applied
			if !row.ref_by_cmd || !row.one_shot {
				let (mut rig, mut h) = (row.build)(0);
				rig.watch_alloc = false;
				observe(&mut rig, &h, row, 2);
				issue(&mut rig, &mut h, row, 1);
				issue(&mut rig, &mut h, row, 2);
				let o = observe(&mut rig, &h, row, 3);
				teardown(&mut rig, &mut h);
				// for state commands the reference of "2" is obtained the same way (command 2 alone)
				if !close(&o, &r2) && !(row.name.contains("set_ticking")) {
					return Err(format!("{}: burst of two commands between two callbacks: observed {:?}, expected only the last one to apply {:?} (first alone gives {:?})", row.name, o, r2, r1));
				}
			}
			// (3) one-shot actions are applied exactly once (not again on later callbacks)
			if row.one_shot {
				let (mut rig, mut h) = (row.build)(0);
				rig.watch_alloc = false;
				observe(&mut rig, &h, row, 2);
				issue(&mut rig, &mut h, row, 1);
				let o1 = observe(&mut rig, &h, row, 3);
				let o2 = observe(&mut rig, &h, row, 3);
				let base = {
					let (mut rig0, mut h0) = (row.build)(0);
					rig0.watch_alloc = false;
					observe(&mut rig0, &h0, row, 5);
					let a = observe(&mut rig0, &h0, row, 3);
					let b = observe(&mut rig0, &h0, row, 3);
					teardown(&mut rig0, &mut h0);
					b.last().copied().unwrap_or(0.0) - a.last().copied().unwrap_or(0.0)
				};
				teardown(&mut rig, &mut h);
				// between the two observations the position must advance like an undisturbed sound (no second jump)
				let adv = o2.last().copied().unwrap_or(0.0) - o1.last().copied().unwrap_or(0.0);
				if (adv - base).abs() > 0.02 + 0.05 * base.abs() {
					return Err(format!("{}: one-shot command applied more than once: position advanced by {} between later callbacks, an undisturbed sound advances by {}", row.name, adv, base));
				}
			}
			// (4) issued before the resource's first callback: not lost
			{
				let (mut rig, mut h) = (row.build)(0);
				rig.watch_alloc = false;
				if !row.name.contains("resume") && !row.name.contains("reset") {
					issue(&mut rig, &mut h, row, 1);
					observe(&mut rig, &h, row, 2);
					let o = observe(&mut rig, &h, row, 3);
					if time_valued {
						// position/time-valued observables differ by the earlier issue time: only require that the
						// command was not lost (observable differs from the uncommanded scene)
						if close(&o, &r0) {
							teardown(&mut rig, &mut h);
							return Err(format!("{}: command written before the resource's first callback was lost: observed {:?} == uncommanded {:?}", row.name, o, r0));
						}
					} else if !close(&o, &r1) {
						teardown(&mut rig, &mut h);
						return Err(format!("{}: command written before the resource's first callback: observed {:?}, expected {:?}", row.name, o, r1));
					}
				}
				teardown(&mut rig, &mut h);
			}
			Ok(())
		});
		crate::monitors::clear_current();
		match res {
			Ok(Ok(())) => {
				covered += 1;
				ctx.distinct_str(&format!("B:{}", row.name));
			}
			Ok(Err(e)) => {
				if e.starts_with("harness:") {
					eprintln!("HARNESS-ERROR: {}", e);
					ctx.note(&e);
				} else {
					ctx.violation("b", ri as u64, &e, jobj! {"command_kind" => row.name});
				}
			}
			Err(p) => ctx.violation("b", ri as u64, &format!("{}: panic {}", row.name, p.first().map(|p| p.sig()).unwrap_or_default()), jobj! {"command_kind" => row.name}),
		}
	}
	(covered, total)
}

/// Pairs of different kinds / different resources issued in the same interval: both are applied.
/// counts `on_start_processing` calls (the moment at which an effect, like every resource, takes its pending commands)
struct StartCounter(Arc<AtomicU64>);
impl kira::effect::Effect for StartCounter {
	fn on_start_processing(&mut self) {
		self.0.fetch_add(1, Ordering::SeqCst);
	}
	fn process(&mut self, _input: &mut [Frame], _dt: f64, _info: &kira::info::Info) {}
}
struct StartCounterBuilder(Arc<AtomicU64>);
impl kira::effect::EffectBuilder for StartCounterBuilder {
	type Handle = ();
	fn build(self) -> (Box<dyn kira::effect::Effect>, ()) {
		(Box::new(StartCounter(self.0)), ())
	}
}

fn monitor_pairs(ctx: &mut Ctx) {
	let n = ctx.t(240u64, 4800u64);
	for i in 0..n {
		if !ctx.owns("pair", i) {
			continue;
		}
		let mut r = Rng::for_case(ctx.seed, 703, i);
		ctx.eval();
		let res = super::guarded(|| -> Result<(), String> {
			let mut rig = base_rig(MainTrackBuilder::new());
			rig.watch_alloc = false;
			let mut a = rig.mgr.play(crate::probes::dc_sound(SR, 64, 0.1).loop_region(..).panning(Panning(-1.0))).map_err(|_| "play")?;
			let mut b = rig.mgr.play(crate::probes::dc_sound(SR, 64, 0.1).loop_region(..).panning(Panning(1.0))).map_err(|_| "play")?;
			rig.callback(256);
			let (va, vb) = (r.f32_in(-20.0, 0.0), r.f32_in(-20.0, 0.0));
			// different resources + different kinds in the same interval
			a.set_volume(Decibels(va), inst());
			b.set_volume(Decibels(vb), inst());
			a.set_playback_rate(PlaybackRate(0.5), inst());
			rig.mgr.main_track().set_volume(Decibels(-3.0), inst());
			rig.callback(256);
			let out = rig.callback(256).to_vec();
			let main = Decibels(-3.0).as_amplitude();
			let want_l = 0.1 * 2f32.sqrt() * Decibels(va).as_amplitude() * main;
			let want_r = 0.1 * 2f32.sqrt() * Decibels(vb).as_amplitude() * main;
			let (l, rr) = (out[out.len() - 2], out[out.len() - 1]);
			if (l - want_l).abs() > 1e-5 || (rr - want_r).abs() > 1e-5 {
				return Err(format!("commands to different resources issued in the same interval interfered: left {} (want {}), right {} (want {})", l, want_l, rr, want_r));
			}
			drop((a, b));
			// ---- commands of different kinds to ONE clock in the same interval: the last start/pause wins, a stop resets the time
			{
				let mut rig = base_rig(MainTrackBuilder::new());
				rig.watch_alloc = false;
				let mut c = rig.mgr.add_clock(ClockSpeed::TicksPerSecond(100.0)).map_err(|_| "clock")?;
				let warm = r.chance(0.7);
				if warm {
					c.start();
					rig.callback(64 * r.usize_in(1, 20));
				}
				let seq: Vec<u64> = (0..r.usize_in(2, 4)).map(|_| r.below(3)).collect();
				let mut want_ticking = warm;
				let mut reset = false;
				let mut names = vec![];
				for k in &seq {
					match k {
						0 => {
							c.start();
							want_ticking = true;
							names.push("start");
						}
						1 => {
							c.pause();
							want_ticking = false;
							names.push("pause");
						}
						_ => {
							c.stop();
							want_ticking = false;
							reset = true;
							names.push("stop");
						}
					}
				}
				rig.callback(64);
				rig.sync();
				let t1 = c.time();
				let t1v = t1.ticks as f64 + t1.fraction;
				rig.callback(640);
				rig.sync();
				let t2 = c.time();
				let t2v = t2.ticks as f64 + t2.fraction;
				if c.ticking() != want_ticking {
					return Err(format!("clock commands [{}] issued between two callbacks (clock {}): ticking() = {} afterwards, the last start/pause/stop says {}", names.join(", "), if warm { "running" } else { "never started" }, c.ticking(), want_ticking));
				}
				let advanced = t2v > t1v;
				if advanced != want_ticking {
					return Err(format!("clock commands [{}] issued between two callbacks: the clock {} afterwards (time {} -> {})", names.join(", "), if advanced { "advances" } else { "stands still" }, t1v, t2v));
				}
				if reset && t1v > 0.81 {
					return Err(format!("clock commands [{}] included a stop but the time was not reset: {} after one 64-frame callback", names.join(", "), t1v));
				}
				// exactly once, and at once: a running clock then advances by exactly speed x time (a reset applied a
				// callback late would take time away again)
				if want_ticking && ((t2v - t1v) - 8.0).abs() > 1e-9 {
					return Err(format!("clock commands [{}] issued between two callbacks (clock {}): over the following 640 frames at 100 ticks/s the clock moved from {} to {} (by {}, expected 8): a command was applied late or twice", names.join(", "), if warm { "running" } else { "never started" }, t1v, t2v, t2v - t1v));
				}
				if want_ticking && (reset || !warm) && (t1v - 0.8).abs() > 1e-9 {
					return Err(format!("clock commands [{}] (clock {}): one 64-frame callback after a (re)start from zero the clock reads {}, expected 0.8", names.join(", "), if warm { "running" } else { "never started" }, t1v));
				}
			}
			// ---- several playback-state commands to ONE sound in the same interval: all of them are consumed by the next
			// callback; afterwards the state only moves by fades completing (a command surfacing a callback later would
			// show as e.g. Stopping -> Pausing)
			{
				let mut rig = base_rig(MainTrackBuilder::new());
				rig.watch_alloc = false;
				let mut h = rig.mgr.play(crate::probes::dc_sound(SR, 64, 0.1).loop_region(..)).map_err(|_| "play")?;
				rig.callback(64);
				if r.chance(0.3) {
					h.pause(inst());
					rig.callback(64);
				}
				let mut names = vec![];
				for _ in 0..r.usize_in(2, 3) {
					let d = Tween { duration: Duration::from_secs_f64(*r.pick(&[0.0, 3.0, 6.0]) * 64.0 / SR as f64), ..Default::default() };
					match r.below(3) {
						0 => {
							h.pause(d);
							names.push(format!("pause({:?})", d.duration));
						}
						1 => {
							h.resume(d);
							names.push(format!("resume({:?})", d.duration));
						}
						_ => {
							h.stop(d);
							names.push(format!("stop({:?})", d.duration));
						}
					}
				}
				rig.callback(64);
				let mut st = h.state();
				let mut trace = vec![st];
				for _ in 0..10 {
					rig.callback(64);
					let n = h.state();
					let ok = n == st || matches!((st, n), (PlaybackState::Stopping, PlaybackState::Stopped) | (PlaybackState::Pausing, PlaybackState::Paused) | (PlaybackState::Resuming, PlaybackState::Playing));
					trace.push(n);
					if !ok {
						return Err(format!("commands [{}] issued to one sound between two callbacks: the state then went {:?} (only fades completing are possible once all commands have been consumed: a command was applied a callback late)", names.join(", "), trace));
					}
					st = n;
				}
			}
			// ---- a second set() of a tweener with the same target but another tween replaces the first (last write wins)
			{
				let mut rig = base_rig(MainTrackBuilder::new());
				rig.watch_alloc = false;
				let mut tw = rig.mgr.add_modulator(TweenerBuilder { initial_value: 0.0 }).map_err(|_| "tweener")?;
				let map = Mapping { input_range: (0.0, 10.0), output_range: (Decibels(-40.0), Decibels(0.0)), easing: Easing::Linear };
				let _s = rig.mgr.play(crate::probes::dc_sound(SR, 64, 0.1).loop_region(..).volume(Value::FromModulator { id: tw.id(), mapping: map })).map_err(|_| "play")?;
				rig.callback(64);
				let target = r.f64_in(2.0, 10.0);
				let same_interval = r.chance(0.5);
				tw.set(target, Tween { duration: Duration::from_secs(5), ..Default::default() });
				if !same_interval {
					rig.callback(64);
				}
				tw.set(target, inst());
				rig.callback(64);
				let o = rig.callback(64).to_vec();
				let got = o[o.len() - 2];
				let want = 0.1 * Decibels(-40.0 + 4.0 * target as f32).as_amplitude();
				if (got - want).abs() > 1e-5 * want.max(1e-3) {
					return Err(format!("tweener.set({t}, 5 s) followed {} by tweener.set({t}, instant): two callbacks later a volume mapped from it gives {} instead of {} — the second command was not applied", if same_interval { "in the same interval" } else { "one callback later" }, got, want, t = target));
				}
			}
			// ---- a sound on a paused sub-track (or on a running child of one) still takes its commands at the next callback,
			// one by one in the order they were issued: one command per interval, the handle acknowledges each, and after the
			// track resumes the sound is in the state the LAST command asked for (commands saved up and read together when the
			// track resumes would be applied in slot order instead)
			{
				let mut rig = base_rig(MainTrackBuilder::new());
				rig.watch_alloc = false;
				let nested = r.chance(0.4);
				let mut outer = rig.mgr.add_sub_track(TrackBuilder::new()).map_err(|_| "t")?;
				let mut inner = if nested { Some(outer.add_sub_track(TrackBuilder::new()).map_err(|_| "t2")?) } else { None };
				let data = crate::probes::dc_sound(SR, 64, 0.1).loop_region(..);
				let mut h = match inner.as_mut() {
					Some(t) => t.play(data),
					None => outer.play(data),
				}
				.map_err(|_| "play")?;
				rig.callback(64);
				outer.pause(inst());
				rig.callback(64);
				rig.callback(64);
				let mut names = vec![];
				let mut last = 1;
				for _ in 0..r.usize_in(2, 4) {
					last = if names.is_empty() { 0 } else { r.below(2) };
					let want = if last == 0 {
						h.pause(inst());
						names.push("pause");
						[PlaybackState::Pausing, PlaybackState::Paused]
					} else {
						h.resume(inst());
						names.push("resume");
						[PlaybackState::Resuming, PlaybackState::Playing]
					};
					rig.callback(64);
					if !want.contains(&h.state()) {
						return Err(format!("sound on a {}paused sub-track, commands [{}] one per interval: one callback after the last one the handle shows {:?} (command not taken at the start of the next callback)", if nested { "child of a " } else { "" }, names.join(", "), h.state()));
					}
				}
				outer.resume(inst());
				rig.callback(64);
				rig.callback(64);
				let o = rig.callback(64).to_vec();
				let audible = o.iter().any(|x| *x != 0.0);
				let want_state = if last == 0 { PlaybackState::Paused } else { PlaybackState::Playing };
				if h.state() != want_state || audible != (last == 1) {
					return Err(format!("sound on a {}paused sub-track, commands [{}] one per interval, then the track resumes: the sound is {:?} and {} - the last command issued says {:?}", if nested { "child of a " } else { "" }, names.join(", "), h.state(), if audible { "audible" } else { "silent" }, want_state));
				}
			}
			// ---- a streaming sound's seek_by and seek_to written in the same interval: both are taken by the decoder's next step
			// (seek_by first, seek_to second - as the static sound does), so playback continues at the seek_to target; there is
			// exactly one jump and nothing surfaces a step later
			if i % 4 == 0 {
				let mut rig = base_rig(MainTrackBuilder::new());
				rig.watch_alloc = false;
				let n = 60000usize;
				let frames = Arc::new((0..n).map(|i| Frame::from_mono((i + 1) as f32 / 131072.0)).collect::<Vec<_>>());
				let (dec, _o) = ScriptedDecoder::new(frames, DecoderScript { sample_rate: SR, packets: vec![r.usize_in(100, 700)], ..Default::default() });
				let mut h = rig.mgr.play(StreamingSoundData::from_decoder(dec).with_settings(StreamingSoundSettings::new().panning(Panning(-1.0)))).map_err(|_| "play streaming")?;
				let d = crate::hooks::last_decoder().ok_or("decoder hook not observed")?;
				rig.callback(256);
				if d.wait_ahead(Duration::from_millis(500)) {
					let target = r.usize_in(20000, 50000);
					let amount = r.f64_in(0.2, 1.9);
					let by_first = r.chance(0.5);
					if by_first {
						h.seek_by(amount);
					}
					h.seek_to((target as f64 + 0.25) / SR as f64);
					if !by_first {
						h.seek_by(amount);
					}
					let mut heard: Vec<i64> = vec![];
					let mut settled = true;
					for _ in 0..100 {
						settled &= d.wait_ahead(Duration::from_millis(500));
						let o = rig.callback(256).to_vec();
						for f in o.chunks(2) {
							if f[0] != 0.0 {
								heard.push((f[0] as f64 / std::f64::consts::SQRT_2 * 131072.0).round() as i64 - 1);
							}
						}
					}
					if settled {
						let jumps: Vec<(i64, i64)> = heard.windows(2).filter(|w| w[1] != w[0] + 1).map(|w| (w[0], w[1])).collect();
						let ok = jumps.len() == 1 && jumps[0].1 == target as i64;
						if !ok {
							return Err(format!("streaming sound: seek_by({:.3} s) and seek_to(frame {}) written between the same two callbacks ({} first): the frames heard jump {:?} (from, to) - expected exactly one jump, to frame {} (both commands are taken by the decoder's next step, the absolute seek decides)", amount, target, if by_first { "seek_by" } else { "seek_to" }, jumps, target));
						}
					}
				}
				h.stop(inst());
				rig.callback(64);
				rig.callback(64);
			}
			// ---- commands are taken once per device callback, at its start - not once per internal buffer: effects on the main track,
			// a sub-track and a send track are asked to take their commands exactly once per callback, however many internal
			// buffers the callback spans
			{
				let counts: Vec<Arc<AtomicU64>> = (0..3).map(|_| Arc::new(AtomicU64::new(0))).collect();
				let mut rig = base_rig(MainTrackBuilder::new().with_effect(StartCounterBuilder(counts[0].clone())));
				rig.watch_alloc = false;
				let _t = rig.mgr.add_sub_track(TrackBuilder::new().with_effect(StartCounterBuilder(counts[1].clone()))).map_err(|_| "t")?;
				let _s = rig.mgr.add_send_track(SendTrackBuilder::new().with_effect(StartCounterBuilder(counts[2].clone()))).map_err(|_| "s")?;
				rig.callback(64);
				for _ in 0..4 {
					let before: Vec<u64> = counts.iter().map(|c| c.load(Ordering::SeqCst)).collect();
					let frames = *r.pick(&[1usize, 64, 65, 128, 64 * 5, 64 * 7 + 3]);
					rig.callback(frames);
					for (k, c) in counts.iter().enumerate() {
						let d = c.load(Ordering::SeqCst) - before[k];
						if d != 1 {
							return Err(format!("a callback of {} frames (internal buffer 64): the effect on {} was asked to take its commands {} times (commands take effect at the start of a callback, once)", frames, ["the main track", "a sub-track", "a send track"][k], d));
						}
					}
				}
			}
			// ---- commands written to a track just before its handle is dropped still reach it when the track lives on (it persists
			// until its sounds finish, or a track beneath it is kept)
			{
				let mut rig = base_rig(MainTrackBuilder::new());
				rig.watch_alloc = false;
				let by_child = r.chance(0.5);
				let mut t = rig.mgr.add_sub_track(TrackBuilder::new().persist_until_sounds_finish(!by_child)).map_err(|_| "t")?;
				let mut child = if by_child { Some(t.add_sub_track(TrackBuilder::new()).map_err(|_| "c")?) } else { None };
				let data = crate::probes::dc_sound(SR, 64, 0.1).loop_region(..).panning(Panning(-1.0));
				let _s = match child.as_mut() {
					Some(c) => c.play(data),
					None => t.play(data),
				}
				.map_err(|_| "play")?;
				rig.callback(64);
				rig.callback(64);
				let v = r.f32_in(-30.0, -6.0);
				let pause = r.chance(0.3);
				if pause {
					t.pause(inst());
				} else {
					t.set_volume(Decibels(v), inst());
				}
				drop(t);
				rig.callback(64);
				let o = rig.callback(64).to_vec();
				let got = o[o.len() - 2];
				let want = if pause { 0.0 } else { 0.1 * 2f32.sqrt() * Decibels(v).as_amplitude() };
				if (got - want).abs() > 1e-5 {
					return Err(format!("{} written to a track and the handle dropped in the same interval (the track lives on: {}): two callbacks later the output is {} instead of {} - the command was lost", if pause { "pause()".to_string() } else { format!("set_volume({} dB)", v) }, if by_child { "a track beneath it is kept" } else { "it persists until its sounds finish" }, got, want));
				}
			}
			// ---- a later set() of a tweener replaces an earlier one that has not begun yet (delayed or clock start), also when its
			// target is exactly the value the tweener holds (oracle shared with C17)
			crate::props::c17::tweener_cancel_case(&mut r)?;
			// ---- a command written between play() and the sound's first callback is in effect in that callback, wherever it plays
			{
				let mut rig = base_rig(MainTrackBuilder::new());
				rig.watch_alloc = false;
				let l = rig.mgr.add_listener(Vec3::ZERO, Quat::IDENTITY).map_err(|_| "listener")?;
				let place = r.below(5);
				let existing = r.chance(0.5);
				let mut plain: Option<TrackHandle> = None;
				let mut spatial: Option<SpatialTrackHandle> = None;
				let mut parent: Option<TrackHandle> = None;
				match place {
					1 => plain = Some(rig.mgr.add_sub_track(TrackBuilder::new()).map_err(|_| "t")?),
					2 => spatial = Some(rig.mgr.add_spatial_sub_track(l.id(), Vec3::ZERO, SpatialTrackBuilder::new().attenuation_function(None::<Easing>).spatialization_strength(0.0)).map_err(|_| "t")?),
					3 => {
						let mut p = rig.mgr.add_sub_track(TrackBuilder::new()).map_err(|_| "p")?;
						plain = Some(p.add_sub_track(TrackBuilder::new()).map_err(|_| "t")?);
						parent = Some(p);
					}
					_ => {}
				}
				if existing {
					rig.callback(64);
				}
				let data = crate::probes::dc_sound(SR, 64, 0.1).loop_region(..);
				let mut h = match (plain.as_mut(), spatial.as_mut()) {
					(Some(t), _) => t.play(data),
					(_, Some(t)) => t.play(data),
					_ => rig.mgr.play(data),
				}
				.map_err(|_| "play")?;
				let v = r.f32_in(-30.0, -6.0);
				h.set_volume(Decibels(v), inst());
				let out = rig.callback(64).to_vec();
				let got = out[out.len() - 2];
				let want = 0.1 * Decibels(v).as_amplitude();
				if (got - want).abs() > 1e-5 {
					return Err(format!("set_volume({} dB) written between play() and the sound's first callback on {} ({} track): the last frame of that callback is {} (unchanged volume gives 0.1), expected {}", v, ["the main track", "a sub-track", "a spatial track", "a nested sub-track", "the main track"][place as usize], if existing { "already running" } else { "new" }, got, want));
				}
				drop(parent);
			}
			// ---- a send-route volume command is in effect in the first internal chunk of the next callback
			{
				let mut rig = base_rig(MainTrackBuilder::new());
				rig.watch_alloc = false;
				let send = rig.mgr.add_send_track(SendTrackBuilder::new()).map_err(|_| "send")?;
				let mut t = rig.mgr.add_sub_track(TrackBuilder::new().with_send(&send, Decibels::IDENTITY)).map_err(|_| "t")?;
				let _s = t.play(crate::probes::dc_sound(SR, 64, 0.1).loop_region(..)).map_err(|_| "play")?;
				rig.callback(256);
				let b = rig.callback(64).to_vec();
				let base = b[b.len() - 2] / 2.0; // direct path + send path at 0 dB
				let v = r.f32_in(-30.0, -6.0);
				t.set_send(send.id(), Decibels(v), inst()).map_err(|_| "set_send")?;
				let o = rig.callback(64).to_vec();
				let got = o[o.len() - 2];
				let want = base * (1.0 + Decibels(v).as_amplitude());
				if (got - want).abs() > 1e-5 {
					return Err(format!("set_send({} dB): after one internal buffer the output is {} (direct path {} + send path), expected {}: the route volume is applied late", v, got, base, want));
				}
			}
			Ok(())
		});
		match res {
			Ok(Ok(())) => ctx.distinct_key(0xC07_0003_0000 | (i % 64)),
			Ok(Err(e)) => ctx.violation("pair", i, &e, J::Null),
			Err(p) => ctx.violation("pair", i, &format!("panic {}", p.first().map(|p| p.sig()).unwrap_or_default()), J::Null),
		}
	}
}

pub fn run(ctx: &mut Ctx) {
	let mut st = AStats::default();
	let only = ctx.only_case.as_ref().map(|x| x.0.clone());
	let sanitizer = ctx.engine == "miri" || ctx.engine == "tsan";
	if !sanitizer && only.as_deref().map(|s| s == "a").unwrap_or(true) {
		monitor_a(ctx, &mut st);
	}
	if only.as_deref().map(|s| s == "stress").unwrap_or(true) {
		stress_a(ctx, &mut st);
	}
	let mut cov = (0, 0);
	if !sanitizer && only.as_deref().map(|s| s == "b").unwrap_or(true) {
		cov = monitor_b(ctx);
	}
	if !sanitizer && only.as_deref().map(|s| s == "pair").unwrap_or(true) {
		monitor_pairs(ctx);
	}
	ctx.count("A_schedules_executed", st.schedules);
	ctx.count("A_writes", st.writes);
	ctx.count("A_reads_some", st.reads_some);
	ctx.count("A_reads_none", st.reads_none);
	ctx.count("A_reads_overlapping_a_write", st.reads_overlapping_write);
	ctx.count("A_configs_enumerated_completely", st.exhaustive_complete);
	ctx.maxf("A_max_burst_collapsed_into_one_read", st.max_burst_collapsed as f64);
	ctx.count("B_command_kinds_covered", cov.0);
	ctx.count("B_command_kinds_in_table_this_shard", if ctx.only_case.is_none() { (0..cov.1).filter(|i| i % ctx.nshards == ctx.shard).count() as u64 } else { 0 });
	ctx.count("B_command_kinds_in_table", if ctx.shard == 0 { cov.1 } else { 0 });
}

pub fn confirm(_key: &str) -> Option<Option<String>> {
	None
}

#[allow(dead_code)]
fn unused(_: PlaybackState) {}
