//! C15 — spatial tracks: loudness from distance, balance from direction, needs a listener.
//! Relations between renderings of the real mixer (no reference implementation of the panning law).

use std::time::Duration;

use glam::{Quat, Vec3};
use kira::effect::volume_control::VolumeControlBuilder;
use kira::track::{SpatialTrackBuilder, TrackBuilder};
use kira::{Decibels, Easing, Mapping, StartTime, Tween, Value};

use crate::jobj;
use crate::props::c06::gen_easing;
use crate::refmodel::{db_to_amp, ease_ref};
use crate::rig::Rig;
use crate::util::{Ctx, Rng, J};

const SR: u32 = 8000;
const IBS: usize = 32;
const DC: f32 = 0.25;

#[derive(Clone, Debug)]
struct Geo {
	lp: Vec3,
	lo: Quat,
	p: Vec3,
	min: f32,
	max: f32,
	easing: Option<Easing>,
	strength: f32,
	/// source balance (left, right) — a stereo DC sound
	src: (f32, f32),
}

fn rand_unit(r: &mut Rng) -> Vec3 {
	loop {
		let v = Vec3::new(r.noise(), r.noise(), r.noise());
		if v.length() > 0.1 && v.length() <= 1.0 {
			return v.normalize();
		}
	}
}

fn rand_quat(r: &mut Rng) -> Quat {
	if r.chance(0.15) {
		return *r.pick(&[Quat::IDENTITY, Quat::from_rotation_y(std::f32::consts::FRAC_PI_2), Quat::from_rotation_x(std::f32::consts::PI)]);
	}
	Quat::from_axis_angle(rand_unit(r), r.f32_in(-3.1, 3.1))
}

fn stereo_dc(l: f32, rr: f32) -> kira::sound::static_sound::StaticSoundData {
	crate::probes::sound_from_frames(SR, vec![kira::Frame::new(l, rr); 64]).loop_region(..)
}

/// renders the scene until steady and returns the last output frame (L, R)
fn render(g: &Geo) -> Result<(f32, f32), String> {
	// a static scene gives the same steady output however the device cuts it up: every other rendering uses an internal
	// buffer of one frame, or callbacks whose last chunk is a single frame (the frame that is returned)
	static MODE: std::sync::atomic::AtomicU64 = std::sync::atomic::AtomicU64::new(0);
	let mode = MODE.fetch_add(1, std::sync::atomic::Ordering::Relaxed) % 4;
	let (ibs, cb) = match mode {
		2 => (1, 5),
		3 => (IBS, IBS * 2 + 1),
		_ => (IBS, IBS * 2),
	};
	let mut rig = Rig::simple(SR, ibs);
	let l = rig.mgr.add_listener(g.lp, g.lo).map_err(|_| "listener")?;
	let mut t = rig
		.mgr
		.add_spatial_sub_track(&l, g.p, SpatialTrackBuilder::new().distances((g.min, g.max)).attenuation_function(g.easing).spatialization_strength(g.strength))
		.map_err(|_| "track")?;
	let _s = t.play(stereo_dc(g.src.0, g.src.1)).map_err(|_| "play")?;
	let mut last = (0.0, 0.0);
	for _ in 0..3 {
		let b = rig.callback(cb);
		last = (b[b.len() - 2], b[b.len() - 1]);
		if b.iter().any(|x| !x.is_finite()) {
			return Err(format!("non-finite output for {:?}", g));
		}
	}
	if rig.alloc_events != 0 {
		return Err("allocation in callback".into());
	}
	Ok(last)
}

fn gen_geo(r: &mut Rng) -> Geo {
	let min = r.f32_in(0.0, 10.0);
	let max = min + r.f32_in(0.5, 100.0);
	let lp = if r.chance(0.2) { Vec3::ZERO } else { Vec3::new(r.f32_in(-50.0, 50.0), r.f32_in(-50.0, 50.0), r.f32_in(-50.0, 50.0)) };
	let d = match r.below(6) {
		0 => 0.0,
		1 => min * r.f32_in(0.0, 1.0),
		2 => max * r.f32_in(1.0, 3.0),
		_ => r.f32_in(min, max),
	};
	let dir = if r.chance(0.2) { *r.pick(&[Vec3::X, Vec3::NEG_X, Vec3::Y, Vec3::Z, Vec3::NEG_Z]) } else { rand_unit(r) };
	let lo = rand_quat(r);
	// sometimes the emitter sits exactly on one of the listener's ears (0.1 to the side): the direction from that ear is the
	// zero vector
	let at_ear = r.chance(0.06);
	let ear = lp + lo * (if r.chance(0.5) { Vec3::X } else { Vec3::NEG_X } * 0.1);
	Geo {
		lp,
		lo,
		p: if at_ear { ear } else { lp + dir * d },
		min,
		max,
		easing: if r.chance(0.15) { None } else { Some(gen_easing(r)) },
		strength: *r.pick(&[0.0f32, 1.0, 0.75, 0.3, 0.5]),
		src: if r.chance(0.5) { (DC, DC) } else { (DC, DC * r.f32_in(0.0, 1.0)) },
	}
}

fn close(a: f32, b: f32, tol: f32) -> bool {
	(a - b).abs() <= tol * (a.abs().max(b.abs()).max(1e-3))
}

fn case(r: &mut Rng, idx: u64, stats: &mut Stats) -> Result<u64, String> {
	let g = gen_geo(r);
	let d = (g.p - g.lp).length();
	let zone = if d == 0.0 { 0 } else if d <= g.min { 1 } else if d < g.max { 2 } else { 3 };
	let class = zone | ((g.strength * 4.0) as u64) << 2 | (g.easing.is_some() as u64) << 5 | ((g.src.0 != g.src.1) as u64) << 6 | ((g.lo == Quat::IDENTITY) as u64) << 7;
	let (l, rr) = render(&g)?;
	stats.renderings += 1;
	let mono = (g.src.0 + g.src.1) / 2.0;
	// ---- attenuation alone (strength 0): depends only on the distance
	let g0 = Geo { strength: 0.0, ..g.clone() };
	let (l0, r0) = render(&g0)?;
	stats.renderings += 1;
	// stereo passes unpanned at strength 0
	if !close(l0 * g.src.1, r0 * g.src.0, 1e-5) {
		return Err(format!("strength 0 must leave the stereo balance alone: in {:?} out ({},{}) [{:?}]", g.src, l0, r0, g0));
	}
	let att = if g.src.0 != 0.0 { l0 / g.src.0 } else { 0.0 };
	if g.easing.is_some() {
		if d <= g.min * 0.999 && att != 1.0 {
			return Err(format!("inside the minimum distance ({} <= {}) the attenuation must be exactly unity, got {} [{:?}]", d, g.min, att, g0));
		}
		if d >= g.max * 1.001 && (l0 != 0.0 || r0 != 0.0) {
			return Err(format!("at or beyond the maximum distance ({} >= {}) the track must be silent, got ({},{}) [{:?}]", d, g.max, l0, r0, g0));
		}
	} else if !close(att, 1.0, 1e-6) {
		return Err(format!("attenuation disabled but gain {} [{:?}]", att, g0));
	}
	if !(0.0..=1.000001).contains(&att) {
		return Err(format!("attenuation {} outside [0,1] [{:?}]", att, g0));
	}
	// measured conditioning: how much the attenuation moves for a position error of a few f32 ulps of the coordinates
	let (att_lo, att_hi) = if d > 0.0 {
		let dir = (g.p - g.lp) / d;
		let delta = 4e-6 * (g.lp.length() + g.p.length() + 1.0);
		let a = render(&Geo { p: g.lp + dir * (d - delta).max(0.0), ..g0.clone() })?.0;
		let b = render(&Geo { p: g.lp + dir * (d + delta), ..g0.clone() })?.0;
		stats.renderings += 2;
		(a.min(b).min(l0), a.max(b).max(l0))
	} else {
		(l0, l0)
	};
	let cond_abs = att_hi - att_lo;
	let cond_rel = if l0 > 0.0 { cond_abs / l0 } else { 0.0 };
	// same distance, another direction and another listener orientation
	let g0b = Geo { p: g.lp + rand_unit(r) * d, lo: rand_quat(r), ..g0.clone() };
	let (l0b, _) = render(&g0b)?;
	stats.renderings += 1;
	if (l0 - l0b).abs() > cond_abs + 2e-4 * l0.abs().max(1e-3) {
		return Err(format!("attenuation must depend only on the emitter-listener distance {}: {} vs {} for another direction [{:?}]", d, l0, l0b, g0b));
	}
	// non-increasing along a radial sweep
	let _ = idx;
	if r.below(3) == 0 {
		let dir = if d > 1e-3 { (g.p - g.lp) / d } else { rand_unit(r) };
		let mut prev = f32::INFINITY;
		for k in 0..12 {
			let dk = g.max * 1.2 * k as f32 / 11.0;
			let (lk, _) = render(&Geo { p: g.lp + dir * dk, ..g0.clone() })?;
			stats.renderings += 1;
			if lk > prev + 1e-7 {
				return Err(format!("attenuation increases with distance: {} at d={} after {} [{:?}]", lk, dk, prev, g0));
			}
			prev = lk;
		}
	}
	// the configured curve: the level goes from 0 dB at the minimum distance to -60 dB (silence) at the maximum, the easing
	// being applied to the closeness 1 - relative distance (so an `In` easing falls off fast right behind the minimum distance)
	if let Some(e) = g.easing {
		let rel = (((d - g.min) / (g.max - g.min)) as f64).clamp(0.0, 1.0);
		let db = -60.0 + 60.0 * ease_ref(e, 1.0 - rel);
		let want = db_to_amp(db) as f32;
		let inside = d > g.min * 1.001 && d < g.max * 0.999;
		// (-60 dB is silence: next to it the level may already have snapped to 0)
		let near_floor = db < -59.9 && att <= want * 1.02;
		if inside && !near_floor && (att - want).abs() > cond_abs / g.src.0.max(1e-3) + 5e-4 * want.max(1e-3) {
			return Err(format!("attenuation at distance {} (range {}..{}, {:?}) is {} but the configured curve gives {} ({} dB) [{:?}]", d, g.min, g.max, e, att, want, db, g0));
		}
		stats.curve_checks += 1;
	}
	// ---- direction: per-ear gains
	if g.strength > 0.0 && att > 1e-4 && d > 0.5 {
		let (el, er) = (l / (mono * att), rr / (mono * att));
		let lo_b = 1.0 - g.strength;
		if el < lo_b - 1e-3 || el > 1.0 + 1e-3 || er < lo_b - 1e-3 || er > 1.0 + 1e-3 {
			return Err(format!("ear gains ({},{}) outside [1 - strength, 1] = [{}, 1] [{:?}]", el, er, lo_b, g));
		}
		let right_axis = g.lo * Vec3::X;
		let side = (g.p - g.lp).dot(right_axis);
		if side < -0.3 * d && l < rr - 1e-6 {
			return Err(format!("emitter on the listener's left but left {} < right {} [{:?}]", l, rr, g));
		}
		if side > 0.3 * d && rr < l - 1e-6 {
			return Err(format!("emitter on the listener's right but right {} < left {} [{:?}]", rr, l, g));
		}
		// mirroring through the median plane swaps the ears
		let pm = g.p - right_axis * (2.0 * side);
		let (lm, rm) = render(&Geo { p: pm, ..g.clone() })?;
		stats.renderings += 1;
		if !close(lm, rr, 5e-4 + cond_rel) || !close(rm, l, 5e-4 + cond_rel) {
			return Err(format!("mirroring the emitter through the listener's median plane must swap the ears: ({},{}) -> ({},{}) [{:?}]", l, rr, lm, rm, g));
		}
		// a rigid motion applied to listener and emitter together changes nothing
		let q = rand_quat(r);
		let tr = Vec3::new(r.f32_in(-20.0, 20.0), r.f32_in(-20.0, 20.0), r.f32_in(-20.0, 20.0));
		let gm = Geo { lp: q * g.lp + tr, lo: (q * g.lo).normalize(), p: q * g.p + tr, ..g.clone() };
		let (lq, rq) = render(&gm)?;
		stats.renderings += 1;
		if !close(lq, l, 2e-3 + cond_rel) || !close(rq, rr, 2e-3 + cond_rel) {
			return Err(format!("a rigid motion of listener and emitter together changed the output: ({},{}) -> ({},{}) [{:?}] -> [{:?}]", l, rr, lq, rq, g, gm));
		}
		stats.direction_checks += 1;
	}
	Ok(class)
}

/// every combination of attenuation on/off and panning on/off: the listener rule does not depend on them
fn any_builder_params(r: &mut Rng) -> (bool, Option<f32>) {
	(r.chance(0.5), if r.chance(0.5) { Some(*r.pick(&[0.0f32, 1.0, 0.3])) } else { None })
}
fn mk_builder(p: (bool, Option<f32>)) -> SpatialTrackBuilder {
	let mut b = SpatialTrackBuilder::new();
	if p.0 {
		b = b.attenuation_function(None::<Easing>);
	}
	if let Some(s) = p.1 {
		b = b.spatialization_strength(s);
	}
	b
}

/// listener missing (dropped before / after), distance-mapped parameters (also on descendants), tweens
fn history_case(r: &mut Rng, stats: &mut Stats) -> Result<u64, String> {
	let mut class = 1 << 12;
	let mut rig = Rig::simple(SR, IBS);
	let lp = Vec3::new(r.f32_in(-5.0, 5.0), 0.0, r.f32_in(-5.0, 5.0));
	let kind = r.below(4);
	class |= kind << 8;
	match kind {
		0 => {
			// listener dropped while the track plays: silence from the next callback on
			let l = rig.mgr.add_listener(lp, Quat::IDENTITY).map_err(|_| "l")?;
			let bp = any_builder_params(r);
			let mut t = rig.mgr.add_spatial_sub_track(&l, lp + Vec3::new(0.0, 0.0, 2.0), mk_builder(bp)).map_err(|_| "t")?;
			let _s = t.play(stereo_dc(DC, DC)).map_err(|_| "p")?;
			let b = rig.callback(IBS * 2).to_vec();
			if b.iter().all(|x| *x == 0.0) {
				return Err("spatial track with a listener is silent".into());
			}
			// a nested spatial track bound to another listener that is dropped: silent although the parent's listener lives
			if r.chance(0.5) {
				class |= 1 << 4;
				let l2 = rig.mgr.add_listener(lp + Vec3::X, Quat::IDENTITY).map_err(|_| "l2")?;
				let mut n = t.add_spatial_sub_track(&l2, lp + Vec3::new(0.0, 0.0, 1.0), mk_builder(any_builder_params(r))).map_err(|_| "n")?;
				let mut rig2 = Rig::simple(SR, IBS);
				let la = rig2.mgr.add_listener(lp, Quat::IDENTITY).map_err(|_| "l")?;
				let mut ta = rig2.mgr.add_spatial_sub_track(&la, lp + Vec3::new(0.0, 0.0, 2.0), mk_builder(bp)).map_err(|_| "t")?;
				let _sa = ta.play(stereo_dc(DC, DC)).map_err(|_| "p")?;
				let _s2 = n.play(stereo_dc(DC, DC)).map_err(|_| "p")?;
				rig.callback(IBS * 2);
				rig2.callback(IBS);
				rig2.callback(IBS * 2);
				drop(l2);
				for _ in 0..2 {
					let a = rig.callback(IBS * 2).to_vec();
					let b = rig2.callback(IBS * 2).to_vec();
					if a != b {
						return Err(format!("nested spatial track whose own listener was dropped still contributes (parent's listener alive): with {:?} without {:?}", &a[..4], &b[..4]));
					}
				}
				stats.renderings += 1;
				return Ok(class);
			}
			drop(l);
			let b2 = rig.callback(IBS * 2).to_vec();
			let b3 = rig.callback(IBS).to_vec();
			if b2.iter().chain(b3.iter()).any(|x| *x != 0.0) {
				return Err("spatial track still audible after its listener was dropped (must be exact silence from the next callback)".into());
			}
		}
		1 => {
			// listener that no longer exists when the track is created
			let l = rig.mgr.add_listener(lp, Quat::IDENTITY).map_err(|_| "l")?;
			let id = l.id();
			drop(l);
			rig.callback(IBS);
			let mut t = rig.mgr.add_spatial_sub_track(id, lp, mk_builder(any_builder_params(r))).map_err(|_| "t")?;
			let _s = t.play(stereo_dc(DC, DC)).map_err(|_| "p")?;
			for _ in 0..3 {
				if rig.callback(IBS * 2).iter().any(|x| *x != 0.0) {
					return Err("spatial track whose listener does not exist is audible".into());
				}
			}
		}
		2 => {
			// a parameter mapped from the listener distance follows that distance; also on a descendant track,
			// and a nested spatial track uses its own position
			let l = rig.mgr.add_listener(lp, rand_quat(r)).map_err(|_| "l")?;
			let d = r.f32_in(0.0, 30.0);
			let p = lp + rand_unit(r) * d;
			let (i0, i1) = (r.f64_in(0.0, 10.0), r.f64_in(12.0, 40.0));
			// (one mapping in four has a descending input range: far -> near)
			let (i0, i1) = if r.chance(0.25) { (i1, i0) } else { (i0, i1) };
			let (o0, o1) = (r.f32_in(-30.0, -1.0), r.f32_in(-30.0, 0.0));
			let easing = gen_easing(r);
			let map = Mapping { input_range: (i0, i1), output_range: (Decibels(o0), Decibels(o1)), easing };
			let fx = || VolumeControlBuilder::new(Value::FromListenerDistance(map));
			let which = r.below(3);
			class |= which << 4;
			let mk = |b: SpatialTrackBuilder| b.attenuation_function(None::<Easing>).spatialization_strength(0.0);
			let (mut t, want_d): (kira::track::SpatialTrackHandle, f32);
			let mut child = None;
			let mut nested = None;
			match which {
				0 => {
					if r.chance(0.5) {
						// the mapping is given to the effect's handle (with a short tween that ends) instead of its builder
						let mut b = mk(SpatialTrackBuilder::new());
						let mut vh = b.add_effect(VolumeControlBuilder::new(Decibels::IDENTITY));
						t = rig.mgr.add_spatial_sub_track(&l, p, b).map_err(|_| "t")?;
						rig.callback(IBS);
						vh.set_volume(Value::FromListenerDistance(map), Tween { duration: Duration::from_secs_f64(IBS as f64 / SR as f64 * r.f64_in(0.0, 2.0)), ..Default::default() });
						for _ in 0..4 {
							rig.callback(IBS);
						}
						class |= 1 << 7;
					} else {
						t = rig.mgr.add_spatial_sub_track(&l, p, mk(SpatialTrackBuilder::new()).with_effect(fx())).map_err(|_| "t")?;
					}
					want_d = d;
				}
				1 => {
					t = rig.mgr.add_spatial_sub_track(&l, p, mk(SpatialTrackBuilder::new())).map_err(|_| "t")?;
					child = Some(t.add_sub_track(TrackBuilder::new().with_effect(fx())).map_err(|_| "c")?);
					want_d = d;
				}
				_ => {
					// nested spatial track at another position: its effects see its own distance
					let d2 = r.f32_in(0.0, 30.0);
					let p2 = lp + rand_unit(r) * d2;
					t = rig.mgr.add_spatial_sub_track(&l, p, mk(SpatialTrackBuilder::new())).map_err(|_| "t")?;
					nested = Some(t.add_spatial_sub_track(&l, p2, mk(SpatialTrackBuilder::new()).with_effect(fx())).map_err(|_| "n")?);
					want_d = d2;
				}
			}
			let _s = match (child.as_mut(), nested.as_mut()) {
				(Some(c), _) => c.play(stereo_dc(DC, DC)),
				(_, Some(n)) => n.play(stereo_dc(DC, DC)),
				_ => t.play(stereo_dc(DC, DC)),
			}
			.map_err(|_| "p")?;
			let mut last = 0.0;
			for _ in 0..3 {
				let b = rig.callback(IBS * 2);
				last = b[b.len() - 2];
			}
			// sometimes the emitter then moves (instantly): the mapped parameter must follow the new distance
			let mut want_d = want_d;
			if which == 0 && r.chance(0.5) {
				let d3 = r.f32_in(0.0, 30.0);
				t.set_position(lp + rand_unit(r) * d3, Tween { duration: Duration::ZERO, ..Default::default() });
				want_d = d3;
				for _ in 0..3 {
					let b = rig.callback(IBS * 2);
					last = b[b.len() - 2];
				}
				class |= 1 << 6;
			}
			let law = |dd: f64| {
				let x = ((dd - i0) / (i1 - i0)).clamp(0.0, 1.0);
				DC as f64 * db_to_amp(o0 as f64 + (o1 as f64 - o0 as f64) * ease_ref(easing, x))
			};
			let want = law(want_d as f64);
			// measured conditioning: the distance is an f32 computed from f32 positions (steep easings next to a range end)
			let dd = 4e-6 * (want_d as f64 + lp.length() as f64 + 1.0);
			let cond = (law(want_d as f64 + dd) - law(want_d as f64 - dd)).abs();
			if (last as f64 - want).abs() > 2e-4 * want.max(1e-3) + cond {
				return Err(format!("volume mapped from the listener distance ({}): output {} but map(distance {}) gives {} (variant {}: 0 own track, 1 descendant track, 2 nested spatial track)", format!("{:?}", map).chars().take(160).collect::<String>(), last, want_d, want, which));
			}
			stats.distance_param_checks += 1;
		}
		_ => {
			// position / orientation tweens: finite all along, and the end state equals a static scene
			let g = gen_geo(r);
			let l0 = rand_quat(r);
			let mut l = rig.mgr.add_listener(g.lp + rand_unit(r) * 3.0, l0).map_err(|_| "l")?;
			let mut t = rig.mgr.add_spatial_sub_track(&l, g.p + rand_unit(r) * 5.0, SpatialTrackBuilder::new().distances((g.min, g.max)).attenuation_function(g.easing).spatialization_strength(g.strength)).map_err(|_| "t")?;
			let _s = t.play(stereo_dc(g.src.0, g.src.1)).map_err(|_| "p")?;
			rig.callback(IBS);
			let tw = |chunks: f64| Tween { start_time: StartTime::Immediate, duration: Duration::from_secs_f64(chunks * IBS as f64 / SR as f64), easing: Easing::Linear };
			t.set_position(g.p, tw(r.f64_in(0.0, 4.0)));
			l.set_position(g.lp, tw(r.f64_in(0.0, 4.0)));
			l.set_orientation(g.lo, tw(r.f64_in(0.0, 4.0)));
			let mut last = (0.0, 0.0);
			for _ in 0..8 {
				let b = rig.callback(IBS);
				if b.iter().any(|x| !x.is_finite() || x.abs() > 1.0) {
					return Err(format!("non-finite / out-of-range output during position and orientation tweens [{:?}]", g));
				}
				last = (b[b.len() - 2], b[b.len() - 1]);
			}
			let (sl, sr2) = render(&g)?;
			if !close(last.0, sl, 2e-3) || !close(last.1, sr2, 2e-3) {
				return Err(format!("after position/orientation tweens ended the output ({},{}) differs from a static scene at the final poses ({},{}) [{:?}]", last.0, last.1, sl, sr2, g));
			}
		}
	}
	stats.renderings += 1;
	Ok(class)
}

#[derive(Default)]
pub struct Stats {
	pub renderings: u64,
	pub direction_checks: u64,
	pub distance_param_checks: u64,
	pub curve_checks: u64,
}

pub fn run(ctx: &mut Ctx) {
	let mut stats = Stats::default();
	let n = ctx.t(200_000u64, 20_000_000u64);
	for i in 0..n {
		if !ctx.owns("geo", i) {
			continue;
		}
		if !ctx.replaying() && !ctx.time_left(0.9) {
			ctx.note("time budget reached before the case limit");
			break;
		}
		let mut r = Rng::for_case(ctx.seed, 1501, i);
		ctx.eval();
		crate::monitors::set_current(ctx, "geo", i, "spatial case", false);
		let hist = r.below(4) == 3;
		let res = super::guarded(|| if hist { history_case(&mut r, &mut stats) } else { case(&mut r, i, &mut stats) });
		crate::monitors::clear_current();
		match res {
			Ok(Ok(class)) => ctx.distinct_key(0xC15_0000_0000 | class),
			Ok(Err(e)) => ctx.violation("geo", i, &e, J::Null),
			Err(p) => ctx.violation("geo", i, &format!("panic: {} (in callback: {})", p.first().map(|p| p.sig()).unwrap_or_default(), p.first().map(|p| p.in_callback).unwrap_or(false)), J::Null),
		}
	}
	ctx.count("renderings", stats.renderings);
	ctx.count("direction_relation_checks", stats.direction_checks);
	ctx.count("distance_mapped_parameter_checks", stats.distance_param_checks);
	ctx.count("attenuation_curve_checks", stats.curve_checks);
	ctx.sample(jobj! {"monitor" => "relations between renderings", "note" => "random listener pose, emitter position (incl. coincident, axis-aligned, inside min, beyond max), distance range, attenuation easing, strength {0,0.3,0.5,0.75,1}; same-distance, radial sweep, mirror, rigid motion, listener dropped/missing, FromListenerDistance on own/descendant/nested-spatial tracks, pose tweens"});
}

pub fn confirm(_key: &str) -> Option<Option<String>> {
	None
}
