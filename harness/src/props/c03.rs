//! C03 — sound playback states follow the documented life cycle; Stopped is final.
//! Online trace-specification monitor over per-callback observations of handle.state(),
//! handle.position(), track.num_sounds() and the output of a DC sound (output == gain).

use std::sync::Arc;
use std::time::Duration;

use kira::clock::{ClockHandle, ClockSpeed, ClockTime};
use kira::sound::static_sound::{StaticSoundData, StaticSoundHandle, StaticSoundSettings};
use kira::sound::streaming::{StreamingSoundData, StreamingSoundHandle, StreamingSoundSettings};
use kira::sound::PlaybackState;
use kira::track::{TrackBuilder, TrackHandle};
use kira::{Decibels, Easing, Frame, PlaybackRate, StartTime, Tween};

use crate::hooks::DecState;
use crate::jobj;
use crate::probes::{DecoderScript, ScriptedDecoder};
use crate::rig::Rig;
use crate::util::{Ctx, Rng, J};

const SR: u32 = 1000;
const CHUNK: usize = 4;
const DC: f32 = 0.5;
fn chunk_dt() -> f64 {
	CHUNK as f64 / SR as f64
}

#[derive(Clone, Copy, Debug, PartialEq)]
pub enum Cmd {
	Pause(f64),
	Resume(f64),
	ResumeDelayed(f64, f64),
	ResumeClock(f64, f64),
	ResumeMissingClock(f64),
	Stop(f64),
	SeekTo,
	SeekBy,
	SetVolume,
	SetRate,
}

impl Cmd {
	fn is_state_cmd(&self) -> bool {
		!matches!(self, Cmd::SeekTo | Cmd::SeekBy | Cmd::SetVolume | Cmd::SetRate)
	}
}

#[derive(Clone, Debug)]
pub struct CaseSpec {
	pub streaming: bool,
	/// None: looping forever; Some(n): finite sound of n frames
	pub finite: Option<usize>,
	pub fade_in: Option<f64>,
	/// initial start delay in chunks
	pub start_delay: Option<f64>,
	/// (gap in callbacks since the previous command, command)
	pub cmds: Vec<(usize, Cmd)>,
	pub tail: usize,
	/// the device's internal buffer is three times the callback size: every callback is one SHORT chunk, and all times
	/// (fades, delays, positions, the clock) must still be counted in the frames actually rendered
	pub short_chunks: bool,
	pub easing: Easing,
	/// resume() is given a fade-in tween whose own start is delayed by this many chunks: the sound is Resuming (silent, advancing)
	/// at once and Playing when the delayed fade has ended
	pub late_resume: Option<f64>,
}

#[derive(Clone, Copy, Debug, PartialEq)]
enum M {
	Playing,
	Pausing(f64),
	Paused,
	WaitDelay { due: f64, fade: f64 },
	WaitClock { ticks: f64, fade: f64 },
	WaitMissing,
	Resuming(f64),
	Stopping(f64),
	Stopped,
}

thread_local! {
	/// the easing curve of every fade of the case being run (the life cycle does not depend on it: fades complete when their tween
	/// completes, the gain moves monotonically and stays within [0, unity] for every curve)
	static EASING: std::cell::Cell<Easing> = const { std::cell::Cell::new(Easing::Linear) };
}

fn tween(chunks: f64) -> Tween {
	Tween { start_time: StartTime::Immediate, duration: Duration::from_secs_f64(chunks * chunk_dt()), easing: EASING.with(|e| e.get()) }
}

enum H {
	St(StaticSoundHandle),
	Dy(StreamingSoundHandle<String>, Option<Arc<DecState>>),
}

impl H {
	fn state(&self) -> PlaybackState {
		match self {
			H::St(h) => h.state(),
			H::Dy(h, _) => h.state(),
		}
	}
	fn position(&self) -> f64 {
		match self {
			H::St(h) => h.position(),
			H::Dy(h, _) => h.position(),
		}
	}
}

macro_rules! on_handle {
	($h:expr, $x:ident => $e:expr) => {
		match $h {
			H::St($x) => $e,
			H::Dy($x, _) => $e,
		}
	};
}

pub struct Cov {
	pub transitions: std::collections::BTreeSet<(u8, u8)>,
	pub state_cmd: std::collections::BTreeSet<(u8, u8)>,
	pub callbacks: u64,
	pub inconclusive: u64,
}

fn st_code(s: PlaybackState) -> u8 {
	match s {
		PlaybackState::Playing => 0,
		PlaybackState::Pausing => 1,
		PlaybackState::Paused => 2,
		PlaybackState::WaitingToResume => 3,
		PlaybackState::Resuming => 4,
		PlaybackState::Stopping => 5,
		PlaybackState::Stopped => 6,
	}
}

fn cmd_code(c: &Cmd) -> u8 {
	match c {
		Cmd::Pause(_) => 0,
		Cmd::Resume(_) => 1,
		Cmd::ResumeDelayed(..) | Cmd::ResumeClock(..) | Cmd::ResumeMissingClock(_) => 2,
		Cmd::Stop(_) => 3,
		_ => 4,
	}
}

pub fn run_case(c: &CaseSpec, cov: &mut Cov) -> Result<Vec<u8>, String> {
	EASING.with(|e| e.set(c.easing));
	let mut rig = Rig::simple(SR, if c.short_chunks { CHUNK * 3 } else { CHUNK });
	let mut track: TrackHandle = rig.mgr.add_sub_track(TrackBuilder::new().sound_capacity(1)).map_err(|_| "track")?;
	let mut clock: ClockHandle = rig.mgr.add_clock(ClockSpeed::TicksPerSecond(1.0 / chunk_dt())).map_err(|_| "clock")?;
	clock.start();
	let missing_clock_id = {
		let c2 = rig.mgr.add_clock(ClockSpeed::TicksPerSecond(1.0)).map_err(|_| "clock2")?;
		let id = c2.id();
		drop(c2);
		id
	};
	rig.callback(CHUNK); // picks up track and clocks, removes the dropped clock at the next one
	rig.callback(CHUNK);
	let len = c.finite.unwrap_or(64);
	let frames: Vec<Frame> = vec![Frame::from_mono(DC); len];
	let start_time = c.start_delay.map(|d| StartTime::Delayed(Duration::from_secs_f64(d * chunk_dt()))).unwrap_or(StartTime::Immediate);
	let fade = c.fade_in.map(tween);
	let mut h = if c.streaming {
		let (dec, _obs) = ScriptedDecoder::new(Arc::new(frames.clone()), DecoderScript { sample_rate: SR, packets: vec![16], ..Default::default() });
		let mut st = StreamingSoundSettings::new().start_time(start_time).fade_in_tween(fade);
		if c.finite.is_none() {
			st = st.loop_region(..);
		}
		let hh = track.play(StreamingSoundData::from_decoder(dec).with_settings(st)).map_err(|_| "play streaming")?;
		H::Dy(hh, crate::hooks::last_decoder())
	} else {
		let mut st = StaticSoundSettings::new().start_time(start_time).fade_in_tween(fade);
		if c.finite.is_none() {
			st = st.loop_region(..);
		}
		let hh = track.play(StaticSoundData { sample_rate: SR, frames: frames.into(), settings: st, slice: None }).map_err(|_| "play static")?;
		H::St(hh)
	};
	// model
	let mut m = match c.fade_in {
		Some(_) => M::Playing, // a fade-in is reported as Playing (only the gain fades)
		None => M::Playing,
	};
	let mut volume_amp = 1.0f32;
	let mut trace: Vec<u8> = vec![];
	let mut k = 0usize; // callback index since the sound was played
	let mut prev_state = PlaybackState::Playing;
	let mut prev_pos = h.position();
	let mut advancing_frames_upper = 0usize;
	let mut advancing_frames_lower = 0usize;
	let mut stopped_seen_at: Option<usize> = None;
	let mut seek_recent = 0usize;
	let mut seeked = false;
	let mut vol_changed_at: Option<usize> = None;
	let mut rate_changed = false;
	let mut cmd_iter = c.cmds.iter().peekable();
	let mut next_cmd_at = cmd_iter.peek().map(|(g, _)| *g).unwrap_or(usize::MAX);
	let total = c.cmds.iter().map(|(g, _)| *g).sum::<usize>() + c.tail;
	let started_by = c.start_delay.unwrap_or(0.0);
	let adv = |s: PlaybackState| matches!(s, PlaybackState::Playing | PlaybackState::Pausing | PlaybackState::Resuming | PlaybackState::Stopping);
	while k < total {
		// ---- commands issued before callback k
		let mut issued: Option<Cmd> = None;
		if k == next_cmd_at {
			let (_, cmd) = *cmd_iter.next().unwrap();
			next_cmd_at = cmd_iter.peek().map(|(g, _)| k + *g).unwrap_or(usize::MAX);
			issued = Some(cmd);
			cov.state_cmd.insert((st_code(prev_state), cmd_code(&cmd)));
			let now = k as f64;
			match cmd {
				Cmd::Pause(d) => {
					on_handle!(&mut h, x => x.pause(tween(d)));
					if m != M::Stopped {
						m = M::Pausing(now + d);
					}
				}
				Cmd::Resume(d) => {
					let w = c.late_resume.unwrap_or(0.0);
					let mut tw = tween(d);
					if w > 0.0 {
						tw.start_time = StartTime::Delayed(Duration::from_secs_f64(w * chunk_dt()));
					}
					on_handle!(&mut h, x => x.resume(tw));
					if m != M::Stopped {
						m = M::Resuming(now + w + d);
					}
				}
				Cmd::ResumeDelayed(w, d) => {
					let st = StartTime::Delayed(Duration::from_secs_f64(w * chunk_dt()));
					on_handle!(&mut h, x => x.resume_at(st, tween(d)));
					if m != M::Stopped {
						m = if w == 0.0 { M::WaitDelay { due: now, fade: d } } else { M::WaitDelay { due: now + w, fade: d } };
					}
				}
				Cmd::ResumeClock(w, d) => {
					let t = clock.time();
					let target = t.ticks as f64 + t.fraction + w;
					let st = StartTime::ClockTime(ClockTime::from_ticks_f64(clock.id(), target));
					on_handle!(&mut h, x => x.resume_at(st, tween(d)));
					if m != M::Stopped {
						m = M::WaitClock { ticks: target, fade: d };
					}
				}
				Cmd::ResumeMissingClock(d) => {
					let st = StartTime::ClockTime(ClockTime::from_ticks_f64(missing_clock_id, 1.0));
					on_handle!(&mut h, x => x.resume_at(st, tween(d)));
					if m != M::Stopped {
						m = M::WaitMissing;
					}
				}
				Cmd::Stop(d) => {
					on_handle!(&mut h, x => x.stop(tween(d)));
					if m != M::Stopped {
						m = M::Stopping(now + d);
					}
				}
				Cmd::SeekTo => {
					on_handle!(&mut h, x => x.seek_to(0.008));
					seek_recent = 3;
					seeked = true;
					advancing_frames_lower = 0;
				}
				Cmd::SeekBy => {
					on_handle!(&mut h, x => x.seek_by(0.004));
					seek_recent = 3;
					seeked = true;
					advancing_frames_lower = 0;
				}
				Cmd::SetVolume => {
					on_handle!(&mut h, x => x.set_volume(Decibels(-6.0), tween(0.0)));
					volume_amp = Decibels(-6.0).as_amplitude();
					vol_changed_at = Some(k);
				}
				Cmd::SetRate => {
					// a rate change must not affect the state (the interpolator may overshoot the DC level at the
					// edges of the data at fractional positions, so gain checks stop here)
					rate_changed = true;
					on_handle!(&mut h, x => x.set_playback_rate(PlaybackRate(if c.finite.is_some() { 1.0 } else { 0.5 }), tween(0.0)));
				}
			}
		}
		// ---- the callback
		if let H::Dy(_, Some(st)) = &h {
			if !st.wait_ahead(Duration::from_secs(3)) {
				cov.inconclusive += 1;
				return Ok(trace);
			}
		}
		let buf = rig.callback(CHUNK).to_vec();
		cov.callbacks += 1;
		let t = (k + 1) as f64;
		let s = h.state();
		let pos = h.position();
		trace.push(st_code(s));
		if std::env::var("KVH_TRACE").is_ok() {
			eprintln!("cb {} issued {:?} state {:?} pos {:.4} model {:?} out {:?} num_sounds {}", k, issued, s, pos, m, buf.chunks(2).map(|f| f[0]).collect::<Vec<f32>>(), track.num_sounds());
		}
		if s != prev_state {
			cov.transitions.insert((st_code(prev_state), st_code(s)));
		}
		// ---- expected state
		let ct = clock.time();
		// the handle shows the value published at the start of this callback (= the clock after the previous
		// chunk); during this callback's single chunk the clock advanced by exactly one more tick before the
		// sounds were processed
		let clock_now = ct.ticks as f64 + ct.fraction + 1.0;
		let slack = 1.0 + 1e-6;
		let (accept, note): (Vec<PlaybackState>, String) = match m {
			M::Playing => {
				// natural end of a finite sound
				if let Some(n) = c.finite {
					if advancing_frames_lower >= n + 2 * CHUNK + 8 {
						(vec![PlaybackState::Stopped], format!("finite sound of {} frames has advanced at least {} frames", n, advancing_frames_lower))
					} else if advancing_frames_upper + CHUNK >= n {
						(vec![PlaybackState::Playing, PlaybackState::Stopped], String::new())
					} else {
						(vec![PlaybackState::Playing], String::new())
					}
				} else {
					(vec![PlaybackState::Playing], String::new())
				}
			}
			M::Pausing(end) => {
				if t >= end + slack {
					(vec![PlaybackState::Paused], format!("pause fade was due at t={:.2} chunks", end))
				} else if t <= end - slack {
					(vec![PlaybackState::Pausing], format!("pause fade runs until t={:.2}", end))
				} else {
					(vec![PlaybackState::Pausing, PlaybackState::Paused], String::new())
				}
			}
			M::Paused => (vec![PlaybackState::Paused], String::new()),
			M::WaitDelay { due, .. } => {
				if t >= due + slack {
					(vec![PlaybackState::Resuming, PlaybackState::Playing], format!("resume_at delay was due at t={:.2}", due))
				} else if t <= due - slack {
					(vec![PlaybackState::WaitingToResume], format!("resume_at delay runs until t={:.2}", due))
				} else {
					(vec![PlaybackState::WaitingToResume, PlaybackState::Resuming, PlaybackState::Playing], String::new())
				}
			}
			M::WaitClock { ticks, .. } => {
				if clock_now >= ticks {
					(vec![PlaybackState::Resuming, PlaybackState::Playing], format!("clock is at {:.3} >= scheduled {:.3}", clock_now, ticks))
				} else {
					(vec![PlaybackState::WaitingToResume], format!("clock is at {:.3} < scheduled {:.3}", clock_now, ticks))
				}
			}
			M::WaitMissing => (vec![PlaybackState::Stopped], "resume_at on a clock that no longer exists cancels the sound".into()),
			M::Resuming(end) => {
				if t >= end + slack {
					(vec![PlaybackState::Playing], format!("resume fade was due at t={:.2}", end))
				} else if t <= end - slack {
					(vec![PlaybackState::Resuming], format!("resume fade runs until t={:.2}", end))
				} else {
					(vec![PlaybackState::Resuming, PlaybackState::Playing], String::new())
				}
			}
			M::Stopping(end) => {
				if t >= end + slack {
					(vec![PlaybackState::Stopped], format!("stop fade was due at t={:.2}", end))
				} else if t <= end - slack {
					(vec![PlaybackState::Stopping], format!("stop fade runs until t={:.2}", end))
				} else {
					(vec![PlaybackState::Stopping, PlaybackState::Stopped], String::new())
				}
			}
			M::Stopped => (vec![PlaybackState::Stopped], "Stopped is permanent".into()),
		};
		// a finite sound may also end naturally while fading (Pausing/Resuming/Stopping keep advancing)
		let natural_end_possible = c.finite.map(|n| advancing_frames_upper + CHUNK >= n || seeked).unwrap_or(false) && s == PlaybackState::Stopped;
		if !accept.contains(&s) && !natural_end_possible {
			return Err(format!("after callback {} (t={} chunks): state {:?} but the life cycle allows {:?} ({}); last command {:?}, model {:?}, trace {:?}", k, t, s, accept, note, issued, m, trace));
		}
		// ---- advance the model on what was observed
		m = match (m, s) {
			(_, PlaybackState::Stopped) => M::Stopped,
			(M::Pausing(_), PlaybackState::Paused) => M::Paused,
			(M::WaitDelay { fade, .. }, PlaybackState::Resuming) | (M::WaitClock { fade, .. }, PlaybackState::Resuming) => M::Resuming(t + fade),
			(M::WaitDelay { .. }, PlaybackState::Playing) | (M::WaitClock { .. }, PlaybackState::Playing) => M::Playing,
			(M::Resuming(_), PlaybackState::Playing) => M::Playing,
			(other, _) => other,
		};
		// ---- silence and frozen position while not advancing for a whole callback
		let started = t >= started_by + slack;
		// the whole callback was spent in a non-advancing state only if the life cycle allowed nothing else
		// (a sound may leave WaitingToResume, play its last frames and stop within a single callback)
		let whole_cb_frozen = !adv(prev_state) && !adv(s) && accept.iter().all(|x| !adv(*x)) && issued.map(|c| !c.is_state_cmd()).unwrap_or(true);
		if whole_cb_frozen || s == PlaybackState::Stopped && prev_state == PlaybackState::Stopped {
			if buf.iter().any(|x| *x != 0.0) {
				return Err(format!("callback {}: output is not exact silence while the sound is {:?} (was {:?}); trace {:?}", k, s, prev_state, trace));
			}
			if seek_recent == 0 && pos != prev_pos && s != PlaybackState::Stopped {
				return Err(format!("callback {}: position advanced from {} to {} while the sound is {:?}", k, prev_pos, pos, s));
			}
		}
		// ---- gain: steady while Playing, monotone during fades, exact at the ends
		let vol_settled = vol_changed_at.map(|v| k > v).unwrap_or(true);
		if started && vol_settled && c.fade_in.is_none() && seek_recent == 0 && !rate_changed {
			let unity = DC * volume_amp;
			let finite_tail = c.finite.map(|n| advancing_frames_upper + 2 * CHUNK + 8 >= n).unwrap_or(false);
			if prev_state == PlaybackState::Playing && s == PlaybackState::Playing && issued.map(|c| !c.is_state_cmd()).unwrap_or(true) && !finite_tail && (k as f64) >= started_by + 2.0 {
				if buf.iter().any(|x| *x != unity) {
					return Err(format!("callback {}: steadily Playing but the gain is not exactly unity: {:?} (expected {})", k, &buf[..buf.len().min(8)], unity));
				}
			}
			let l: Vec<f32> = buf.chunks(2).map(|f| f[0]).collect();
			if prev_state == PlaybackState::Pausing && s == PlaybackState::Pausing || prev_state == PlaybackState::Stopping && s == PlaybackState::Stopping {
				if l.windows(2).any(|w| w[1] > w[0] + 1e-7) && !finite_tail {
					return Err(format!("callback {}: gain not monotonically decreasing during {:?}: {:?}", k, s, l));
				}
			}
			if prev_state == PlaybackState::Resuming && s == PlaybackState::Resuming && l.windows(2).any(|w| w[1] < w[0] - 1e-7) && !finite_tail {
				return Err(format!("callback {}: gain not monotonically increasing during Resuming: {:?}", k, l));
			}
			if l.iter().any(|x| *x > unity * 1.000001 || *x < 0.0) {
				return Err(format!("callback {}: gain outside [0, unity]: {:?}", k, l));
			}
		}
		// ---- Stopped: unloaded at the next callback, slot reusable
		if s == PlaybackState::Stopped {
			if stopped_seen_at.is_none() {
				stopped_seen_at = Some(k);
			}
			if k >= stopped_seen_at.unwrap() + 1 {
				if track.num_sounds() != 0 {
					return Err(format!("callback {}: sound Stopped since callback {} but the track still counts {} sound(s)", k, stopped_seen_at.unwrap(), track.num_sounds()));
				}
			}
		}
		if adv(prev_state) || adv(s) {
			advancing_frames_upper += CHUNK;
		}
		if adv(prev_state) && adv(s) && started && (k as f64) >= started_by + 1.0 {
			advancing_frames_lower += CHUNK;
		}
		prev_state = s;
		prev_pos = pos;
		seek_recent = seek_recent.saturating_sub(1);
		k += 1;
	}
	// bounded progress: every finite non-looping sound reaches Stopped
	if let Some(n) = c.finite {
		if prev_state != PlaybackState::Stopped && advancing_frames_lower >= n + 2 * CHUNK + 8 {
			return Err(format!("finite sound of {} frames advanced {} frames but never reached Stopped; trace {:?}", n, advancing_frames_lower, trace));
		}
	}
	// slot reuse after Stopped
	if let Some(sk) = stopped_seen_at {
		if total > sk + 2 {
			let again = track.play(StaticSoundData { sample_rate: SR, frames: vec![Frame::from_mono(DC); 8].into(), settings: StaticSoundSettings::new(), slice: None });
			if again.is_err() {
				return Err("the slot of a Stopped (unloaded) sound is not reusable: play() on the capacity-1 track failed".into());
			}
		}
	}
	// teardown for streaming: stop so the decoder thread ends
	if let H::Dy(hh, _) = &mut h {
		hh.stop(tween(0.0));
		track.resume(tween(0.0));
		rig.callback(CHUNK);
		rig.callback(CHUNK);
	}
	Ok(trace)
}

const DURS: [f64; 4] = [0.0, 0.5, 1.0, 2.5];
const GAPS: [usize; 3] = [0, 1, 3];

fn alphabet() -> Vec<Cmd> {
	let mut a = vec![];
	for d in DURS {
		a.push(Cmd::Pause(d));
		a.push(Cmd::Resume(d));
		a.push(Cmd::Stop(d));
		a.push(Cmd::ResumeDelayed(2.0, d));
		a.push(Cmd::ResumeClock(2.5, d));
	}
	a.push(Cmd::ResumeDelayed(0.0, 1.0));
	a.push(Cmd::ResumeMissingClock(1.0));
	a.push(Cmd::SeekTo);
	a.push(Cmd::SeekBy);
	a.push(Cmd::SetVolume);
	a.push(Cmd::SetRate);
	a
}

fn gen_random(r: &mut Rng) -> CaseSpec {
	let a = alphabet();
	let n = r.usize_in(1, 40);
	let mut cmds = vec![];
	for i in 0..n {
		let gap = if i == 0 { r.usize_in(0, 6) } else { *r.pick(&[0usize, 1, 1, 2, 3, 5, 9]) }.max(if i == 0 { 0 } else { 1 });
		let mut c = *r.pick(&a);
		// random (non-grid) fade lengths too
		if r.chance(0.3) {
			let d = r.f64_in(0.0, 6.0);
			c = match c {
				Cmd::Pause(_) => Cmd::Pause(d),
				Cmd::Resume(_) => Cmd::Resume(d),
				Cmd::Stop(_) => Cmd::Stop(d),
				Cmd::ResumeDelayed(_, _) => Cmd::ResumeDelayed(r.f64_in(0.0, 5.0), d),
				Cmd::ResumeClock(_, _) => Cmd::ResumeClock(r.f64_in(0.0, 5.0), d),
				other => other,
			};
		}
		cmds.push((gap, c));
	}
	CaseSpec {
		streaming: r.chance(0.08),
		finite: if r.chance(0.4) { Some(r.usize_in(1, 120)) } else { None },
		fade_in: if r.chance(0.2) { Some(r.f64_in(0.0, 4.0)) } else { None },
		start_delay: if r.chance(0.2) { Some(r.f64_in(0.0, 5.0)) } else { None },
		cmds,
		tail: 12,
		short_chunks: r.chance(0.3),
		easing: if r.chance(0.4) { Easing::Linear } else { crate::props::c06::gen_easing(r) },
		late_resume: if r.chance(0.25) { Some(r.f64_in(0.5, 4.0)) } else { None },
	}
}

pub fn run(ctx: &mut Ctx) {
	let mut cov = Cov { transitions: Default::default(), state_cmd: Default::default(), callbacks: 0, inconclusive: 0 };
	let a = alphabet();
	let depth = ctx.t(3usize, 4usize);
	// ---- exhaustive: all command sequences up to `depth` over the alphabet x issue gaps, static looping sound
	let mut idx = 0u64;
	let na = a.len();
	let ng = GAPS.len();
	let mut total_enum = 0u64;
	for d in 1..=depth {
		let count = (na * ng).pow(d as u32) as u64;
		for code in 0..count {
			let mine = ctx.owns("enum", idx);
			if mine {
				let mut x = code;
				let mut cmds = vec![];
				for i in 0..d {
					let ci = (x % na as u64) as usize;
					x /= na as u64;
					let gi = (x % ng as u64) as usize;
					x /= ng as u64;
					cmds.push((if i == 0 { GAPS[gi] } else { GAPS[gi].max(1) }, a[ci]));
				}
				let c = CaseSpec { streaming: false, finite: if code % 5 == 4 { Some(10 + (code % 7) as usize * 5) } else { None }, fade_in: None, start_delay: None, cmds, tail: 8, short_chunks: code % 3 == 1, easing: [Easing::Linear, Easing::InOutPowi(3), Easing::OutPowi(3), Easing::InPowf(2.5), Easing::InOutPowf(0.5)][(code % 5) as usize], late_resume: None };
				one(ctx, "enum", idx, &c, &mut cov);
			}
			idx += 1;
			total_enum += 1;
		}
		if !ctx.replaying() && !ctx.time_left(0.7) {
			ctx.note("time budget reached during exhaustive enumeration");
			break;
		}
	}
	ctx.count("exhaustive_sequences_total", total_enum);
	ctx.count("exhaustive_depth", depth as u64);
	// ---- random deep sequences (static + streaming, fade-in, start delays, finite sounds)
	let n = ctx.t(100_000u64, 4_000_000u64);
	for i in 0..n {
		if !ctx.owns("rand", i) {
			continue;
		}
		if !ctx.replaying() && !ctx.time_left(0.95) {
			ctx.note("time budget reached before the case limit");
			break;
		}
		let mut r = Rng::for_case(ctx.seed, 301, i);
		let c = gen_random(&mut r);
		one(ctx, "rand", i, &c, &mut cov);
	}
	// ---- a streaming sound whose decoder delivers nothing: the life cycle (fades, Paused, Stopped, unload) still runs
	let ns = ctx.t(400u64, 40_000u64);
	let mut starved = 0u64;
	for i in 0..ns {
		if !ctx.owns("starved", i) {
			continue;
		}
		if !ctx.replaying() && !ctx.time_left(0.99) {
			break;
		}
		let mut r = Rng::for_case(ctx.seed, 302, i);
		ctx.eval();
		crate::monitors::set_current(ctx, "starved", i, "starved streaming sound", false);
		let res = super::guarded(|| starved_stream_case(&mut r));
		crate::monitors::clear_current();
		crate::hooks::gate_new_decoders(false);
		crate::hooks::release_all();
		match res {
			Ok(Ok(())) => {
				starved += 1;
				ctx.distinct_key(0xC03_0005_0000 | (i % 61));
			}
			Ok(Err(e)) => ctx.violation("starved", i, &e, J::Null),
			Err(p) => ctx.violation("starved", i, &format!("panic: {}", p.first().map(|p| p.sig()).unwrap_or_default()), J::Null),
		}
	}
	ctx.count("starved_stream_cases", starved);
	// ---- several playback-state commands between the same two callbacks: which one wins is not fixed by the life cycle
	// (C07), but all of them are consumed by the next callback: afterwards the state only moves by fades completing
	let nsi = ctx.t(2_000u64, 200_000u64);
	let mut same_interval = 0u64;
	for i in 0..nsi {
		if !ctx.owns("burst", i) {
			continue;
		}
		if !ctx.replaying() && !ctx.time_left(0.995) {
			break;
		}
		let mut r = Rng::for_case(ctx.seed, 303, i);
		ctx.eval();
		crate::monitors::set_current(ctx, "burst", i, "same-interval state commands", false);
		let res = super::guarded(|| same_interval_case(&mut r).and_then(|_| idle_clock_case(&mut r)).and_then(|_| paused_track_case(&mut r)));
		crate::monitors::clear_current();
		match res {
			Ok(Ok(())) => {
				same_interval += 1;
				ctx.distinct_key(0xC03_0006_0000 | (i % 61));
			}
			Ok(Err(e)) => ctx.violation("burst", i, &e, J::Null),
			Err(p) => ctx.violation("burst", i, &format!("panic: {}", p.first().map(|p| p.sig()).unwrap_or_default()), J::Null),
		}
	}
	ctx.count("same_interval_command_cases", same_interval);
	ctx.count("callbacks_observed", cov.callbacks);
	ctx.count("distinct_state_transitions_observed", cov.transitions.len() as u64);
	ctx.count("distinct_state_x_command_cells_observed", cov.state_cmd.len() as u64);
	ctx.inconclusive += cov.inconclusive;
	ctx.note(&format!("transitions observed: {:?}", cov.transitions));
	ctx.note(&format!("(state, command kind) cells observed: {:?}", cov.state_cmd));
}

/// The decoder thread is parked before its first frame (or after a few), so the sound waits for audio data. Pause, resume
/// and stop fades must still complete in their time: Paused / Stopped are reached and a Stopped sound is unloaded.
fn starved_stream_case(r: &mut Rng) -> Result<(), String> {
	let mut rig = Rig::simple(SR, CHUNK);
	let mut track = rig.mgr.add_sub_track(TrackBuilder::new().sound_capacity(1)).map_err(|_| "track")?;
	rig.callback(CHUNK);
	let frames: Vec<Frame> = vec![Frame::from_mono(DC); 400];
	let (dec, _obs) = ScriptedDecoder::new(Arc::new(frames), DecoderScript { sample_rate: SR, packets: vec![16], ..Default::default() });
	crate::hooks::gate_new_decoders(true);
	let st = StreamingSoundSettings::new().loop_region(..);
	let mut h = track.play(StreamingSoundData::from_decoder(dec).with_settings(st)).map_err(|_| "play streaming")?;
	crate::hooks::gate_new_decoders(false);
	let dec_state = crate::hooks::last_decoder().ok_or("decoder hook not observed")?;
	// a few frames, then nothing more
	dec_state.allow(r.below(3) as i64 * 8);
	for _ in 0..r.usize_in(1, 4) {
		rig.callback(CHUNK);
	}
	let d_chunks = *r.pick(&DURS);
	let tw = Tween { duration: Duration::from_secs_f64(d_chunks * CHUNK as f64 / SR as f64), ..Default::default() };
	let budget = d_chunks.ceil() as usize + 3;
	let what = r.below(3);
	let mut hist = vec![];
	if what >= 1 {
		h.pause(tw);
		hist.push(format!("pause({} chunks)", d_chunks));
		for _ in 0..budget {
			rig.callback(CHUNK);
		}
		if h.state() != PlaybackState::Paused {
			return Err(format!("starved streaming sound: {} callbacks after {:?} the state is {:?}, not Paused", budget, hist, h.state()));
		}
	}
	if what == 2 {
		h.resume(tw);
		hist.push(format!("resume({} chunks)", d_chunks));
		for _ in 0..budget {
			rig.callback(CHUNK);
		}
		if h.state() != PlaybackState::Playing {
			return Err(format!("starved streaming sound: {} callbacks after {:?} the state is {:?}, not Playing", budget, hist, h.state()));
		}
	}
	h.stop(tw);
	hist.push(format!("stop({} chunks)", d_chunks));
	for _ in 0..budget {
		rig.callback(CHUNK);
	}
	if h.state() != PlaybackState::Stopped {
		return Err(format!("starved streaming sound: {} callbacks after {:?} the state is {:?}, not Stopped (the stop fade did not run while the sound waited for audio data)", budget, hist, h.state()));
	}
	rig.callback(CHUNK);
	rig.callback(CHUNK);
	if track.num_sounds() != 0 {
		return Err(format!("starved streaming sound was Stopped but not unloaded (num_sounds = {}) [{:?}]", track.num_sounds(), hist));
	}
	dec_state.release();
	Ok(())
}

fn same_interval_case(r: &mut Rng) -> Result<(), String> {
	let mut rig = Rig::simple(SR, CHUNK);
	let frames: Vec<Frame> = vec![Frame::from_mono(DC); 64];
	let mut h = rig.mgr.play(StaticSoundData { sample_rate: SR, frames: frames.into(), settings: StaticSoundSettings::new().loop_region(..), slice: None }).map_err(|_| "play")?;
	rig.callback(CHUNK);
	if r.chance(0.3) {
		h.pause(tween(0.0));
		rig.callback(CHUNK);
	}
	let mut names = vec![];
	for _ in 0..r.usize_in(2, 3) {
		let d = *r.pick(&[0.0, 2.5, 6.0]);
		match r.below(3) {
			0 => {
				h.pause(tween(d));
				names.push(format!("pause({})", d));
			}
			1 => {
				h.resume(tween(d));
				names.push(format!("resume({})", d));
			}
			_ => {
				h.stop(tween(d));
				names.push(format!("stop({})", d));
			}
		}
	}
	rig.callback(CHUNK);
	let mut st = h.state();
	let mut trace = vec![st];
	for _ in 0..10 {
		rig.callback(CHUNK);
		let n = h.state();
		let ok = n == st || matches!((st, n), (PlaybackState::Stopping, PlaybackState::Stopped) | (PlaybackState::Pausing, PlaybackState::Paused) | (PlaybackState::Resuming, PlaybackState::Playing));
		trace.push(n);
		if !ok {
			return Err(format!("commands [{}] (fade lengths in chunks) issued to one sound between two callbacks: the state then went {:?}; once all commands have been consumed only fades completing can change it", names.join(", "), trace));
		}
		st = n;
	}
	Ok(())
}

/// A clock start time (the sound's own, or the one given to resume_at) on a clock that is NOT running - never started,
/// paused after passing the time, or stopped (time back at zero): "when the clock reaches the time" needs a running clock,
/// so the sound waits (silent, position frozen, WaitingToResume for resume_at) and starts once the clock is started.
fn idle_clock_case(r: &mut Rng) -> Result<(), String> {
	let mut rig = Rig::simple(SR, CHUNK);
	let mut clock: ClockHandle = rig.mgr.add_clock(ClockSpeed::TicksPerSecond(1.0 / chunk_dt())).map_err(|_| "clock")?;
	let variant = r.below(3);
	let k = r.usize_in(1, 6);
	let what = match variant {
		0 => "never started".to_string(),
		1 => {
			clock.start();
			for _ in 0..k {
				rig.callback(CHUNK);
			}
			clock.pause();
			rig.callback(CHUNK);
			format!("paused after {} ticks", k)
		}
		_ => {
			clock.start();
			for _ in 0..k {
				rig.callback(CHUNK);
			}
			clock.stop();
			rig.callback(CHUNK);
			format!("stopped after {} ticks (time reset to 0)", k)
		}
	};
	let target = if variant == 1 { r.below(k as u64 + 1) } else { 0 };
	let st = StartTime::ClockTime(ClockTime::from_ticks_u64(clock.id(), target));
	let own = r.chance(0.5);
	let frames: Vec<Frame> = vec![Frame::from_mono(DC); 64];
	let mut settings = StaticSoundSettings::new().loop_region(..);
	if own {
		settings = settings.start_time(st);
	}
	let mut h = rig.mgr.play(StaticSoundData { sample_rate: SR, frames: frames.into(), settings, slice: None }).map_err(|_| "play")?;
	if !own {
		rig.callback(CHUNK);
		h.pause(tween(0.0));
		rig.callback(CHUNK);
		rig.callback(CHUNK);
		h.resume_at(st, tween(0.0));
	}
	let how = if own { "a sound whose start time is" } else { "resume_at" };
	let mut pos0 = None;
	for n in 0..r.usize_in(3, 10) {
		let buf = rig.callback(CHUNK * r.usize_in(1, 2)).to_vec();
		if buf.iter().any(|x| *x != 0.0) {
			return Err(format!("{} clock time {} of a clock that is not running ({}): audible {} callbacks later (the clock has not reached the time: it is not ticking)", how, target, what, n + 1));
		}
		if !own && h.state() != PlaybackState::WaitingToResume {
			return Err(format!("resume_at clock time {} of a clock that is not running ({}): state {:?} after {} callbacks, expected WaitingToResume until the clock runs", target, what, h.state(), n + 1));
		}
		let p = h.position();
		if *pos0.get_or_insert(p) != p {
			return Err(format!("{} clock time {} of a clock that is not running ({}): the position moved from {} to {} while waiting", how, target, what, pos0.unwrap(), p));
		}
	}
	clock.start();
	let mut heard = false;
	for _ in 0..3 {
		let buf = rig.callback(CHUNK).to_vec();
		heard |= buf.iter().any(|x| *x != 0.0);
	}
	if !heard {
		return Err(format!("{} clock time {} ({}): still silent 3 callbacks after the clock was started", how, target, what));
	}
	Ok(())
}

/// A sound on a paused sub-track (or on a running child of a paused track) is not processed, but it still takes its
/// commands at the next callback - the handle shows Pausing / Resuming / Stopping - and a sound that is Stopped is
/// still unloaded at the next callback. Track and sound commands are interleaved one per interval; callbacks of 1-3 chunks.
fn paused_track_case(r: &mut Rng) -> Result<(), String> {
	let mut rig = Rig::simple(SR, CHUNK);
	let nested = r.chance(0.4);
	let mut outer: TrackHandle = rig.mgr.add_sub_track(TrackBuilder::new().sound_capacity(1)).map_err(|_| "track")?;
	let mut inner: Option<TrackHandle> = if nested { Some(outer.add_sub_track(TrackBuilder::new().sound_capacity(1)).map_err(|_| "inner")?) } else { None };
	let frames: Vec<Frame> = vec![Frame::from_mono(DC); 64];
	let data = StaticSoundData { sample_rate: SR, frames: frames.into(), settings: StaticSoundSettings::new().loop_region(..), slice: None };
	let mut h = match inner.as_mut() {
		Some(t) => t.play(data),
		None => outer.play(data),
	}
	.map_err(|_| "play")?;
	rig.callback(CHUNK);
	let mut hist: Vec<String> = vec![];
	let mut stopped_seen = false;
	for _ in 0..r.usize_in(4, 12) {
		let d = *r.pick(&DURS);
		let before = h.state();
		let mut ack: Option<[PlaybackState; 2]> = None;
		match r.below(8) {
			0 => {
				outer.pause(tween(d));
				hist.push(format!("track.pause({})", d));
			}
			1 => {
				outer.resume(tween(d));
				hist.push(format!("track.resume({})", d));
			}
			2 => {
				let w = r.usize_in(1, 4);
				outer.resume_at(StartTime::Delayed(Duration::from_secs_f64(w as f64 * chunk_dt())), tween(d));
				hist.push(format!("track.resume_at(in {} chunks, {})", w, d));
			}
			3 => {
				h.pause(tween(d));
				hist.push(format!("sound.pause({})", d));
				ack = Some([PlaybackState::Pausing, PlaybackState::Paused]);
			}
			4 => {
				h.resume(tween(d));
				hist.push(format!("sound.resume({})", d));
				ack = Some([PlaybackState::Resuming, PlaybackState::Playing]);
			}
			5 => {
				h.stop(tween(d));
				hist.push(format!("sound.stop({})", d));
				ack = Some([PlaybackState::Stopping, PlaybackState::Stopped]);
			}
			_ => hist.push("-".into()),
		}
		let chunks = r.usize_in(1, 3);
		rig.callback(CHUNK * chunks);
		hist.push(format!("cb({})", chunks));
		let s = h.state();
		if before == PlaybackState::Stopped {
			if s != PlaybackState::Stopped {
				return Err(format!("sound on a {}sub-track: state {:?} after Stopped [{}]", if nested { "nested " } else { "" }, s, hist.join(" ")));
			}
		} else if let Some(a) = ack {
			if !a.contains(&s) {
				return Err(format!("sound on a {}sub-track whose (outer) track is paused / resumed at will: after the command and one callback the handle shows {:?}, expected {:?} or {:?} - the command was not taken at the next callback [{}]", if nested { "nested " } else { "" }, s, a[0], a[1], hist.join(" ")));
			}
		}
		let n = inner.as_ref().map(|t| t.num_sounds()).unwrap_or_else(|| outer.num_sounds());
		if stopped_seen && n != 0 {
			return Err(format!("sound on a {}sub-track: Stopped since the previous callback but its track still counts {} sound(s) (not unloaded while the track is paused or waiting) [{}]", if nested { "nested " } else { "" }, n, hist.join(" ")));
		}
		stopped_seen = s == PlaybackState::Stopped;
	}
	Ok(())
}

fn one(ctx: &mut Ctx, stream: &str, idx: u64, c: &CaseSpec, cov: &mut Cov) {
	ctx.eval();
	crate::monitors::set_current(ctx, stream, idx, "playback state case", false);
	let res = super::guarded(|| run_case(c, cov));
	crate::monitors::clear_current();
	let detail = || jobj! {"case" => format!("{:?}", c)};
	match res {
		Ok(Ok(trace)) => {
			if trace.windows(2).any(|w| w[0] != w[1]) {
				ctx.distinct_str(&format!("{:?}", trace));
			}
			if ctx.want_sample() && idx % 211 == 0 {
				ctx.sample(jobj! {"case" => format!("{:?}", c), "observed_state_trace" => trace.iter().map(|x| J::U(*x as u64)).collect::<Vec<J>>()});
			}
		}
		Ok(Err(e)) => ctx.violation(stream, idx, &e, detail()),
		Err(p) => ctx.violation(stream, idx, &format!("panic: {}", p.first().map(|p| p.sig()).unwrap_or_default()), detail()),
	}
}

pub fn confirm(_key: &str) -> Option<Option<String>> {
	None
}
