//! C10 — decoder threads always end; decode errors stop the sound and reach the handle; a slow
//! decoder causes gaps of silence only. Level: fault enumeration (k-th decode / seek call) x scene x pace.

use std::sync::atomic::Ordering;
use std::sync::Arc;
use std::time::{Duration, Instant};

use kira::sound::streaming::{StreamingSoundData, StreamingSoundHandle, StreamingSoundSettings};
use kira::sound::{EndPosition, PlaybackPosition, PlaybackState, Region};
use kira::track::TrackBuilder;
use kira::{Frame, PlaySoundError, Tween};

use crate::hooks::DecState;
use crate::jobj;
use crate::probes::{DecoderObs, DecoderScript, ScriptedDecoder};
use crate::rig::Rig;
use crate::util::{Ctx, Rng, J};

#[derive(Clone, Copy, Debug, PartialEq)]
pub enum Scene {
	Main,
	SubTrack,
	/// played on a track that is already full: play() returns SoundLimitReached
	Rejected,
	PausedTrack,
	TrackDropped,
	ManagerDropped,
	HandleDropped,
	StoppedWithFade,
	NaturalEnd,
	/// the sound itself is paused (its track keeps processing it) when the decoder fails
	PausedSound,
	/// the sound waits for a clock that is never started when the decoder fails
	WaitingForClock,
	/// stop() written in the same callback interval as, and after, another playback command (pause / resume / resume_at):
	/// the sound has been stopped whichever order the audio side reads its command slots in
	StopAfterOtherCommand,
	/// seek_to / seek_by to a position at or past the end of the data while the sound plays (no loop): the sound ends, the
	/// decoder thread ends
	SeekPastEnd,
}

#[derive(Clone, Copy, Debug, PartialEq)]
pub enum Fault {
	None,
	Decode(u64),
	/// every decode call from the k-th on fails
	DecodeFrom(u64),
	Seek(u64),
}

#[derive(Clone, Debug)]
pub struct CaseSpec {
	pub scene: Scene,
	pub fault: Fault,
	pub len: usize,
	pub packet: usize,
	pub lp: Option<(usize, usize)>,
	pub slow_us: u64,
	pub stalled: bool,
	pub chunk: usize,
	/// callbacks before the life-cycle event (drop / stop)
	pub event_after: usize,
	/// number of reverb effects on the main track (makes callbacks long so that a slow decoder delivers
	/// frames while a chunk is being rendered)
	pub heavy_main: usize,
	/// start position in frames (0, or - without a loop - in the middle, exactly at the end, or past the end of the data)
	pub start: usize,
}

fn coded(len: usize) -> Arc<Vec<Frame>> {
	Arc::new((0..len).map(|i| Frame::new((i + 1) as f32 / 65536.0, -((i + 1) as f32) / 65536.0)).collect())
}

fn instant() -> Tween {
	Tween { duration: Duration::ZERO, ..Default::default() }
}

enum End {
	Ok,
	Inconclusive(String),
}

/// Decides "the decoder thread ended and released its decoder": Ok when the decoder's Drop is observed;
/// a violation when instead the decode loop is seen cycling (>= 300 further step/wait hook hits) with
/// nothing left to do; inconclusive if neither within the outer watchdog.
fn await_thread_end(obs: &DecoderObs, st: &DecState, why: &str) -> Result<End, String> {
	use std::sync::atomic::{AtomicBool, AtomicU64};
	let base = st.steps.load(Ordering::SeqCst) + st.waits.load(Ordering::SeqCst);
	let t0 = Instant::now();
	// reference thread: sleeps 1 ms at a time exactly like the decoder thread's wait loop; the number of sleeps it completed
	// measures how many chances to run a thread of that kind was given (a logical clock that scales with machine load)
	let quanta = Arc::new(AtomicU64::new(0));
	let done = Arc::new(AtomicBool::new(false));
	let (q2, d2) = (quanta.clone(), done.clone());
	let reference = std::thread::spawn(move || {
		while !d2.load(Ordering::SeqCst) {
			std::thread::sleep(Duration::from_millis(1));
			q2.fetch_add(1, Ordering::SeqCst);
		}
	});
	let res = loop {
		if obs.dropped.load(Ordering::SeqCst) {
			break Ok(End::Ok);
		}
		let now = st.steps.load(Ordering::SeqCst) + st.waits.load(Ordering::SeqCst);
		if now >= base + 300 {
			break Err(format!(
				"decoder thread still cycling ({} further decode-loop iterations, {} waits, {} errors) and its decoder not released although {}",
				now - base,
				st.waits.load(Ordering::SeqCst),
				st.errors.load(Ordering::SeqCst),
				why
			));
		}
		let q = quanta.load(Ordering::SeqCst);
		if q >= 1500 && now == base {
			break Err(format!("decoder thread neither ended nor looked at the sound's state while a reference thread completed {} sleeps of 1 ms (its own wait quantum): it is parked without polling, its decoder is not released although {}", q, why));
		}
		if t0.elapsed() > Duration::from_secs(20) {
			break Ok(End::Inconclusive(format!("no Drop within 20 s ({} reference quanta, {} loop iterations; {})", q, now - base, why)));
		}
		crate::monitors::bump();
		std::thread::sleep(Duration::from_micros(300));
	};
	done.store(true, Ordering::SeqCst);
	let _ = reference.join();
	res
}

pub struct Stats {
	pub starved_skips: u64,
	pub faults_reached: u64,
	pub threads_ended: u64,
	pub inconclusive: u64,
	pub callbacks: u64,
	pub late_error_notice_max: u64,
	pub resumes_after_gap: u64,
}

fn known_scene(s: Scene) -> Option<&'static str> {
	match s {
		Scene::Rejected => Some("C10.thread_leak_rejected_by_full_track"),
		Scene::TrackDropped => Some("C10.thread_leak_track_dropped"),
		Scene::ManagerDropped => Some("C10.thread_leak_manager_dropped"),
		_ => None,
	}
}

pub fn run_case(c: &CaseSpec, stats: &mut Stats, relax_starved_skip: bool) -> Result<(), String> {
	let sr = 48000u32;
	let frames = coded(c.len);
	let script = DecoderScript {
		sample_rate: sr,
		packets: vec![c.packet],
		seek_granularity: 1,
		fail_decode_at: if let Fault::Decode(k) = c.fault { Some(k) } else { None },
		fail_decode_from: if let Fault::DecodeFrom(k) = c.fault { Some(k) } else { None },
		fail_seek_at: if let Fault::Seek(k) = c.fault { Some(k) } else { None },
		decode_sleep_us: c.slow_us,
	};
	let (dec, obs) = ScriptedDecoder::new(frames.clone(), script);
	let mut settings = StreamingSoundSettings::new();
	if let Some((a, b)) = c.lp {
		settings = settings.loop_region(Region { start: PlaybackPosition::Samples(a), end: EndPosition::Custom(PlaybackPosition::Samples(b)) });
	}
	if c.start > 0 {
		settings = settings.start_position(PlaybackPosition::Samples(c.start));
	}
	let data = StreamingSoundData::from_decoder(dec).with_settings(settings);
	let mut rig = if c.heavy_main == 0 {
		Rig::simple(sr, 64)
	} else {
		let mut mb = kira::track::MainTrackBuilder::new();
		for _ in 0..c.heavy_main {
			mb = mb.with_effect(kira::effect::reverb::ReverbBuilder::new().mix(kira::Mix(0.0)));
		}
		Rig::new(crate::rig::RigConfig { sample_rate: sr, ibs: 1024, ..Default::default() }, mb)
	};
	rig.watch_alloc = true;
	if c.stalled {
		crate::hooks::gate_new_decoders(true);
	}
	// ---- play according to the scene
	let mut track = None;
	let mut _clock_keep = None;
	let mut handle: Option<StreamingSoundHandle<String>> = None;
	let play_res: Result<StreamingSoundHandle<String>, PlaySoundError<String>> = match c.scene {
		Scene::Main | Scene::ManagerDropped | Scene::HandleDropped | Scene::StoppedWithFade | Scene::NaturalEnd | Scene::PausedSound | Scene::StopAfterOtherCommand | Scene::SeekPastEnd => rig.mgr.play(data),
		Scene::WaitingForClock => {
			let clock = rig.mgr.add_clock(kira::clock::ClockSpeed::TicksPerSecond(10.0)).map_err(|_| "clock")?;
			let d = data.start_time(kira::StartTime::ClockTime(kira::clock::ClockTime::from_ticks_u64(clock.id(), 1)));
			_clock_keep = Some(clock);
			rig.mgr.play(d)
		}
		Scene::SubTrack | Scene::TrackDropped => {
			let mut t = rig.mgr.add_sub_track(TrackBuilder::new()).map_err(|_| "track")?;
			let r = t.play(data);
			track = Some(t);
			r
		}
		Scene::PausedTrack => {
			let mut t = rig.mgr.add_sub_track(TrackBuilder::new()).map_err(|_| "track")?;
			t.pause(instant());
			rig.callback(64);
			let r = t.play(data);
			track = Some(t);
			r
		}
		Scene::Rejected => {
			let mut t = rig.mgr.add_sub_track(TrackBuilder::new().sound_capacity(1)).map_err(|_| "track")?;
			let _keep = t.play(crate::probes::dc_sound(sr, 64, 0.1).loop_region(..)).map_err(|_| "first sound")?;
			let r = t.play(data);
			track = Some(t);
			r
		}
	};
	crate::hooks::gate_new_decoders(false);
	let st = crate::hooks::last_decoder();
	match play_res {
		Ok(h) => handle = Some(h),
		Err(PlaySoundError::SoundLimitReached) => {
			if c.scene != Scene::Rejected {
				return Err("unexpected SoundLimitReached".into());
			}
		}
		Err(PlaySoundError::IntoSoundError(e)) => {
			// seek failed while constructing: no sound, the decoder must be released, the error is returned
			if c.fault != Fault::Seek(1) {
				return Err(format!("into_sound failed unexpectedly: {}", e));
			}
			stats.faults_reached += 1;
			if !obs.dropped.load(Ordering::SeqCst) {
				return Err("construction-time seek error: the decoder was not released".into());
			}
			return Ok(());
		}
	}
	let st = match st {
		Some(s) => s,
		None => return Err("decoder scheduler hook (dec.new) not observed".into()),
	};
	// ---- rejected sound: nothing references the sound any more; its thread must end
	if c.scene == Scene::Rejected {
		st.release();
		return match await_thread_end(&obs, &st, "the sound was rejected by a full track")? {
			End::Ok => {
				stats.threads_ended += 1;
				Ok(())
			}
			End::Inconclusive(_) => {
				stats.inconclusive += 1;
				Ok(())
			}
		};
	}
	let mut h = handle.take().unwrap();
	// ---- run callbacks, monitoring the error protocol and the audio
	let mut last_idx: Option<i64> = None;
	let mut gap = false;
	let mut error_seen_at: Option<usize> = None;
	let mut stopped_at: Option<usize> = None;
	let mut popped: Vec<String> = vec![];
	let total_cb = (c.len / c.chunk + 6).min(600) + c.event_after;
	let mut event_done = false;
	let mut why_end = String::new();
	let mut mgr_dropped = false;
	let mut cb = 0;
	while cb < total_cb {
		// pace: a stalled decoder gets a few steps per callback
		if c.stalled {
			st.allow((c.chunk / 2) as i64);
		}
		if c.slow_us == 0 && !c.stalled && cb % 4 == 0 {
			let _ = st.wait_ahead(Duration::from_millis(50));
		}
		// life-cycle event
		if cb == c.event_after && !event_done {
			event_done = true;
			match c.scene {
				Scene::StoppedWithFade => h.stop(Tween { duration: Duration::from_millis(5), ..Default::default() }),
				Scene::PausedSound => h.pause(instant()),
				Scene::StopAfterOtherCommand => {
					match (c.len + c.packet) % 3 {
						0 => h.pause(instant()),
						1 => h.resume(instant()),
						_ => h.resume_at(kira::StartTime::Delayed(Duration::from_secs(3600)), instant()),
					}
					h.stop(instant());
				}
				Scene::SeekPastEnd => match (c.len + c.packet) % 3 {
					0 => h.seek_to(c.len as f64 / sr as f64),
					1 => h.seek_to((c.len + 1000) as f64 / sr as f64),
					_ => h.seek_by((c.len + 5) as f64 / sr as f64),
				},
				Scene::TrackDropped => {
					track = None;
					why_end = "the sound's track was dropped".into();
				}
				Scene::ManagerDropped => {
					mgr_dropped = true;
					why_end = "the manager (and renderer) were dropped".into();
					break;
				}
				_ => {}
			}
		}
		let buf = rig.callback(c.chunk).to_vec();
		stats.callbacks += 1;
		if std::env::var("KVH_TRACE").is_ok() {
			let heard: Vec<i64> = buf.chunks(2).map(|f| if f[0] == 0.0 { -1 } else { (f[0] * 65536.0).round() as i64 - 1 }).collect();
			eprintln!("cb {} steps {} decode_calls {} heard {:?}", cb, st.steps.load(Ordering::SeqCst), obs.decode_calls.load(Ordering::SeqCst), heard);
		}
		if rig.alloc_events != 0 {
			return Err("allocation in audio callback while a streaming sound is playing".into());
		}
		// index-coded audio: non-silent indices strictly consecutive (modulo loop); across a gap of silence
		// playback continues from where it stopped to within a frame
		let fading = c.scene == Scene::StoppedWithFade && event_done;
		for f in buf.chunks(2) {
			if f[0] == 0.0 && f[1] == 0.0 {
				gap = true;
				continue;
			}
			if stopped_at.is_some() {
				return Err(format!("callback {}: audio after the sound was reported Stopped", cb));
			}
			if fading {
				continue;
			}
			let idx = (f[0] * 65536.0).round() as i64 - 1;
			if (f[0] * 65536.0 - (idx + 1) as f32).abs() > 1e-3 || f[1] != -f[0] || idx < 0 || idx >= c.len as i64 {
				return Err(format!("callback {}: output frame ({:e},{:e}) is not a frame of the stream (foreign or interpolated frame at rate 1)", cb, f[0], f[1]));
			}
			if let Some(p) = last_idx {
				let next = |p: i64| -> i64 {
					let mut w = p + 1;
					if let Some((a, b)) = c.lp {
						if w >= b as i64 {
							w = a as i64;
						}
					}
					w
				};
				let want = next(p);
				if gap {
					stats.resumes_after_gap += 1;
				}
				let ok = idx == want || (gap && idx == next(want));
				if !ok {
					// how far ahead (along the transport path) did playback resume?
					let mut w = want;
					let mut skipped = 0;
					while w != idx && skipped < 100_000 {
						w = next(w);
						skipped += 1;
					}
					let forward_skip_after_gap = gap && w == idx;
					if forward_skip_after_gap && relax_starved_skip && (c.stalled || c.slow_us > 0) {
						stats.starved_skips += 1;
					} else if forward_skip_after_gap {
						return Err(format!("callback {}: after a gap of silence playback resumed at stream frame {} but it stopped at frame {} ({} frames lost; 'continues from where it stopped to within a frame')", cb, idx, p, skipped));
					} else {
						return Err(format!("callback {}: heard stream frame {} after frame {} (expected {}): repeated, skipped or reordered frames", cb, idx, p, want));
					}
				}
			}
			last_idx = Some(idx);
			gap = false;
		}
		let state = h.state();
		if let Some(e) = h.pop_error() {
			popped.push(e);
		}
		let fault_hit = match c.fault {
			Fault::Decode(k) | Fault::DecodeFrom(k) => obs.decode_calls.load(Ordering::SeqCst) >= k,
			Fault::Seek(k) => obs.seek_calls.load(Ordering::SeqCst) >= k,
			Fault::None => false,
		};
		// the dec.error hook fires just before the decoder thread publishes the error and ends; the callbacks the property
		// grants are counted from the moment the thread has ended (its decoder dropped), i.e. the error is really published
		if fault_hit && error_seen_at.is_none() && st.errors.load(Ordering::SeqCst) > 0 && obs.dropped.load(Ordering::SeqCst) {
			error_seen_at = Some(cb);
		}
		if state == PlaybackState::Stopped && stopped_at.is_none() {
			stopped_at = Some(cb);
		}
		if let Some(e) = error_seen_at {
			// paused track: the sound is not processed, so the audio side cannot notice (checked separately)
			if c.scene != Scene::PausedTrack && cb >= e + 2 && stopped_at.is_none() {
				return Err(format!("decoder error observed at callback {} but the sound is still {:?} two callbacks later", e, state));
			}
		}
		if c.scene == Scene::StopAfterOtherCommand && event_done && cb >= c.event_after + 2 && stopped_at.is_none() {
			return Err(format!("{} and then stop(), written between the same two callbacks: the sound is {:?} three callbacks later (a sound that was stopped must become Stopped so that its decoder thread ends)", ["pause()", "resume()", "resume_at(in an hour)"][(c.len + c.packet) % 3], state));
		}
		if let Some(s) = stopped_at {
			if cb >= s + 2 {
				break;
			}
		}
		cb += 1;
	}
	// ---- verdicts
	if let Fault::Decode(_) | Fault::DecodeFrom(_) | Fault::Seek(_) = c.fault {
		let fault_hit = match c.fault {
			Fault::Decode(k) | Fault::DecodeFrom(k) => obs.decode_calls.load(Ordering::SeqCst) >= k,
			Fault::Seek(k) => obs.seek_calls.load(Ordering::SeqCst) >= k,
			Fault::None => false,
		};
		if fault_hit && st.errors.load(Ordering::SeqCst) > 0 {
			stats.faults_reached += 1;
			if let Some(e) = h.pop_error() {
				popped.push(e);
			}
			if c.scene != Scene::PausedTrack && !mgr_dropped && c.scene != Scene::TrackDropped {
				if stopped_at.is_none() {
					// the error may have occurred after the last callback of the loop (the dec.error hook fires just before the
					// decoder thread publishes the error): the property allows the next callbacks to notice it
					let mut extra = 0;
					while h.state() != PlaybackState::Stopped && extra < 200 {
						std::thread::sleep(std::time::Duration::from_millis(1));
						rig.callback(c.chunk);
						extra += 1;
					}
					let extra = extra as u64;
					if h.state() != PlaybackState::Stopped {
						return Err("decode/seek error occurred but the sound never became Stopped".into());
					}
					if extra > 3 {
						stats.late_error_notice_max = stats.late_error_notice_max.max(extra);
					}
					if let Some(e) = h.pop_error() {
						popped.push(e);
					}
				}
				let want = match c.fault {
					Fault::Decode(k) | Fault::DecodeFrom(k) => format!("injected decode error at call {}", k),
					Fault::Seek(k) => format!("injected seek error at call {}", k),
					Fault::None => String::new(),
				};
				// the dec.error hook fires just before the decoder thread publishes the error: when the sound was Stopped by a command
				// in the meantime nothing above has waited for the publication. The thread publishes, then ends (its decoder is
				// dropped): wait for that before judging an empty pop
				if popped.is_empty() {
					let mut k = 0;
					while !obs.dropped.load(Ordering::SeqCst) && k < 4000 {
						std::thread::sleep(Duration::from_millis(1));
						k += 1;
					}
					if let Some(e) = h.pop_error() {
						popped.push(e);
					}
				}
				if popped.first() != Some(&want) {
					return Err(format!("pop_error() returned {:?}, expected the first injected error {:?}", popped, want));
				}
				// Stopped sounds are unloaded at the next callback
				rig.callback(c.chunk);
				rig.callback(c.chunk);
				let unloaded = match (&track, c.scene) {
					(Some(t), _) => t.num_sounds() == 0,
					(None, _) => rig.mgr.main_track().num_sounds() == 0,
				};
				if !unloaded {
					return Err("sound that failed with a decoder error was not unloaded (num_sounds still counts it)".into());
				}
			}
			// busy spin: an erroring decode loop must not re-run without pause
			let errs = st.errors.load(Ordering::SeqCst);
			if errs > 2000 {
				return Err(format!("decode loop re-ran {} times after the error without sleeping (busy spin)", errs));
			}
		}
	}
	if mgr_dropped {
		drop(h);
		drop(track);
		drop(rig);
		st.release();
		return match await_thread_end(&obs, &st, &why_end)? {
			End::Ok => {
				stats.threads_ended += 1;
				Ok(())
			}
			End::Inconclusive(_) => {
				stats.inconclusive += 1;
				Ok(())
			}
		};
	}
	// make the ending condition true for the scenes that have not produced one yet
	let why = match c.scene {
		Scene::TrackDropped => "the sound's track was dropped".to_string(),
		Scene::PausedTrack => {
			if st.errors.load(Ordering::SeqCst) > 0 {
				// the audio side never processes the sound; the thread must not spin meanwhile
				std::thread::sleep(Duration::from_millis(20));
				let e1 = st.errors.load(Ordering::SeqCst);
				if e1 > 2000 {
					return Err(format!("decoder error on a paused track: the decode loop re-ran {} times without sleeping (busy spin)", e1));
				}
			}
			// resume so the sound can be processed and stopped
			if let Some(t) = track.as_mut() {
				t.resume(instant());
			}
			h.stop(instant());
			for _ in 0..4 {
				rig.callback(c.chunk);
			}
			"the sound was stopped".to_string()
		}
		_ => {
			if h.state() != PlaybackState::Stopped {
				if c.scene == Scene::HandleDropped {
					// let it play to its natural end (bounded: finite, non-looping) or stop it if looping
				}
				h.stop(instant());
				for _ in 0..4 {
					rig.callback(c.chunk);
				}
			}
			"the sound is Stopped".to_string()
		}
	};
	if c.scene != Scene::TrackDropped && h.state() != PlaybackState::Stopped {
		return Err(format!("sound not Stopped after stop + 4 callbacks: {:?}", h.state()));
	}
	st.release();
	match await_thread_end(&obs, &st, &why)? {
		End::Ok => stats.threads_ended += 1,
		End::Inconclusive(_) => stats.inconclusive += 1,
	}
	if obs.dropped_in_callback.load(Ordering::SeqCst) {
		return Err("decoder destroyed inside an audio callback".into());
	}
	Ok(())
}

/// The library's own decoder (symphonia) on a WAV file whose data ends before the frame count its header announces (a truncated
/// download): whatever the decoder makes of the premature end, the sound must end - Stopped within a bounded number of callbacks -
/// and the decoder thread must end and release the file. A resume_at on a clock that is then removed likewise: the waiting
/// sound becomes Stopped (also for the handle) and its thread ends.
fn file_backed_case(r: &mut Rng, stats: &mut Stats) -> Result<(), String> {
	use crate::props::c18::{encode_wav, Fmt, Smp, WavSpec};
	struct DropBytes(Vec<u8>, Arc<DecoderObs>);
	impl AsRef<[u8]> for DropBytes {
		fn as_ref(&self) -> &[u8] {
			&self.0
		}
	}
	impl Drop for DropBytes {
		fn drop(&mut self) {
			self.1.dropped.store(true, Ordering::SeqCst);
		}
	}
	let sr = 8000u32;
	let n = r.usize_in(600, 6000);
	let spec = WavSpec { fmt: Fmt::I16, channels: if r.chance(0.5) { 1 } else { 2 }, rate: sr, extensible: false, junk_before: None, junk_after: false, fact: false };
	let mut bytes = encode_wav(&spec, n, &mut |i, _| Smp::Int((i % 2000) as i64 + 1));
	let clock_variant = r.chance(0.4);
	let cut = if clock_variant { bytes.len() } else { bytes.len() - r.usize_in(1, bytes.len() / 2) };
	bytes.truncate(cut);
	let obs = Arc::new(DecoderObs::default());
	let data = match StreamingSoundData::from_cursor(std::io::Cursor::new(DropBytes(bytes, obs.clone()))) {
		Ok(d) => d,
		// refusing the file outright is fine: nothing was started
		Err(_) => return Ok(()),
	};
	let mut rig = Rig::simple(sr, 64);
	let mut h = match rig.mgr.play(data) {
		Ok(h) => h,
		Err(_) => return Ok(()),
	};
	let st = crate::hooks::last_decoder().ok_or("decoder hook not observed")?;
	let why;
	if clock_variant {
		let clock = rig.mgr.add_clock(kira::clock::ClockSpeed::TicksPerSecond(1.0)).map_err(|_| "clock")?;
		rig.callback(64);
		h.pause(instant());
		rig.callback(64);
		rig.callback(64);
		h.resume_at(kira::StartTime::ClockTime(kira::clock::ClockTime::from_ticks_u64(clock.id(), 1000)), instant());
		rig.callback(64);
		drop(clock);
		for _ in 0..4 {
			rig.callback(64);
		}
		stats.callbacks += 8;
		if h.state() != PlaybackState::Stopped {
			return Err(format!("file-backed streaming sound, paused, resume_at a clock time, the clock then removed: four callbacks later the handle reports {:?}, expected Stopped (the sound can never resume; its decoder thread has to end)", h.state()));
		}
		why = "the sound waited for a clock that was removed (Stopped)";
	} else {
		let mut stopped = false;
		for _ in 0..(n / 64 + 40) {
			rig.callback(64);
			stats.callbacks += 1;
			if h.state() == PlaybackState::Stopped {
				stopped = true;
				break;
			}
			std::thread::sleep(Duration::from_micros(200));
		}
		if !stopped {
			// a decoder thread that hangs on the truncated data starves the sound for ever: tell hanging from slow with the
			// reference-thread clock of await_thread_end (the sound is stopped by hand first, so the thread has every reason to end)
			h.stop(instant());
			for _ in 0..4 {
				rig.callback(64);
			}
		}
		why = "the file ended early and the sound is Stopped";
	}
	st.release();
	match await_thread_end(&obs, &st, why)? {
		End::Ok => stats.threads_ended += 1,
		End::Inconclusive(_) => stats.inconclusive += 1,
	}
	Ok(())
}

fn gen_case(r: &mut Rng, exhaustive_k: Option<(Fault, Scene)>) -> CaseSpec {
	// some streams are longer than the 16384-frame ring, so the decoder thread is idle (ring full) when the sound ends early
	let long = r.chance(0.15);
	let empty = r.chance(0.03);
	let len = if long { r.usize_in(17000, 40000) } else if empty { 0 } else { r.usize_in(1, 3000) };
	let packet = if long { *r.pick(&[500usize, 4096]) } else { *r.pick(&[1usize, 7, 64, 500, 4096]) };
	let lp = if r.chance(0.3) && len > 2 {
		let a = r.below(len as u64 - 1) as usize;
		Some((a, r.usize_in(a + 1, len)))
	} else {
		None
	};
	let scene = exhaustive_k.map(|x| x.1).unwrap_or_else(|| *r.pick(&[Scene::Main, Scene::SubTrack, Scene::Rejected, Scene::PausedTrack, Scene::TrackDropped, Scene::ManagerDropped, Scene::HandleDropped, Scene::StoppedWithFade, Scene::NaturalEnd, Scene::PausedSound, Scene::WaitingForClock, Scene::StopAfterOtherCommand, Scene::SeekPastEnd]));
	// (a seek past the end of a looping sound wraps into the loop instead of ending the sound)
	let lp = if scene == Scene::SeekPastEnd { None } else { lp };
	let fault = exhaustive_k.map(|x| x.0).unwrap_or_else(|| match r.below(4) {
		0 => Fault::None,
		1 => Fault::Decode(1 + r.below((len / packet + 2) as u64)),
		2 => Fault::DecodeFrom(1 + r.below((len / packet + 2) as u64)),
		_ => Fault::Seek(1 + r.below(3)),
	});
	let pace = if long { 0 } else { r.below(4) };
	CaseSpec {
		scene,
		fault,
		len,
		packet,
		lp,
		slow_us: if pace == 1 { 300 } else { 0 },
		stalled: pace == 2,
		chunk: *r.pick(&[16usize, 64, 200]),
		event_after: if scene == Scene::PausedSound && r.chance(0.6) { 0 } else { r.usize_in(0, 6) },
		heavy_main: if pace == 1 && r.chance(0.5) { 4 } else { 0 },
		start: if lp.is_none() && r.chance(0.15) { *r.pick(&[len / 2, len, len + 1, len + 1000]) } else { 0 },
	}
}

pub fn run(ctx: &mut Ctx) {
	let mut stats = Stats { starved_skips: 0, faults_reached: 0, threads_ended: 0, inconclusive: 0, callbacks: 0, late_error_notice_max: 0, resumes_after_gap: 0 };
	let mut run_one = |ctx: &mut Ctx, stream: &str, idx: u64, c: CaseSpec, stats: &mut Stats| {
		if let Some(k) = known_scene(c.scene) {
			if ctx.known(k) {
				ctx.exclude(k);
				return;
			}
		}
		if c.scene == Scene::PausedTrack && c.fault != Fault::None && ctx.known("C10.error_loop_spins_when_not_processed") {
			ctx.exclude("C10.error_loop_spins_when_not_processed");
			return;
		}
		ctx.eval();
		crate::monitors::set_current(ctx, stream, idx, &format!("{:?}", c), false);
		let before = stats.faults_reached;
		let relax = ctx.known("C10.starved_stream_drops_frames");
		let res = super::guarded(|| run_case(&c, stats, relax));
		crate::monitors::clear_current();
		crate::hooks::release_all();
		let detail = jobj! {"case" => format!("{:?}", c)};
		match res {
			Ok(Ok(())) => {}
			Ok(Err(e)) => ctx.violation(stream, idx, &format!("{:?}/{:?}: {}", c.scene, c.fault, e), detail.clone()),
			Err(p) => ctx.violation(stream, idx, &format!("panic: {}", p.first().map(|p| p.sig()).unwrap_or_default()), detail.clone()),
		}
		let reached = stats.faults_reached > before;
		if reached || c.fault == Fault::None {
			ctx.distinct_str(&format!("{:?}|{:?}|{}|{}|{}", c.scene, c.fault, c.stalled, c.slow_us > 0, c.lp.is_some()));
		}
		if ctx.want_sample() && idx % 31 == 0 {
			ctx.sample(detail);
		}
		if idx % 256 == 0 {
			crate::hooks::prune();
		}
	};
	// 1. exhaustive fault positions for short streams: every decode call k and seek call k, in the main scenes
	let max_k = ctx.t(12u64, 64u64);
	let mut idx = 0u64;
	for scene in [Scene::Main, Scene::SubTrack, Scene::PausedTrack, Scene::StoppedWithFade] {
		for k in 1..=max_k {
			for fault in [Fault::Decode(k), Fault::DecodeFrom(k), Fault::Seek(k.min(4))] {
				if let Fault::Seek(_) = fault {
					if k > 4 {
						continue;
					}
				}
				if ctx.owns("enum", idx) {
					let mut r = Rng::for_case(ctx.seed, 1001, idx);
					let mut c = gen_case(&mut r, Some((fault, scene)));
					// a stream short enough that the k-th call is actually made: k packets
					c.packet = *r.pick(&[1usize, 5, 32]);
					c.len = (k as usize + 2) * c.packet + r.usize_in(0, c.packet);
					if let Fault::Seek(_) = fault {
						// seeks after construction happen on loop wraps
						c.lp = Some((0, c.len.max(2) / 2 + 1));
						c.len = c.len.max(4);
						c.lp = Some((0, c.len / 2));
					} else {
						c.lp = None;
					}
					c.stalled = false;
					c.slow_us = 0;
					run_one(ctx, "enum", idx, c, &mut stats);
				}
				idx += 1;
			}
		}
	}
	ctx.count("exhaustive_fault_positions", idx);
	// 2. random scene x pace x fault
	let n = ctx.t(1_500u64, 100_000u64);
	for i in 0..n {
		if !ctx.owns("rand", i) {
			continue;
		}
		if !ctx.replaying() && !ctx.time_left(0.9) {
			ctx.note("time budget reached before the case limit");
			break;
		}
		let mut r = Rng::for_case(ctx.seed, 1002, i);
		let c = gen_case(&mut r, None);
		run_one(ctx, "rand", i, c, &mut stats);
	}
	// 3. the library's own decoder on truncated files; a waiting sound whose clock is removed
	let nf = ctx.t(200u64, 20_000u64);
	let mut file_cases = 0u64;
	for i in 0..nf {
		if !ctx.owns("file", i) {
			continue;
		}
		if !ctx.replaying() && !ctx.time_left(0.97) {
			break;
		}
		let mut r = Rng::for_case(ctx.seed, 1003, i);
		ctx.eval();
		crate::monitors::set_current(ctx, "file", i, "file-backed streaming sound", false);
		let res = super::guarded(|| file_backed_case(&mut r, &mut stats));
		crate::monitors::clear_current();
		crate::hooks::release_all();
		match res {
			Ok(Ok(())) => {
				file_cases += 1;
				ctx.distinct_key(0xC10_0003_0000 | (i % 16));
			}
			Ok(Err(e)) => ctx.violation("file", i, &e, J::Null),
			Err(p) => ctx.violation("file", i, &format!("panic: {}", p.first().map(|p| p.sig()).unwrap_or_default()), J::Null),
		}
	}
	ctx.count("file_backed_cases", file_cases);
	ctx.count("faults_actually_reached", stats.faults_reached);
	ctx.count("decoder_threads_observed_ending", stats.threads_ended);
	ctx.count("callbacks", stats.callbacks);
	ctx.count("starved_resume_skips_tolerated_as_known_finding", stats.starved_skips);
	ctx.count("resumes_after_a_gap_of_silence_judged", stats.resumes_after_gap);
	ctx.maxf("callbacks_until_a_late_error_was_noticed_max", stats.late_error_notice_max as f64);
	ctx.inconclusive += stats.inconclusive;
	let _ = J::Null;
}

fn confirm_scene(scene: Scene, fault: Fault) -> Option<String> {
	let c = CaseSpec { scene, fault, len: 40000, packet: 512, lp: None, slow_us: 0, stalled: false, chunk: 64, event_after: 2, heavy_main: 0, start: 0 };
	let mut stats = Stats { starved_skips: 0, faults_reached: 0, threads_ended: 0, inconclusive: 0, callbacks: 0, late_error_notice_max: 0, resumes_after_gap: 0 };
	match super::guarded(|| run_case(&c, &mut stats, false)) {
		Ok(Ok(())) => None,
		Ok(Err(e)) => Some(e),
		Err(p) => Some(format!("panic: {}", p.first().map(|p| p.sig()).unwrap_or_default())),
	}
}

pub fn confirm(key: &str) -> Option<Option<String>> {
	match key {
		"C10.thread_leak_rejected_by_full_track" => Some(confirm_scene(Scene::Rejected, Fault::None)),
		"C10.thread_leak_track_dropped" => Some(confirm_scene(Scene::TrackDropped, Fault::None)),
		"C10.thread_leak_manager_dropped" => Some(confirm_scene(Scene::ManagerDropped, Fault::None)),
		"C10.error_loop_spins_when_not_processed" => Some(confirm_scene(Scene::PausedTrack, Fault::DecodeFrom(2))),
		"C10.starved_stream_drops_frames" => {
			// timing dependent (frames must trickle in while a starved chunk is being rendered): several attempts
			for attempt in 0..20u64 {
				// a slow decoder (one frame per ~60 us) and callbacks long enough (reverbs on the main track,
				// fully dry so the coded frames are unchanged) that frames arrive while a starved chunk is rendered
				let c = CaseSpec { scene: Scene::Main, fault: Fault::None, len: 3000, packet: 1, lp: None, slow_us: 20, stalled: false, chunk: 1024, event_after: 1000, heavy_main: 6 + (attempt as usize % 3), start: 0 };
				let mut stats = Stats { starved_skips: 0, faults_reached: 0, threads_ended: 0, inconclusive: 0, callbacks: 0, late_error_notice_max: 0, resumes_after_gap: 0 };
				let r = super::guarded(|| run_case(&c, &mut stats, false));
				crate::hooks::release_all();
				if let Ok(Err(e)) = r {
					if e.contains("frames lost") {
						return Some(Some(format!("starving decoder: {}", e)));
					}
				}
			}
			Some(None)
		}
		_ => None,
	}
}
