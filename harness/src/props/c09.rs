//! C09 — a streaming sound behaves exactly like a static sound of the same audio
//! (differential, lock-step; the decoder is kept ahead through the dec.* hooks).

use std::sync::Arc;
use std::time::Duration;

use kira::info::MockInfoBuilder;
use kira::sound::static_sound::{StaticSoundData, StaticSoundSettings};
use kira::sound::streaming::{StreamingSoundData, StreamingSoundSettings};
use kira::sound::{EndPosition, PlaybackPosition, PlaybackState, Region, SoundData};
use kira::{Decibels, Frame, Panning, PlaybackRate, StartTime, Tween};

use crate::jobj;
use crate::probes::{DecoderScript, ScriptedDecoder};
use crate::props::c06::gen_easing;
use crate::util::{Ctx, Rng, J};

#[derive(Clone, Debug)]
pub struct PairSpec {
	pub len: usize,
	pub sr: u32,
	pub dev_sr: u32,
	pub slice: Option<(usize, usize)>,
	pub start: usize,
	pub lp: Option<(usize, usize)>,
	pub rate: f64,
	pub vol_db: f32,
	pub pan: f32,
	pub fade_in: Option<f64>,
	pub delay_start: Option<f64>,
	pub packets: Vec<usize>,
	pub seek_gran: usize,
	pub chunk: usize,
	pub seed: u64,
	/// both sounds are made from the bytes of a WAV file (the library's own decoder on the streaming side) instead of a frame
	/// buffer and a scripted decoder
	pub file_backed: bool,
	/// the loop region is not a setting: both handles are given it (set_loop_region) before the first callback. The loop end
	/// lies more than one decoder ring (16 384 frames) past the start position, so nothing decoded before the decoder thread
	/// has read the command depends on it and the two sounds stay comparable
	pub lp_by_handle: bool,
}

#[derive(Clone, Debug)]
pub enum Cmd {
	Volume(f32, f64),
	Panning(f32, f64),
	Rate(f64, f64),
	Pause(f64),
	Resume(f64),
	ResumeDelayed(f64, f64),
	Stop(f64),
}

fn tween(d: f64, r: &mut Rng) -> Tween {
	Tween { start_time: StartTime::Immediate, duration: Duration::from_secs_f64(d), easing: gen_easing(r) }
}

pub fn gen_pair(r: &mut Rng, quick: bool) -> PairSpec {
	let len = match r.below(10) {
		0 => r.usize_in(0, 3),
		1..=5 => r.usize_in(4, 3000),
		6 | 7 => r.usize_in(3000, 16000),
		_ => r.usize_in(16000, if quick { 24000 } else { 40000 }),
	};
	let slice = if len > 0 && r.chance(0.4) {
		let s = r.below(len as u64) as usize;
		Some((s, if r.chance(0.3) { len } else { r.usize_in(s, len) }))
	} else {
		None
	};
	let l = slice.map(|(s, e)| e - s).unwrap_or(len);
	let lp = if l > 0 && r.chance(0.45) {
		let a = r.below(l as u64) as usize;
		let to_end = r.chance(0.3);
		Some((a, if to_end { l } else { r.usize_in(a + 1, l) }))
	} else {
		None
	};
	let sr = *r.pick(&[8000u32, 22050, 44100, 48000]);
	let packets = match r.below(5) {
		0 => vec![1],
		1 => vec![r.usize_in(1, 4096)],
		2 => (0..5).map(|_| r.usize_in(1, 700)).collect(),
		3 => vec![1024],
		_ => vec![4096, 1, 333],
	};
	if r.chance(0.05) {
		// a long (usually sliced) sound whose loop region arrives through the handles
		let len = r.usize_in(20_000, 26_000);
		let slice = if r.chance(0.75) {
			let s0 = r.usize_in(0, 1500);
			Some((s0, if r.chance(0.4) { len } else { len - r.usize_in(1, 1500) }))
		} else {
			None
		};
		let l = slice.map(|(s, e)| e - s).unwrap_or(len);
		let start = r.usize_in(0, l - 16_384 - 400);
		let a = r.below((l / 2) as u64) as usize;
		let b = if r.chance(0.7) { l } else { r.usize_in(start + 16_384 + 200, l) };
		return PairSpec { len, sr, dev_sr: sr, slice, start, lp: Some((a, b)), rate: 1.0, vol_db: 0.0, pan: 0.0, fade_in: None, delay_start: None, packets, seek_gran: *r.pick(&[1usize, 8, 1000]), chunk: *r.pick(&[333usize, 512]), seed: r.next(), file_backed: r.chance(0.3), lp_by_handle: true };
	}
	if len > 17000 && slice.is_none() && r.chance(0.35) {
		// callbacks whose size divides 16383 = 3 x 43 x 127: one of them begins exactly when the 16384-slot ring between the
		// decoder thread and the sound wraps (rate 1, device at the sound's rate, so one output frame consumes one ring slot)
		return PairSpec { len, sr, dev_sr: sr, slice: None, start: 0, lp, rate: 1.0, vol_db: 0.0, pan: 0.0, fade_in: None, delay_start: None, packets, seek_gran: 1, chunk: *r.pick(&[381usize, 5461]), seed: r.next(), file_backed: false, lp_by_handle: false };
	}
	PairSpec {
		len,
		sr,
		dev_sr: if r.chance(0.6) { sr } else { *r.pick(&[44100u32, 48000, 96000]) },
		slice,
		start: if l > 0 && r.chance(0.4) { r.below(l as u64) as usize } else { 0 },
		lp,
		rate: match r.below(6) {
			0 | 1 | 2 => 1.0,
			3 => 0.0,
			_ => r.f64_in(0.1, 4.0),
		},
		vol_db: if r.chance(0.5) { 0.0 } else { r.f32_in(-30.0, 6.0) },
		pan: if r.chance(0.5) { 0.0 } else { r.f32_in(-1.0, 1.0) },
		fade_in: if r.chance(0.2) { Some(r.f64_in(0.0, 0.05)) } else { None },
		delay_start: if r.chance(0.15) { Some(r.f64_in(0.0, 0.02)) } else { None },
		packets,
		seek_gran: *r.pick(&[1usize, 1, 8, 64, 1000, 4096]),
		chunk: *r.pick(&[1usize, 16, 64, 128, 512, 333]),
		seed: r.next(),
		file_backed: len > 0 && r.chance(0.12),
		lp_by_handle: false,
	}
}

fn region(a: usize, b: usize) -> Region {
	Region { start: PlaybackPosition::Samples(a), end: EndPosition::Custom(PlaybackPosition::Samples(b)) }
}

pub struct Outcome {
	pub callbacks: u64,
	pub frames: u64,
	pub nonsilent: u64,
	pub inconclusive: bool,
}

/// Runs one lock-step pair; Err(description) on divergence.
pub fn run_pair(p: &PairSpec, r: &mut Rng, n_callbacks: usize) -> Result<Outcome, String> {
	let frames: Arc<Vec<Frame>> = Arc::new(crate::probes::noise_frames(p.seed, p.len, 0.5));
	let fade = p.fade_in.map(|d| tween(d, r));
	let start_time = p.delay_start.map(|d| StartTime::Delayed(Duration::from_secs_f64(d))).unwrap_or(StartTime::Immediate);
	// static
	let mut sst = StaticSoundSettings::new()
		.start_position(PlaybackPosition::Samples(p.start))
		.playback_rate(PlaybackRate(p.rate))
		.volume(Decibels(p.vol_db))
		.panning(Panning(p.pan))
		.start_time(start_time)
		.fade_in_tween(fade);
	let mut dst = StreamingSoundSettings::new()
		.start_position(PlaybackPosition::Samples(p.start))
		.playback_rate(PlaybackRate(p.rate))
		.volume(Decibels(p.vol_db))
		.panning(Panning(p.pan))
		.start_time(start_time)
		.fade_in_tween(fade);
	if let (Some((a, b)), false) = (p.lp, p.lp_by_handle) {
		sst = sst.loop_region(region(a, b));
		dst = dst.loop_region(region(a, b));
	}
	if p.file_backed {
		// 16-bit stereo WAV of the same noise; both sides read the same bytes
		use crate::props::c18::{encode_wav, Fmt, Smp, WavSpec};
		let spec = WavSpec { fmt: Fmt::I16, channels: 2, rate: p.sr, extensible: false, junk_before: None, junk_after: false, fact: false };
		let bytes = encode_wav(&spec, p.len, &mut |i, c| Smp::Int(((if c == 0 { frames[i].left } else { frames[i].right }) * 32767.0).round() as i64));
		let mut sdata = StaticSoundData::from_cursor(std::io::Cursor::new(bytes.clone())).map_err(|e| format!("the WAV file does not load: {}", e))?.with_settings(sst);
		let mut ddata = StreamingSoundData::from_cursor(std::io::Cursor::new(bytes)).map_err(|e| format!("the WAV file does not stream: {}", e))?.with_settings(dst);
		if let Some((a, b)) = p.slice {
			sdata = sdata.slice(region(a, b));
			ddata = ddata.slice(region(a, b));
		}
		return lockstep(p, r, n_callbacks, sdata, ddata);
	}
	let sdata = StaticSoundData { sample_rate: p.sr, frames: frames.as_slice().into(), settings: sst, slice: p.slice };
	let (dec, _obs) = ScriptedDecoder::new(frames.clone(), DecoderScript { sample_rate: p.sr, packets: p.packets.clone(), seek_granularity: p.seek_gran, ..Default::default() });
	let mut ddata = StreamingSoundData::from_decoder(dec).with_settings(dst);
	if let Some((a, b)) = p.slice {
		// (given directly, or by a second `.slice()` replacing an earlier one - open-ended when it ends at the end of the data)
		ddata = match (a + b + p.len) % 3 {
			0 => ddata.slice(region(a, b)),
			1 => ddata.slice(region(a / 2, b / 2 + 1)).slice(region(a, b)),
			_ if b == p.len => ddata.slice(region(a / 2, b / 2 + 1)).slice(Region { start: PlaybackPosition::Samples(a), end: EndPosition::EndOfAudio }),
			_ => ddata.slice(region(b / 3, b)).slice(region(a, b)),
		};
	}
	lockstep(p, r, n_callbacks, sdata, ddata)
}

fn lockstep<E: Send + 'static + std::fmt::Display>(p: &PairSpec, r: &mut Rng, n_callbacks: usize, sdata: StaticSoundData, ddata: StreamingSoundData<E>) -> Result<Outcome, String> {
	let (mut ssound, mut sh) = sdata.into_sound().map_err(|_| "static into_sound failed".to_string())?;
	let (mut dsound, mut dh) = ddata.into_sound().map_err(|e| format!("streaming into_sound failed: {}", e))?;
	let dec_state = crate::hooks::last_decoder().ok_or("decoder hook not observed")?;
	if let (Some((a, b)), true) = (p.lp, p.lp_by_handle) {
		let l = p.slice.map(|(s, e)| e - s).unwrap_or(p.len);
		// (a region that runs to the end of the sound is given open-ended)
		let reg = if b == l { Region { start: PlaybackPosition::Samples(a), end: EndPosition::EndOfAudio } } else { region(a, b) };
		sh.set_loop_region(reg);
		dh.set_loop_region(reg);
	}
	let info = MockInfoBuilder::new().build();
	let dt = 1.0 / p.dev_sr as f64;
	let mut so = vec![Frame::ZERO; p.chunk];
	let mut dout = vec![Frame::ZERO; p.chunk];
	let l = p.slice.map(|(s, e)| e - s).unwrap_or(p.len) as f64;
	let mut out = Outcome { callbacks: 0, frames: 0, nonsilent: 0, inconclusive: false };
	let mut history: Vec<String> = vec![];
	let mut result: Result<(), String> = Ok(());
	let mut both_stopped = false;
	for cb in 0..n_callbacks {
		// same command history on both handles (no seeks)
		if r.chance(0.12) {
			let d = if r.chance(0.3) { 0.0 } else { r.f64_in(0.0, 0.03) };
			let c = match r.below(8) {
				0 | 1 => Cmd::Volume(r.f32_in(-40.0, 6.0), d),
				2 => Cmd::Panning(r.f32_in(-1.0, 1.0), d),
				3 => Cmd::Rate(if r.chance(0.2) { 0.0 } else { r.f64_in(0.0, 3.0) }, d),
				4 => Cmd::Pause(d),
				5 => Cmd::Resume(d),
				6 => Cmd::ResumeDelayed(r.f64_in(0.0, 0.01), d),
				_ => {
					if r.chance(0.3) {
						Cmd::Stop(d)
					} else {
						Cmd::Pause(d)
					}
				}
			};
			history.push(format!("cb{}:{:?}", cb, c));
			let mut tr = r.clone();
			let t1 = |d: f64, rr: &mut Rng| tween(d, rr);
			match c {
				Cmd::Volume(v, d) => {
					let t = t1(d, &mut tr);
					sh.set_volume(Decibels(v), t);
					dh.set_volume(Decibels(v), t);
				}
				Cmd::Panning(v, d) => {
					let t = t1(d, &mut tr);
					sh.set_panning(Panning(v), t);
					dh.set_panning(Panning(v), t);
				}
				Cmd::Rate(v, d) => {
					let t = t1(d, &mut tr);
					sh.set_playback_rate(PlaybackRate(v), t);
					dh.set_playback_rate(PlaybackRate(v), t);
				}
				Cmd::Pause(d) => {
					let t = t1(d, &mut tr);
					sh.pause(t);
					dh.pause(t);
				}
				Cmd::Resume(d) => {
					let t = t1(d, &mut tr);
					sh.resume(t);
					dh.resume(t);
				}
				Cmd::ResumeDelayed(w, d) => {
					let t = t1(d, &mut tr);
					sh.resume_at(StartTime::Delayed(Duration::from_secs_f64(w)), t);
					dh.resume_at(StartTime::Delayed(Duration::from_secs_f64(w)), t);
				}
				Cmd::Stop(d) => {
					let t = t1(d, &mut tr);
					sh.stop(t);
					dh.stop(t);
				}
			}
		}
		// "a decoder that keeps ahead of playback": wait (logically) until the ring is full or the decoder ended
		if !dec_state.wait_ahead(Duration::from_secs(5)) {
			out.inconclusive = true;
			break;
		}
		ssound.on_start_processing();
		dsound.on_start_processing();
		ssound.process(&mut so, dt, &info);
		dsound.process(&mut dout, dt, &info);
		crate::monitors::bump();
		out.callbacks += 1;
		out.frames += p.chunk as u64;
		let (ss, ds) = (sh.state(), dh.state());
		for i in 0..p.chunk {
			let (a, b) = (so[i], dout[i]);
			if a.left != 0.0 || a.right != 0.0 {
				out.nonsilent += 1;
			}
			let tol = 1e-6 * (a.left.abs().max(a.right.abs()).max(0.5));
			if (a.left - b.left).abs() > tol || (a.right - b.right).abs() > tol || !b.left.is_finite() {
				result = Err(format!("callback {} frame {}: static ({:e},{:e}) vs streaming ({:e},{:e}) [{}]", cb, i, a.left, a.right, b.left, b.right, history.join(" ")));
				break;
			}
		}
		if result.is_err() {
			break;
		}
		if ss != ds {
			result = Err(format!("callback {}: static state {:?} vs streaming state {:?} [{}]", cb, ss, ds, history.join(" ")));
			break;
		}
		if ss != PlaybackState::Stopped {
			// positions within one frame, measured along the transport path (cyclic inside a loop)
			let (sp, dp) = (sh.position() * p.sr as f64, dh.position() * p.sr as f64);
			let mut d = (sp - dp).abs();
			if let Some((a, b)) = p.lp {
				let len = (b - a) as f64;
				d = d.min((d - len).abs());
			}
			let _ = l;
			if d > 1.0 + 1e-6 {
				result = Err(format!("callback {}: reported positions differ by {:.3} frames (static {:.3}, streaming {:.3}) [{}]", cb, d, sp, dp, history.join(" ")));
				break;
			}
		} else {
			both_stopped = true;
			break;
		}
	}
	// teardown: make sure the decoder thread can end (stop both, run callbacks until Stopped)
	if !both_stopped {
		let t = Tween { duration: Duration::ZERO, ..Default::default() };
		dh.stop(t);
		sh.stop(t);
		for _ in 0..4 {
			dsound.on_start_processing();
			dsound.process(&mut dout, dt, &info);
			if dh.state() == PlaybackState::Stopped {
				break;
			}
		}
	}
	result.map(|_| out)
}

pub fn run(ctx: &mut Ctx) {
	let n = ctx.t(5_000u64, 600_000u64);
	for i in 0..n {
		if !ctx.owns("pair", i) {
			continue;
		}
		if !ctx.replaying() && !ctx.time_left(0.9) {
			ctx.note("time budget reached before the case limit");
			break;
		}
		let mut r = Rng::for_case(ctx.seed, 901, i);
		let p = gen_pair(&mut r, ctx.quick());
		let step = p.sr as f64 * p.rate.max(0.05) / p.dev_sr as f64;
		let l = p.slice.map(|(s, e)| e - s).unwrap_or(p.len);
		let ncb = (((l as f64 / step) / p.chunk as f64) as usize + 8).clamp(10, if ctx.quick() { 120 } else { 400 });
		ctx.eval();
		crate::monitors::set_current(ctx, "pair", i, "streaming/static pair", false);
		let res = super::guarded(|| run_pair(&p, &mut r, ncb));
		crate::monitors::clear_current();
		let detail = || jobj! {"pair" => format!("{:?}", p)};
		match res {
			Ok(Ok(o)) => {
				ctx.count("callbacks_compared", o.callbacks);
				ctx.count("pairs_with_the_loop_region_given_through_the_handles", p.lp_by_handle as u64);
				ctx.count("frames_compared", o.frames);
				if o.inconclusive {
					ctx.inconclusive += 1;
					if ctx.inconclusive <= 3 {
						ctx.note(&format!("inconclusive (the decoder thread did not park, end or fail within 5 s of waiting): {:?}", p));
					}
				}
				if o.nonsilent > 0 {
					ctx.distinct_str(&format!("{:?}|{}|{}|{}|{}|{}", p.packets.len().min(3), p.seek_gran, p.lp.is_some(), p.slice.is_some(), (p.rate * 2.0) as i64, p.len > 16384));
				}
			}
			Ok(Err(e)) => ctx.violation("pair", i, &e, detail()),
			Err(pn) => ctx.violation("pair", i, &format!("panic: {}", pn.first().map(|p| p.sig()).unwrap_or_default()), detail()),
		}
		if ctx.want_sample() && i % 23 == 0 {
			ctx.sample(detail());
		}
		if i % 512 == 0 {
			crate::hooks::prune();
		}
	}
	let _ = J::Null;
}

pub fn confirm(_key: &str) -> Option<Option<String>> {
	None
}
