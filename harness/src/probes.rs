// probe Sound/Effect/Modulator/Decoder implementations
