//! Probe Sound/Effect/Modulator/Decoder implementations and sound-data helpers.

use std::sync::Arc;

use kira::sound::static_sound::{StaticSoundData, StaticSoundSettings};
use kira::Frame;

/// Static sound whose every frame is `value` on both channels.
pub fn dc_sound(sample_rate: u32, len: usize, value: f32) -> StaticSoundData {
	StaticSoundData {
		sample_rate,
		frames: (0..len).map(|_| Frame::from_mono(value)).collect::<Vec<_>>().into(),
		settings: StaticSoundSettings::default(),
		slice: None,
	}
}

/// Static sound whose frame i is (i+1, -(i+1)) * scale: the played index can be read off the output.
pub fn coded_sound(sample_rate: u32, len: usize, scale: f32) -> StaticSoundData {
	StaticSoundData {
		sample_rate,
		frames: (0..len)
			.map(|i| Frame::new((i + 1) as f32 * scale, -((i + 1) as f32) * scale))
			.collect::<Vec<_>>()
			.into(),
		settings: StaticSoundSettings::default(),
		slice: None,
	}
}

pub fn sound_from_frames(sample_rate: u32, frames: Vec<Frame>) -> StaticSoundData {
	StaticSoundData {
		sample_rate,
		frames: Arc::from(frames),
		settings: StaticSoundSettings::default(),
		slice: None,
	}
}

/// deterministic full-scale noise
pub fn noise_frames(seed: u64, len: usize, amp: f32) -> Vec<Frame> {
	let mut r = crate::util::Rng::new(seed);
	(0..len).map(|_| Frame::new(r.noise() * amp, r.noise() * amp)).collect()
}

// ---------------------------------------------------------------- effect specifications

use kira::effect::compressor::CompressorBuilder;
use kira::effect::delay::DelayBuilder;
use kira::effect::distortion::{DistortionBuilder, DistortionKind};
use kira::effect::eq_filter::{EqFilterBuilder, EqFilterKind};
use kira::effect::filter::{FilterBuilder, FilterMode};
use kira::effect::panning_control::PanningControlBuilder;
use kira::effect::reverb::ReverbBuilder;
use kira::effect::volume_control::VolumeControlBuilder;
use kira::effect::{Effect, EffectBuilder};
use kira::info::{Info, MockInfoBuilder};
use kira::{Decibels, Mix, Panning, Value};
use std::time::Duration;

use crate::util::Rng;

/// A built-in effect with fixed parameters; can build any number of fresh instances.
#[derive(Clone, Debug, PartialEq)]
pub enum FxSpec {
	Filter { mode: FilterMode, cutoff: f64, resonance: f64, mix: f32 },
	Eq { kind: EqFilterKind, freq: f64, gain_db: f32, q: f64 },
	Delay { time_s: f64, feedback_db: f32, mix: f32, inner: Vec<FxSpec> },
	Reverb { feedback: f64, damping: f64, width: f64, mix: f32 },
	Compressor { threshold: f64, ratio: f64, attack_s: f64, release_s: f64, makeup_db: f32, mix: f32 },
	Distortion { kind: DistortionKind, drive_db: f32, mix: f32 },
	Volume { db: f32 },
	Panning { p: f32 },
}

pub const SAMPLE_RATES: [u32; 8] = [8000, 11025, 22050, 44100, 48000, 88200, 96000, 192000];

fn edge_or(r: &mut Rng, edges: &[f64], lo: f64, hi: f64) -> f64 {
	if r.chance(0.3) {
		*r.pick(edges)
	} else {
		r.f64_in(lo, hi)
	}
}

impl FxSpec {
	pub fn kind_name(&self) -> &'static str {
		match self {
			FxSpec::Filter { .. } => "filter",
			FxSpec::Eq { .. } => "eq",
			FxSpec::Delay { .. } => "delay",
			FxSpec::Reverb { .. } => "reverb",
			FxSpec::Compressor { .. } => "compressor",
			FxSpec::Distortion { .. } => "distortion",
			FxSpec::Volume { .. } => "volume",
			FxSpec::Panning { .. } => "panning",
		}
	}

	pub fn build(&self) -> Box<dyn Effect> {
		match self.clone() {
			FxSpec::Filter { mode, cutoff, resonance, mix } => FilterBuilder::new().mode(mode).cutoff(cutoff).resonance(resonance).mix(Mix(mix)).build().0,
			FxSpec::Eq { kind, freq, gain_db, q } => EqFilterBuilder::new(kind, freq, Decibels(gain_db), q).build().0,
			FxSpec::Delay { time_s, feedback_db, mix, inner } => {
				let mut b = DelayBuilder::new().delay_time(Duration::from_secs_f64(time_s)).feedback(Decibels(feedback_db)).mix(Mix(mix));
				for i in inner {
					b = b.with_feedback_effect(BuiltFx(i.build()));
				}
				b.build().0
			}
			FxSpec::Reverb { feedback, damping, width, mix } => ReverbBuilder::new().feedback(feedback).damping(damping).stereo_width(width).mix(Mix(mix)).build().0,
			FxSpec::Compressor { threshold, ratio, attack_s, release_s, makeup_db, mix } => CompressorBuilder::new()
				.threshold(threshold)
				.ratio(ratio)
				.attack_duration(Duration::from_secs_f64(attack_s))
				.release_duration(Duration::from_secs_f64(release_s))
				.makeup_gain(Decibels(makeup_db))
				.mix(Mix(mix))
				.build()
				.0,
			FxSpec::Distortion { kind, drive_db, mix } => DistortionBuilder::new().kind(kind).drive(Decibels(drive_db)).mix(Mix(mix)).build().0,
			FxSpec::Volume { db } => VolumeControlBuilder::new(Decibels(db)).build().0,
			FxSpec::Panning { p } => PanningControlBuilder(Value::Fixed(Panning(p))).build().0,
		}
	}

	/// superposition and scaling are claimed for these
	pub fn linear(&self) -> bool {
		match self {
			FxSpec::Filter { .. } | FxSpec::Eq { .. } | FxSpec::Reverb { .. } | FxSpec::Volume { .. } | FxSpec::Panning { .. } => true,
			FxSpec::Delay { inner, .. } => inner.iter().all(|i| i.linear()),
			_ => false,
		}
	}

	pub fn recursive(&self) -> bool {
		!matches!(self, FxSpec::Volume { .. } | FxSpec::Panning { .. } | FxSpec::Distortion { .. })
	}

	/// The setting the property calls "fully dry" (or the neutral setting of effects without a mix).
	pub fn make_dry(&mut self) {
		match self {
			FxSpec::Filter { mix, .. } | FxSpec::Delay { mix, .. } | FxSpec::Reverb { mix, .. } | FxSpec::Compressor { mix, .. } | FxSpec::Distortion { mix, .. } => *mix = 0.0,
			FxSpec::Eq { gain_db, .. } => *gain_db = 0.0,
			FxSpec::Volume { db } => *db = 0.0,
			FxSpec::Panning { p } => *p = 0.0,
		}
	}

	/// Trigger classes of listed known findings (see known_findings.json)
	pub fn known_trigger(&self, sr: u32) -> Option<&'static str> {
		match self {
			FxSpec::Distortion { drive_db, .. } if *drive_db <= -60.0 => Some("C13.distortion_drive_silence"),
			FxSpec::Delay { time_s, inner, .. } => {
				// what kira computes: (Duration (ns-quantised) * sample rate) truncated to whole frames
				if (Duration::from_secs_f64(*time_s).as_secs_f64() * sr as f64) as usize == 0 {
					return Some("C13.delay_shorter_than_one_frame");
				}
				inner.iter().find_map(|i| i.known_trigger(sr))
			}
			_ => None,
		}
	}

	/// Conservative upper bound (dB) of the gain this effect can apply at any frequency; used to keep
	/// the loop gain of a delay's feedback path at or below unity (a loop gain above 0 dB grows without
	/// bound by construction; that is the user's setting, not a defect, and is not generated).
	pub fn gain_bound_db(&self) -> f64 {
		let lin = |db: f64| 10f64.powf(db / 20.0);
		let db = |x: f64| 20.0 * x.max(1e-12).log10();
		match self {
			FxSpec::Filter { resonance, mix, .. } => {
				let k = 2.0 - 1.9 * resonance.clamp(0.0, 1.0);
				let m = (*mix as f64).clamp(0.0, 1.0);
				db(m.sqrt() * (1.0 + 2.0 / k) + (1.0 - m).sqrt())
			}
			// high Q = resonant peak of about Q times the shelf/bell gain
			FxSpec::Eq { gain_db, q, .. } => (*gain_db as f64).abs().max(0.0) + db(1.0 + q.max(0.01)) + 6.0,
			FxSpec::Delay { feedback_db, mix, inner, .. } => {
				let inner_db: f64 = inner.iter().map(|i| i.gain_bound_db()).sum();
				let loop_gain = lin(*feedback_db as f64 + inner_db);
				let m = (*mix as f64).clamp(0.0, 1.0);
				if loop_gain >= 0.98 {
					200.0
				} else {
					db(m.sqrt() * lin(inner_db) / (1.0 - loop_gain) + (1.0 - m).sqrt())
				}
			}
			FxSpec::Reverb { feedback, mix, damping, .. } => {
				let m = (*mix as f64).clamp(0.0, 1.0);
				let fb = feedback.clamp(0.0, 0.999);
				let _ = damping;
				// 8 combs x input gain 0.015 x 2 channels summed, comb gain <= 1/(1-fb), 4 all-pass stages <= 3 each
				db(m.sqrt() * (8.0 * 0.03 / (1.0 - fb)) * 81.0 + (1.0 - m).sqrt())
			}
			FxSpec::Compressor { ratio, threshold, makeup_db, .. } => {
				let expand = if *ratio < 1.0 { (-threshold).max(0.0) * (1.0 / ratio - 1.0) } else { 0.0 };
				(*makeup_db as f64).max(0.0) + expand + 3.1
			}
			FxSpec::Distortion { .. } => 3.1,
			FxSpec::Volume { db: v } => (*v as f64).max(-200.0),
			FxSpec::Panning { .. } => 3.1,
		}
	}

	/// Random effect over domain D0 ∪ B of DESIGN.md §2.3.
	pub fn gen(r: &mut Rng, sr: u32, depth: u32) -> FxSpec {
		let nyq = sr as f64 / 2.0;
		let mix = |r: &mut Rng| edge_or(r, &[0.0, 1.0, 0.5, -0.5, 1.5], 0.0, 1.0) as f32;
		match r.below(if depth == 0 { 8 } else { 7 }) {
			0 => FxSpec::Filter {
				mode: *r.pick(&[FilterMode::LowPass, FilterMode::BandPass, FilterMode::HighPass, FilterMode::Notch]),
				cutoff: if r.chance(0.3) { *r.pick(&[1.0, 20.0, nyq, 2.0 * nyq, 20000.0, 0.0]) } else { r.log_in(1.0, 2.0 * nyq) },
				resonance: edge_or(r, &[0.0, 1.0, -0.5, 1.5], 0.0, 1.0),
				mix: mix(r),
			},
			1 => FxSpec::Eq {
				kind: *r.pick(&[EqFilterKind::Bell, EqFilterKind::LowShelf, EqFilterKind::HighShelf]),
				freq: if r.chance(0.3) { *r.pick(&[1.0, 20.0, nyq, 2.0 * nyq, 0.0]) } else { r.log_in(1.0, 2.0 * nyq) },
				gain_db: edge_or(r, &[0.0, -24.0, 24.0, -60.0], -24.0, 24.0) as f32,
				q: edge_or(r, &[0.0, -1.0, 0.01, 20.0, 0.707], 0.05, 20.0),
			},
			2 => FxSpec::Reverb {
				feedback: edge_or(r, &[0.0, 1.0, 0.9], 0.0, 1.0),
				damping: edge_or(r, &[0.0, 1.0, 0.1], 0.0, 1.0),
				width: edge_or(r, &[0.0, 1.0], 0.0, 1.0),
				mix: mix(r),
			},
			3 => FxSpec::Compressor {
				threshold: edge_or(r, &[0.0, -60.0, -6.0], -60.0, 0.0),
				// expander ratios below 0.25 turn a 60 dB overshoot into > +180 dB of gain (f32 overflow by
				// construction); they are outside the explored domain
				// (an expander inside a feedback loop is a level-dependent gain > 1: runaway by construction)
				ratio: if depth > 0 || r.chance(0.8) { edge_or(r, &[1.0, 100.0, 2.0, 4.0], 1.0, 100.0) } else { r.f64_in(0.25, 1.0) },
				attack_s: edge_or(r, &[0.0, 0.01, 1.0], 0.0, 0.5),
				release_s: edge_or(r, &[0.0, 0.1, 1.0], 0.0, 1.0),
				makeup_db: edge_or(r, &[0.0, 6.0, -6.0], -12.0, 12.0) as f32,
				mix: mix(r),
			},
			4 => FxSpec::Distortion {
				kind: *r.pick(&[DistortionKind::HardClip, DistortionKind::SoftClip]),
				drive_db: edge_or(r, &[0.0, -60.0, 24.0, -80.0], -40.0, 40.0) as f32,
				mix: mix(r),
			},
			5 => FxSpec::Volume {
				db: edge_or(r, &[0.0, -60.0, 24.0, -80.0, 6.0], -80.0, 24.0) as f32,
			},
			6 => FxSpec::Panning {
				p: edge_or(r, &[0.0, -1.0, 1.0, -1.5, 1.5], -1.0, 1.0) as f32,
			},
			_ => {
				let n_inner = r.below(3) as usize;
				let inner: Vec<FxSpec> = (0..n_inner).map(|_| FxSpec::gen(r, sr, depth + 1)).collect();
				let inner_db: f64 = inner.iter().map(|i| i.gain_bound_db()).sum();
				let mut feedback_db = edge_or(r, &[0.0, -60.0, -6.0, -80.0], -40.0, 0.0);
				if !inner.is_empty() {
					// keep the loop gain (feedback x inner effects) below unity
					feedback_db = feedback_db.min(-inner_db - 1.0);
				}
				FxSpec::Delay {
					time_s: if r.chance(0.25) { *r.pick(&[0.0, 1.0 / sr as f64, 0.5 / sr as f64, 0.01, 1e-4]) } else { r.log_in(2.0 / sr as f64, 0.25) },
					feedback_db: feedback_db as f32,
					mix: mix(r),
					inner,
				}
			}
		}
	}
}

/// Wraps an already built effect as an `EffectBuilder` (used to nest effects in a delay's feedback loop).
pub struct BuiltFx(pub Box<dyn Effect>);
impl EffectBuilder for BuiltFx {
	type Handle = ();
	fn build(self) -> (Box<dyn Effect>, ()) {
		(self.0, ())
	}
}

pub fn mock_info() -> Info<'static> {
	MockInfoBuilder::new().build()
}

/// Like `run_effect`, but the instance first lives at another device rate: init(sr_before), a few
/// hundred frames at that rate, `on_change_sample_rate(sr)`, then the input at `sr`.
pub fn run_effect_after_rate_change(spec: &FxSpec, sr_before: u32, sr: u32, ibs: usize, input: &[Frame], partition: &[usize]) -> Vec<Frame> {
	let mut fx = spec.build();
	fx.init(sr_before, ibs);
	let info = mock_info();
	let mut warm: Vec<Frame> = (0..300).map(|i| Frame::from_mono(((i * 37 % 101) as f32 / 101.0 - 0.5) * 0.2)).collect();
	let mut pos = 0;
	while pos < warm.len() {
		let n = ibs.min(warm.len() - pos);
		fx.on_start_processing();
		fx.process(&mut warm[pos..pos + n], 1.0 / sr_before as f64, &info);
		pos += n;
	}
	fx.on_change_sample_rate(sr);
	let dt = 1.0 / sr as f64;
	let mut out = input.to_vec();
	let mut pos = 0;
	let mut k = 0;
	while pos < out.len() {
		let n = partition[k % partition.len()].clamp(1, ibs).min(out.len() - pos);
		k += 1;
		fx.on_start_processing();
		fx.process(&mut out[pos..pos + n], dt, &info);
		pos += n;
		if k % 64 == 0 {
			crate::monitors::bump();
		}
	}
	out
}

/// Drives a fresh effect instance: init(sr, ibs), then on_start_processing + process over slices
/// given by `partition` (cycled; every slice is clamped to 1..=ibs as the init contract requires).
pub fn run_effect(spec: &FxSpec, sr: u32, ibs: usize, input: &[Frame], partition: &[usize]) -> Vec<Frame> {
	let mut fx = spec.build();
	fx.init(sr, ibs);
	let info = mock_info();
	let dt = 1.0 / sr as f64;
	let mut out = input.to_vec();
	let mut pos = 0;
	let mut k = 0;
	while pos < out.len() {
		let n = partition[k % partition.len()].clamp(1, ibs).min(out.len() - pos);
		k += 1;
		fx.on_start_processing();
		fx.process(&mut out[pos..pos + n], dt, &info);
		pos += n;
		if k % 64 == 0 {
			crate::monitors::bump();
		}
	}
	out
}

// ---------------------------------------------------------------- scripted decoder

use kira::sound::streaming::Decoder;
use std::sync::atomic::{AtomicBool, AtomicU64, Ordering as AtOrd};

#[derive(Default)]
pub struct DecoderObs {
	pub decode_calls: AtomicU64,
	pub seek_calls: AtomicU64,
	pub dropped: AtomicBool,
	/// dropped while the current thread was inside an audio callback
	pub dropped_in_callback: AtomicBool,
	pub frames_served: AtomicU64,
}

#[derive(Clone, Debug)]
pub struct DecoderScript {
	pub sample_rate: u32,
	/// packet sizes, cycled (each >= 1)
	pub packets: Vec<usize>,
	/// seeks land on the largest multiple of this that is <= the requested index
	pub seek_granularity: usize,
	/// fail the k-th decode call (1-based)
	pub fail_decode_at: Option<u64>,
	/// fail every decode call from the k-th on (a decoder that keeps failing)
	pub fail_decode_from: Option<u64>,
	/// fail the k-th seek call (1-based; call 1 is the seek made while the sound is constructed)
	pub fail_seek_at: Option<u64>,
	/// microseconds to sleep in every decode call (slow decoder)
	pub decode_sleep_us: u64,
}

impl Default for DecoderScript {
	fn default() -> Self {
		Self { sample_rate: 48000, packets: vec![1024], seek_granularity: 1, fail_decode_at: None, fail_decode_from: None, fail_seek_at: None, decode_sleep_us: 0 }
	}
}

pub struct ScriptedDecoder {
	pub frames: Arc<Vec<Frame>>,
	pub script: DecoderScript,
	pub pos: usize,
	pub packet_i: usize,
	pub obs: Arc<DecoderObs>,
}

impl ScriptedDecoder {
	pub fn new(frames: Arc<Vec<Frame>>, script: DecoderScript) -> (Self, Arc<DecoderObs>) {
		let obs = Arc::new(DecoderObs::default());
		(Self { frames, script, pos: 0, packet_i: 0, obs: obs.clone() }, obs)
	}
}

impl Decoder for ScriptedDecoder {
	type Error = String;

	fn sample_rate(&self) -> u32 {
		self.script.sample_rate
	}

	fn num_frames(&self) -> usize {
		self.frames.len()
	}

	fn decode(&mut self) -> Result<Vec<Frame>, String> {
		let k = self.obs.decode_calls.fetch_add(1, AtOrd::SeqCst) + 1;
		if self.script.decode_sleep_us > 0 {
			std::thread::sleep(Duration::from_micros(self.script.decode_sleep_us));
		}
		if let Some(from) = self.script.fail_decode_from {
			if k >= from {
				return Err(format!("injected decode error at call {}", from));
			}
		}
		if self.script.fail_decode_at == Some(k) {
			return Err(format!("injected decode error at call {}", k));
		}
		let n = self.script.packets[self.packet_i % self.script.packets.len()].max(1);
		self.packet_i += 1;
		let end = (self.pos + n).min(self.frames.len());
		let out = self.frames[self.pos.min(end)..end].to_vec();
		self.pos = end;
		self.obs.frames_served.fetch_add(out.len() as u64, AtOrd::SeqCst);
		Ok(out)
	}

	fn seek(&mut self, index: usize) -> Result<usize, String> {
		let k = self.obs.seek_calls.fetch_add(1, AtOrd::SeqCst) + 1;
		if self.script.fail_seek_at == Some(k) {
			return Err(format!("injected seek error at call {}", k));
		}
		let g = self.script.seek_granularity.max(1);
		let landed = (index.min(self.frames.len()) / g) * g;
		self.pos = landed;
		Ok(landed)
	}
}

impl Drop for ScriptedDecoder {
	fn drop(&mut self) {
		self.obs.dropped.store(true, AtOrd::SeqCst);
		if crate::monitors::in_callback() {
			self.obs.dropped_in_callback.store(true, AtOrd::SeqCst);
		}
	}
}
