//! Probe Sound/Effect/Modulator/Decoder implementations and sound-data helpers.

use std::sync::Arc;

use kira::sound::static_sound::{StaticSoundData, StaticSoundSettings};
use kira::Frame;

/// Static sound whose every frame is `value` on both channels.
pub fn dc_sound(sample_rate: u32, len: usize, value: f32) -> StaticSoundData {
	StaticSoundData {
		sample_rate,
		frames: (0..len).map(|_| Frame::from_mono(value)).collect::<Vec<_>>().into(),
		settings: StaticSoundSettings::default(),
		slice: None,
	}
}

/// Static sound whose frame i is (i+1, -(i+1)) * scale: the played index can be read off the output.
pub fn coded_sound(sample_rate: u32, len: usize, scale: f32) -> StaticSoundData {
	StaticSoundData {
		sample_rate,
		frames: (0..len)
			.map(|i| Frame::new((i + 1) as f32 * scale, -((i + 1) as f32) * scale))
			.collect::<Vec<_>>()
			.into(),
		settings: StaticSoundSettings::default(),
		slice: None,
	}
}

pub fn sound_from_frames(sample_rate: u32, frames: Vec<Frame>) -> StaticSoundData {
	StaticSoundData {
		sample_rate,
		frames: Arc::from(frames),
		settings: StaticSoundSettings::default(),
		slice: None,
	}
}

/// deterministic full-scale noise
pub fn noise_frames(seed: u64, len: usize, amp: f32) -> Vec<Frame> {
	let mut r = crate::util::Rng::new(seed);
	(0..len).map(|_| Frame::new(r.noise() * amp, r.noise() * amp)).collect()
}
