//! PRNG, JSON writer, run context (coverage accounting, violations, replay files).

use std::collections::{BTreeMap, HashSet};
use std::fmt::Write as _;
use std::time::Instant;

// ---------------------------------------------------------------- PRNG

#[derive(Clone, Debug)]
pub struct Rng(pub u64);

pub fn mix64(mut z: u64) -> u64 {
	z = z.wrapping_add(0x9E3779B97F4A7C15);
	z = (z ^ (z >> 30)).wrapping_mul(0xBF58476D1CE4E5B9);
	z = (z ^ (z >> 27)).wrapping_mul(0x94D049BB133111EB);
	z ^ (z >> 31)
}

pub fn hash_str(s: &str) -> u64 {
	let mut h: u64 = 0xcbf29ce484222325;
	for b in s.bytes() {
		h ^= b as u64;
		h = h.wrapping_mul(0x100000001b3);
	}
	mix64(h)
}

impl Rng {
	pub fn new(seed: u64) -> Self {
		Rng(mix64(seed ^ 0xA5A5_5A5A_DEAD_BEEF))
	}
	/// A generator for case `idx` of stream `stream` under `seed`.
	pub fn for_case(seed: u64, stream: u64, idx: u64) -> Self {
		Rng(mix64(mix64(seed).wrapping_add(mix64(stream ^ 0x1234_5678)) ^ mix64(idx.wrapping_mul(0x9E37_79B9))))
	}
	pub fn next(&mut self) -> u64 {
		self.0 = self.0.wrapping_add(0x9E3779B97F4A7C15);
		let mut z = self.0;
		z = (z ^ (z >> 30)).wrapping_mul(0xBF58476D1CE4E5B9);
		z = (z ^ (z >> 27)).wrapping_mul(0x94D049BB133111EB);
		z ^ (z >> 31)
	}
	/// uniform in [0, n)
	pub fn below(&mut self, n: u64) -> u64 {
		if n == 0 {
			0
		} else {
			self.next() % n
		}
	}
	pub fn usize_in(&mut self, lo: usize, hi_incl: usize) -> usize {
		lo + self.below((hi_incl - lo + 1) as u64) as usize
	}
	pub fn chance(&mut self, p: f64) -> bool {
		self.f64() < p
	}
	/// uniform in [0,1)
	pub fn f64(&mut self) -> f64 {
		(self.next() >> 11) as f64 / (1u64 << 53) as f64
	}
	pub fn f64_in(&mut self, lo: f64, hi: f64) -> f64 {
		lo + (hi - lo) * self.f64()
	}
	pub fn f32_in(&mut self, lo: f32, hi: f32) -> f32 {
		lo + (hi - lo) * self.f64() as f32
	}
	/// log-uniform in [lo, hi], lo > 0
	pub fn log_in(&mut self, lo: f64, hi: f64) -> f64 {
		(self.f64_in(lo.ln(), hi.ln())).exp()
	}
	pub fn pick<'a, T>(&mut self, xs: &'a [T]) -> &'a T {
		&xs[self.below(xs.len() as u64) as usize]
	}
	/// standard-normal-ish noise in [-1,1]
	pub fn noise(&mut self) -> f32 {
		(self.f64() * 2.0 - 1.0) as f32
	}
}

// ---------------------------------------------------------------- JSON

#[derive(Clone, Debug)]
pub enum J {
	Null,
	B(bool),
	I(i64),
	U(u64),
	F(f64),
	S(String),
	A(Vec<J>),
	O(Vec<(String, J)>),
}

impl From<bool> for J {
	fn from(v: bool) -> J {
		J::B(v)
	}
}
impl From<i64> for J {
	fn from(v: i64) -> J {
		J::I(v)
	}
}
impl From<i32> for J {
	fn from(v: i32) -> J {
		J::I(v as i64)
	}
}
impl From<u64> for J {
	fn from(v: u64) -> J {
		J::U(v)
	}
}
impl From<u32> for J {
	fn from(v: u32) -> J {
		J::U(v as u64)
	}
}
impl From<u16> for J {
	fn from(v: u16) -> J {
		J::U(v as u64)
	}
}
impl From<usize> for J {
	fn from(v: usize) -> J {
		J::U(v as u64)
	}
}
impl From<f64> for J {
	fn from(v: f64) -> J {
		J::F(v)
	}
}
impl From<f32> for J {
	fn from(v: f32) -> J {
		J::F(v as f64)
	}
}
impl From<&str> for J {
	fn from(v: &str) -> J {
		J::S(v.to_string())
	}
}
impl From<String> for J {
	fn from(v: String) -> J {
		J::S(v)
	}
}
impl<T: Into<J>> From<Vec<T>> for J {
	fn from(v: Vec<T>) -> J {
		J::A(v.into_iter().map(Into::into).collect())
	}
}
impl<T: Into<J>> From<Option<T>> for J {
	fn from(v: Option<T>) -> J {
		match v {
			Some(x) => x.into(),
			None => J::Null,
		}
	}
}

#[macro_export]
macro_rules! jobj {
	($($k:expr => $v:expr),* $(,)?) => {
		$crate::util::J::O(vec![$(($k.to_string(), $crate::util::J::from($v))),*])
	};
}

impl J {
	pub fn write(&self, out: &mut String) {
		match self {
			J::Null => out.push_str("null"),
			J::B(b) => out.push_str(if *b { "true" } else { "false" }),
			J::I(i) => {
				let _ = write!(out, "{}", i);
			}
			J::U(u) => {
				let _ = write!(out, "{}", u);
			}
			J::F(f) => {
				if f.is_finite() {
					let _ = write!(out, "{:?}", f);
				} else {
					let _ = write!(out, "\"{:?}\"", f);
				}
			}
			J::S(s) => {
				out.push('"');
				for c in s.chars() {
					match c {
						'"' => out.push_str("\\\""),
						'\\' => out.push_str("\\\\"),
						'\n' => out.push_str("\\n"),
						'\r' => out.push_str("\\r"),
						'\t' => out.push_str("\\t"),
						c if (c as u32) < 0x20 => {
							let _ = write!(out, "\\u{:04x}", c as u32);
						}
						c => out.push(c),
					}
				}
				out.push('"');
			}
			J::A(a) => {
				out.push('[');
				for (i, x) in a.iter().enumerate() {
					if i > 0 {
						out.push(',');
					}
					x.write(out);
				}
				out.push(']');
			}
			J::O(o) => {
				out.push('{');
				for (i, (k, v)) in o.iter().enumerate() {
					if i > 0 {
						out.push(',');
					}
					J::S(k.clone()).write(out);
					out.push(':');
					v.write(out);
				}
				out.push('}');
			}
		}
	}
	pub fn to_string(&self) -> String {
		let mut s = String::new();
		self.write(&mut s);
		s
	}
}

// ---------------------------------------------------------------- run context

#[derive(Clone, Copy, PartialEq, Eq, Debug)]
pub enum Tier {
	Quick,
	Thorough,
}

pub struct Ctx {
	pub id: String,
	pub tier: Tier,
	pub seed: u64,
	pub shard: u64,
	pub nshards: u64,
	pub engine: String,
	/// keys of known findings (from /verif/known_findings.json) to exclude from generation
	pub known: HashSet<String>,
	/// only run this case index (replay)
	pub only_case: Option<(String, u64)>,
	pub budget_s: f64,
	pub start: Instant,
	pub evaluations: u64,
	pub distinct: HashSet<u64>,
	pub samples: Vec<J>,
	pub counters: BTreeMap<String, u64>,
	pub maxima: BTreeMap<String, f64>,
	pub violations: Vec<J>,
	pub inconclusive: u64,
	pub excluded: BTreeMap<String, u64>,
	pub notes: Vec<String>,
	pub verbose: bool,
	pub replay_dir: String,
	pub max_violations: usize,
}

impl Ctx {
	pub fn quick(&self) -> bool {
		self.tier == Tier::Quick
	}
	/// pick by tier
	pub fn t<T>(&self, quick: T, thorough: T) -> T {
		if self.quick() {
			quick
		} else {
			thorough
		}
	}
	pub fn elapsed(&self) -> f64 {
		self.start.elapsed().as_secs_f64()
	}
	/// true while there is time left within `frac` of the budget
	pub fn time_left(&self, frac: f64) -> bool {
		self.elapsed() < self.budget_s * frac
	}
	/// does this shard own case idx? (and matches a replay filter if any)
	pub fn owns(&self, stream: &str, idx: u64) -> bool {
		if let Some((s, c)) = &self.only_case {
			return s == stream && *c == idx;
		}
		idx % self.nshards == self.shard
	}
	pub fn replaying(&self) -> bool {
		self.only_case.is_some()
	}
	pub fn eval(&mut self) {
		self.evaluations += 1;
	}
	pub fn evals(&mut self, n: u64) {
		self.evaluations += n;
	}
	pub fn distinct_key(&mut self, key: u64) {
		if self.distinct.len() < 2_000_000 {
			self.distinct.insert(key);
		}
	}
	pub fn distinct_str(&mut self, key: &str) {
		self.distinct_key(hash_str(key));
	}
	pub fn sample(&mut self, j: J) {
		if self.samples.len() < 6 {
			self.samples.push(j);
		}
	}
	pub fn sample_count(&self) -> usize {
		self.samples.len()
	}
	pub fn want_sample(&self) -> bool {
		self.samples.len() < 6
	}
	pub fn count(&mut self, name: &str, n: u64) {
		*self.counters.entry(name.to_string()).or_insert(0) += n;
	}
	pub fn maxf(&mut self, name: &str, v: f64) {
		let e = self.maxima.entry(name.to_string()).or_insert(f64::NEG_INFINITY);
		if v > *e {
			*e = v;
		}
	}
	pub fn exclude(&mut self, key: &str) {
		*self.excluded.entry(key.to_string()).or_insert(0) += 1;
	}
	pub fn known(&self, key: &str) -> bool {
		self.known.contains(key)
	}
	pub fn note(&mut self, s: &str) {
		if !self.notes.iter().any(|n| n == s) {
			self.notes.push(s.to_string());
		}
	}
	/// Record a violation: writes a replay file, prints the VIOLATION line.
	pub fn violation(&mut self, stream: &str, case: u64, what: &str, detail: J) {
		let n = self.violations.len();
		if n >= self.max_violations {
			self.count("violations_suppressed", 1);
			return;
		}
		let path = format!(
			"{}/{}-{}-s{}-{}-{}.json",
			self.replay_dir, self.id, self.engine, self.seed, stream, case
		);
		let rep = jobj! {
			"property" => self.id.clone(),
			"engine" => self.engine.clone(),
			"what" => what,
			"argv" => vec![
				"run".to_string(), self.id.clone(),
				"--tier".to_string(), (if self.quick() {"quick"} else {"thorough"}).to_string(),
				"--seed".to_string(), self.seed.to_string(),
				"--case".to_string(), format!("{}:{}", stream, case),
			],
			"detail" => detail.clone(),
		};
		let _ = std::fs::create_dir_all(&self.replay_dir);
		let _ = std::fs::write(&path, rep.to_string());
		println!("VIOLATION property={} replay={}", self.id, path);
		println!("  what: {}", what);
		self.violations.push(jobj! {"what" => what, "stream" => stream, "case" => case, "replay" => path, "detail" => detail});
	}
	pub fn result_json(&self) -> J {
		let mut distinct: Vec<u64> = self.distinct.iter().copied().collect();
		distinct.sort_unstable();
		jobj! {
			"property_id" => self.id.clone(),
			"engine" => self.engine.clone(),
			"shard" => self.shard,
			"evaluations" => self.evaluations,
			"distinct" => distinct.into_iter().map(|d| J::S(format!("{:x}", d))).collect::<Vec<J>>(),
			"samples" => J::A(self.samples.clone()),
			"counters" => J::O(self.counters.iter().map(|(k, v)| (k.clone(), J::U(*v))).collect()),
			"maxima" => J::O(self.maxima.iter().map(|(k, v)| (k.clone(), J::F(*v))).collect()),
			"violations" => J::A(self.violations.clone()),
			"inconclusive" => self.inconclusive,
			"excluded" => J::O(self.excluded.iter().map(|(k, v)| (k.clone(), J::U(*v))).collect()),
			"notes" => self.notes.clone(),
			"wall_s" => self.elapsed(),
		}
	}
}

pub fn fmt_f32s(xs: &[f32], max: usize) -> J {
	J::A(xs.iter().take(max).map(|x| J::F(*x as f64)).collect())
}
