//! Always-on monitors: counting allocator (armed per thread), panic recorder,
//! CPU-time watchdog, output-buffer scanner.

use std::alloc::{GlobalAlloc, Layout, System};
use std::cell::Cell;
use std::sync::atomic::{AtomicBool, AtomicU64, Ordering};
use std::sync::Mutex;

// ------------------------------------------------------------ allocator

pub struct CountingAlloc;

thread_local! {
	static ARMED: Cell<bool> = const { Cell::new(false) };
	static ALLOCS: Cell<u64> = const { Cell::new(0) };
	static FREES: Cell<u64> = const { Cell::new(0) };
	static FIRST_SIZE: Cell<usize> = const { Cell::new(0) };
	static WANT_BT: Cell<bool> = const { Cell::new(false) };
	/// true while the current thread is inside an audio callback window
	static IN_CALLBACK: Cell<bool> = const { Cell::new(false) };
}

pub static ALLOC_BACKTRACE: Mutex<Option<String>> = Mutex::new(None);

#[inline]
fn on_event(is_alloc: bool, size: usize) {
	let armed = ARMED.try_with(|a| a.get()).unwrap_or(false);
	if !armed {
		return;
	}
	if is_alloc {
		let _ = ALLOCS.try_with(|c| c.set(c.get() + 1));
	} else {
		let _ = FREES.try_with(|c| c.set(c.get() + 1));
	}
	let _ = FIRST_SIZE.try_with(|c| {
		if c.get() == 0 {
			c.set(size.max(1))
		}
	});
	let want = WANT_BT.try_with(|c| c.get()).unwrap_or(false);
	if want {
		// capture one backtrace, with the monitor disarmed (capturing allocates)
		let _ = ARMED.try_with(|a| a.set(false));
		let _ = WANT_BT.try_with(|c| c.set(false));
		let bt = std::backtrace::Backtrace::force_capture().to_string();
		if let Ok(mut g) = ALLOC_BACKTRACE.lock() {
			*g = Some(format!("{} of {} bytes\n{}", if is_alloc { "alloc" } else { "free" }, size, bt));
		}
		let _ = ARMED.try_with(|a| a.set(true));
	}
}

unsafe impl GlobalAlloc for CountingAlloc {
	unsafe fn alloc(&self, layout: Layout) -> *mut u8 {
		on_event(true, layout.size());
		System.alloc(layout)
	}
	unsafe fn dealloc(&self, ptr: *mut u8, layout: Layout) {
		on_event(false, layout.size());
		System.dealloc(ptr, layout)
	}
	unsafe fn alloc_zeroed(&self, layout: Layout) -> *mut u8 {
		on_event(true, layout.size());
		System.alloc_zeroed(layout)
	}
	unsafe fn realloc(&self, ptr: *mut u8, layout: Layout, new_size: usize) -> *mut u8 {
		on_event(true, new_size);
		System.realloc(ptr, layout, new_size)
	}
}

/// Arms the allocation monitor for the current thread; returns (allocs, frees, first size) on disarm.
pub fn arm_alloc(capture_backtrace: bool) {
	ALLOCS.with(|c| c.set(0));
	FREES.with(|c| c.set(0));
	FIRST_SIZE.with(|c| c.set(0));
	WANT_BT.with(|c| c.set(capture_backtrace));
	IN_CALLBACK.with(|c| c.set(true));
	ARMED.with(|a| a.set(true));
}

pub fn disarm_alloc() -> (u64, u64, usize) {
	ARMED.with(|a| a.set(false));
	IN_CALLBACK.with(|c| c.set(false));
	(ALLOCS.with(|c| c.get()), FREES.with(|c| c.get()), FIRST_SIZE.with(|c| c.get()))
}

pub fn in_callback() -> bool {
	IN_CALLBACK.try_with(|c| c.get()).unwrap_or(false)
}

// ------------------------------------------------------------ panic recorder

#[derive(Clone, Debug)]
pub struct PanicRec {
	pub msg: String,
	pub file: String,
	pub line: u32,
	pub in_callback: bool,
	pub thread: String,
}

pub static PANICS: Mutex<Vec<PanicRec>> = Mutex::new(Vec::new());
static PANIC_VERBOSE: AtomicBool = AtomicBool::new(false);

pub fn install_panic_hook(verbose: bool) {
	PANIC_VERBOSE.store(verbose, Ordering::SeqCst);
	std::panic::set_hook(Box::new(|info| {
		// never count allocations made by the panic machinery
		let was_armed = ARMED.try_with(|a| a.replace(false)).unwrap_or(false);
		let msg = if let Some(s) = info.payload().downcast_ref::<&str>() {
			s.to_string()
		} else if let Some(s) = info.payload().downcast_ref::<String>() {
			s.clone()
		} else {
			"<non-string panic>".to_string()
		};
		let (file, line) = info
			.location()
			.map(|l| (l.file().to_string(), l.line()))
			.unwrap_or(("?".into(), 0));
		let rec = PanicRec {
			msg,
			file,
			line,
			in_callback: in_callback(),
			thread: std::thread::current().name().unwrap_or("?").to_string(),
		};
		if PANIC_VERBOSE.load(Ordering::SeqCst) || rec.in_harness() {
			eprintln!("[panic] {:?}", rec);
		}
		if let Ok(mut g) = PANICS.lock() {
			g.push(rec);
		}
		let _ = ARMED.try_with(|a| a.set(was_armed));
	}));
}

pub fn take_panics() -> Vec<PanicRec> {
	PANICS.lock().map(|mut g| std::mem::take(&mut *g)).unwrap_or_default()
}

impl PanicRec {
	/// panics raised by harness code (an oracle bug) rather than by kira or its dependencies
	pub fn in_harness(&self) -> bool {
		self.file.starts_with("src/") || self.file.contains("/verif/harness/")
	}
	pub fn sig(&self) -> String {
		let f = self.file.rsplit("/crates/kira/").next().unwrap_or(&self.file);
		format!("{} @ {}", self.msg, f)
	}
}

// ------------------------------------------------------------ watchdog

/// Progress counter bumped by the rig on every callback entry/exit and by case runners.
pub static PROGRESS: AtomicU64 = AtomicU64::new(0);
/// Description (JSON text) of what is currently running, for the watchdog's replay file.
pub static CURRENT: Mutex<Option<WatchInfo>> = Mutex::new(None);

#[derive(Clone)]
pub struct WatchInfo {
	pub property: String,
	pub stream: String,
	pub case: u64,
	pub seed: u64,
	pub tier: String,
	pub engine: String,
	pub what: String,
	pub replay_dir: String,
	pub known_hang: bool,
}

pub fn bump() {
	PROGRESS.fetch_add(1, Ordering::Relaxed);
}

fn thread_cpu_ticks(tid: u64) -> Option<u64> {
	let s = std::fs::read_to_string(format!("/proc/self/task/{}/stat", tid)).ok()?;
	let rest = &s[s.rfind(')')? + 2..];
	let f: Vec<&str> = rest.split_whitespace().collect();
	// fields after comm: state(0) ... utime is field 14 overall => index 11 here, stime index 12
	let ut: u64 = f.get(11)?.parse().ok()?;
	let st: u64 = f.get(12)?.parse().ok()?;
	Some(ut + st)
}

pub fn current_tid() -> u64 {
	std::fs::read_link("/proc/thread-self")
		.ok()
		.and_then(|p| p.file_name().map(|f| f.to_string_lossy().to_string()))
		.and_then(|s| s.parse().ok())
		.unwrap_or(0)
}

/// Spawns the watchdog: if `PROGRESS` does not change while thread `tid` burns more than
/// `cpu_limit_s` of its own CPU time, the current case is declared hung.
/// Exit code 1 + VIOLATION line (or exit 10 for a confirmation run of a known hang).
pub fn spawn_watchdog(tid: u64, cpu_limit_s: f64) {
	std::thread::Builder::new()
		.name("watchdog".into())
		.spawn(move || {
			let hz = 100.0; // USER_HZ
			let mut last_progress = PROGRESS.load(Ordering::Relaxed);
			let mut cpu_at_last = thread_cpu_ticks(tid).unwrap_or(0);
			loop {
				std::thread::sleep(std::time::Duration::from_millis(100));
				let p = PROGRESS.load(Ordering::Relaxed);
				let cpu = match thread_cpu_ticks(tid) {
					Some(c) => c,
					None => return,
				};
				if p != last_progress {
					last_progress = p;
					cpu_at_last = cpu;
					continue;
				}
				let burned = (cpu - cpu_at_last) as f64 / hz;
				if burned > cpu_limit_s {
					let info = CURRENT.lock().ok().and_then(|g| g.clone());
					if let Some(i) = info {
						if i.known_hang {
							println!("REPRODUCED hang: {}", i.what);
							std::process::exit(10);
						}
						let path = format!(
							"{}/{}-{}-s{}-{}-{}-hang.json",
							i.replay_dir, i.property, i.engine, i.seed, i.stream, i.case
						);
						let _ = std::fs::create_dir_all(&i.replay_dir);
						let rep = crate::jobj! {
							"property" => i.property.clone(),
							"engine" => i.engine.clone(),
							"what" => format!("no progress for {:.1}s of thread CPU time (hang): {}", burned, i.what),
							"argv" => vec!["run".to_string(), i.property.clone(), "--tier".into(), i.tier.clone(),
								"--seed".into(), i.seed.to_string(), "--case".into(), format!("{}:{}", i.stream, i.case)],
						};
						let _ = std::fs::write(&path, rep.to_string());
						println!("VIOLATION property={} replay={}", i.property, path);
						println!("  what: hang (no progress for {:.1}s CPU) in {}", burned, i.what);
						std::process::exit(1);
					} else {
						// no case registered: long pure computations (sweeps) are not callbacks
						cpu_at_last = cpu;
					}
				}
			}
		})
		.expect("spawn watchdog");
}

pub fn clear_current() {
	if let Ok(mut g) = CURRENT.lock() {
		*g = None;
	}
	bump();
}

pub fn set_current(ctx: &crate::util::Ctx, stream: &str, case: u64, what: &str, known_hang: bool) {
	if let Ok(mut g) = CURRENT.lock() {
		*g = Some(WatchInfo {
			property: ctx.id.clone(),
			stream: stream.to_string(),
			case,
			seed: ctx.seed,
			tier: if ctx.quick() { "quick".into() } else { "thorough".into() },
			engine: ctx.engine.clone(),
			what: what.to_string(),
			replay_dir: ctx.replay_dir.clone(),
			known_hang,
		});
	}
	bump();
}

// ------------------------------------------------------------ buffer scanner

#[derive(Default, Debug, Clone)]
pub struct ScanResult {
	pub non_finite: Option<(usize, f32)>,
	pub out_of_range: Option<(usize, f32)>,
	pub extra_channel_nonzero: Option<(usize, f32)>,
	pub nonzero_samples: u64,
	pub clamped_samples: u64,
}

pub fn scan(buf: &[f32], channels: usize) -> ScanResult {
	let mut r = ScanResult::default();
	for (i, &x) in buf.iter().enumerate() {
		if !x.is_finite() {
			if r.non_finite.is_none() {
				r.non_finite = Some((i, x));
			}
			continue;
		}
		if !(-1.0..=1.0).contains(&x) && r.out_of_range.is_none() {
			r.out_of_range = Some((i, x));
		}
		if x != 0.0 {
			r.nonzero_samples += 1;
			if x.abs() == 1.0 {
				r.clamped_samples += 1;
			}
			if channels > 2 && i % channels >= 2 && r.extra_channel_nonzero.is_none() {
				r.extra_channel_nonzero = Some((i, x));
			}
		}
	}
	r
}
