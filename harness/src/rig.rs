//! TestBackend: a `kira::backend::Backend` that hands the `Renderer` to the harness.

use std::sync::{Arc, Mutex};

use kira::backend::{Backend, Renderer};
use kira::track::MainTrackBuilder;
use kira::{AudioManager, AudioManagerSettings, Capacities};

use crate::monitors;

pub type Slot = Arc<Mutex<Option<Renderer>>>;

pub struct TestBackend {
	slot: Slot,
}

pub struct TestBackendSettings {
	pub sample_rate: u32,
	pub slot: Slot,
}

impl Backend for TestBackend {
	type Settings = TestBackendSettings;
	type Error = ();

	fn setup(settings: Self::Settings, _ibs: usize) -> Result<(Self, u32), ()> {
		Ok((Self { slot: settings.slot }, settings.sample_rate))
	}

	fn start(&mut self, renderer: Renderer) -> Result<(), ()> {
		*self.slot.lock().unwrap() = Some(renderer);
		Ok(())
	}
}

#[derive(Clone, Debug)]
pub struct RigConfig {
	pub sample_rate: u32,
	pub ibs: usize,
	pub channels: u16,
	pub capacities: Capacities,
}

impl Default for RigConfig {
	fn default() -> Self {
		Self {
			sample_rate: 48000,
			ibs: 128,
			channels: 2,
			capacities: Capacities::default(),
		}
	}
}

#[derive(Default, Clone, Debug)]
pub struct CallbackStats {
	pub allocs: u64,
	pub frees: u64,
	pub first_alloc_size: usize,
}

pub struct Rig {
	pub mgr: AudioManager<TestBackend>,
	pub renderer: Option<Renderer>,
	pub cfg: RigConfig,
	pub buf: Vec<f32>,
	pub callbacks: u64,
	pub frames: u64,
	/// monitor allocations inside callbacks
	pub watch_alloc: bool,
	pub alloc_events: u64,
	pub capture_bt: bool,
}

impl Rig {
	pub fn new(cfg: RigConfig, main: MainTrackBuilder) -> Rig {
		let slot: Slot = Arc::new(Mutex::new(None));
		let mgr = AudioManager::<TestBackend>::new(AudioManagerSettings {
			capacities: cfg.capacities,
			main_track_builder: main,
			internal_buffer_size: cfg.ibs,
			backend_settings: TestBackendSettings {
				sample_rate: cfg.sample_rate,
				slot: slot.clone(),
			},
		})
		.expect("manager");
		let renderer = slot.lock().unwrap().take();
		Rig {
			mgr,
			renderer,
			cfg,
			buf: Vec::new(),
			callbacks: 0,
			frames: 0,
			watch_alloc: true,
			alloc_events: 0,
			capture_bt: false,
		}
	}

	pub fn simple(sample_rate: u32, ibs: usize) -> Rig {
		Rig::new(
			RigConfig {
				sample_rate,
				ibs,
				..Default::default()
			},
			MainTrackBuilder::new(),
		)
	}

	/// One device callback of `frames` frames: on_start_processing + process.
	/// Returns the interleaved output buffer.
	pub fn callback(&mut self, frames: usize) -> &[f32] {
		let ch = self.cfg.channels as usize;
		self.buf.clear();
		// fill with a poison value so unwritten samples are visible
		self.buf.resize(frames * ch, f32::NAN);
		let r = self.renderer.as_mut().expect("renderer");
		monitors::bump();
		if self.watch_alloc {
			monitors::arm_alloc(self.capture_bt);
		}
		r.on_start_processing();
		r.process(&mut self.buf, self.cfg.channels);
		if self.watch_alloc {
			let (a, f, _) = monitors::disarm_alloc();
			self.alloc_events += a + f;
		}
		monitors::bump();
		self.callbacks += 1;
		self.frames += frames as u64;
		&self.buf
	}

	/// Stereo convenience: returns (left, right) vectors for `frames` frames rendered with callbacks
	/// of the sizes produced by `sizes` (cycled).
	pub fn render_stereo(&mut self, total: usize, sizes: &[usize]) -> (Vec<f32>, Vec<f32>) {
		assert_eq!(self.cfg.channels, 2);
		let mut l = Vec::with_capacity(total);
		let mut r = Vec::with_capacity(total);
		let mut i = 0;
		while l.len() < total {
			let n = sizes[i % sizes.len()].min(total - l.len()).max(1);
			i += 1;
			let b = self.callback(n);
			for f in b.chunks(2) {
				l.push(f[0]);
				r.push(f[1]);
			}
		}
		(l, r)
	}

	/// Runs only `on_start_processing` (no frames): publishes the audio thread's state (clock times,
	/// sound positions) to the handles. Equivalent to the next callback's first half happening early.
	pub fn sync(&mut self) {
		let r = self.renderer.as_mut().expect("renderer");
		r.on_start_processing();
	}

	pub fn change_sample_rate(&mut self, sr: u32) {
		self.cfg.sample_rate = sr;
		self.renderer.as_mut().unwrap().on_change_sample_rate(sr);
	}
}
