//! Scenario programs over the whole public surface (manager, builders, handles, backend callbacks),
//! expressed as data so the same program can be executed on several rigs in lock-step (C01, C08).

use std::sync::Arc;
use std::time::Duration;

use glam::{Quat, Vec3};
use kira::clock::{ClockHandle, ClockSpeed, ClockTime};
use kira::effect::compressor::{CompressorBuilder, CompressorHandle};
use kira::effect::delay::{DelayBuilder, DelayHandle};
use kira::effect::distortion::{DistortionBuilder, DistortionHandle, DistortionKind};
use kira::effect::eq_filter::{EqFilterBuilder, EqFilterHandle, EqFilterKind};
use kira::effect::filter::{FilterBuilder, FilterHandle, FilterMode};
use kira::effect::panning_control::{PanningControlBuilder, PanningControlHandle};
use kira::effect::reverb::{ReverbBuilder, ReverbHandle};
use kira::effect::volume_control::{VolumeControlBuilder, VolumeControlHandle};
use kira::effect::{Effect, EffectBuilder};
use kira::listener::ListenerHandle;
use kira::modulator::lfo::{LfoBuilder, LfoHandle, Waveform};
use kira::modulator::tweener::{TweenerBuilder, TweenerHandle};
use kira::modulator::ModulatorId;
use kira::sound::static_sound::{StaticSoundData, StaticSoundHandle, StaticSoundSettings};
use kira::sound::streaming::{StreamingSoundData, StreamingSoundHandle, StreamingSoundSettings};
use kira::sound::{EndPosition, PlaybackPosition, Region};
use kira::track::{MainTrackBuilder, SendTrackBuilder, SendTrackHandle, SpatialTrackBuilder, SpatialTrackDistances, SpatialTrackHandle, TrackBuilder, TrackHandle};
use kira::{Capacities, Decibels, Easing, Frame, Mapping, Mix, Panning, PlaybackRate, StartTime, Tween, Value};

use crate::hooks::DecState;
use crate::probes::{BuiltFx, DecoderScript, FxSpec, ScriptedDecoder};
use crate::props::c06::gen_easing;
use crate::rig::{Rig, RigConfig};
use crate::util::Rng;

// ------------------------------------------------------------------ value / tween specifications

#[derive(Clone, Debug)]
pub enum ValSpec {
	Fixed(f64),
	/// linked to modulator slot `m` (modulo the number of modulators; falls back to Fixed(out.0) if none)
	FromMod { m: usize, input: (f64, f64), out: (f64, f64), easing: Easing },
	FromDistance { input: (f64, f64), out: (f64, f64), easing: Easing },
}

/// the far end of the legal delays: `Duration::MAX` (coded as infinity), `u64::MAX` seconds (coded as 1.8e19), a billion seconds
pub const EXTREME_DELAYS: [f64; 3] = [f64::INFINITY, 1.8e19, 1e9];

#[derive(Clone, Debug)]
pub enum StartSpec {
	Immediate,
	Delayed(f64),
	Clock { c: usize, ticks: f64 },
}

#[derive(Clone, Debug)]
pub struct TweenSpec {
	pub start: StartSpec,
	pub duration: f64,
	pub easing: Easing,
}

impl ValSpec {
	pub fn gen(r: &mut Rng, lo: f64, hi: f64, edges: &[f64]) -> ValSpec {
		let pick = |r: &mut Rng| if !edges.is_empty() && r.chance(0.3) { *r.pick(edges) } else { r.f64_in(lo, hi) };
		match r.below(10) {
			0 | 1 => {
				let a = r.f64_in(-2.0, 2.0);
				let mut b = r.f64_in(-2.0, 2.0);
				if b == a {
					b = a + 1.0;
				}
				ValSpec::FromMod { m: r.below(8) as usize, input: (a, b), out: (pick(r), pick(r)), easing: gen_easing(r) }
			}
			2 => {
				let a = r.f64_in(0.0, 50.0);
				ValSpec::FromDistance { input: (a, a + r.f64_in(0.1, 100.0)), out: (pick(r), pick(r)), easing: gen_easing(r) }
			}
			_ => ValSpec::Fixed(pick(r)),
		}
	}
	pub fn to_value<T: Copy>(&self, mods: &[ModulatorId], f: impl Fn(f64) -> T) -> Value<T> {
		match self {
			ValSpec::Fixed(v) => Value::Fixed(f(*v)),
			ValSpec::FromMod { m, input, out, easing } => {
				if mods.is_empty() {
					Value::Fixed(f(out.0))
				} else {
					Value::FromModulator { id: mods[*m % mods.len()], mapping: Mapping { input_range: *input, output_range: (f(out.0), f(out.1)), easing: *easing } }
				}
			}
			ValSpec::FromDistance { input, out, easing } => Value::FromListenerDistance(Mapping { input_range: *input, output_range: (f(out.0), f(out.1)), easing: *easing }),
		}
	}
	/// smallest value this spec can take (for known-finding trigger predicates)
	pub fn min(&self) -> f64 {
		match self {
			ValSpec::Fixed(v) => *v,
			ValSpec::FromMod { out, .. } | ValSpec::FromDistance { out, .. } => out.0.min(out.1),
		}
	}
}

impl TweenSpec {
	pub fn gen(r: &mut Rng) -> TweenSpec {
		TweenSpec {
			start: match r.below(8) {
				0 => StartSpec::Delayed(if r.chance(0.3) { 0.0 } else if r.chance(0.15) { *r.pick(&EXTREME_DELAYS) } else { r.f64_in(0.0, 0.05) }),
				1 => StartSpec::Clock { c: r.below(4) as usize, ticks: r.f64_in(0.0, 8.0) },
				_ => StartSpec::Immediate,
			},
			duration: match r.below(5) {
				0 => 0.0,
				1 => r.f64_in(0.0, 0.002),
				_ => r.f64_in(0.0, 0.1),
			},
			easing: gen_easing(r),
		}
	}
	pub fn instant() -> TweenSpec {
		TweenSpec { start: StartSpec::Immediate, duration: 0.0, easing: Easing::Linear }
	}
}

// ------------------------------------------------------------------ effects with typed handles

pub enum FxHandle {
	Filter(FilterHandle),
	Eq(EqFilterHandle),
	/// handle + the highest feedback (dB) that keeps the loop gain (feedback x nested effects) below unity
	Delay(DelayHandle, f64),
	Reverb(ReverbHandle),
	Compressor(CompressorHandle),
	Distortion(DistortionHandle),
	Volume(VolumeControlHandle),
	Panning(PanningControlHandle),
}

pub fn build_fx(spec: &FxSpec) -> (Box<dyn Effect>, FxHandle) {
	match spec.clone() {
		FxSpec::Filter { mode, cutoff, resonance, mix } => {
			let (e, h) = FilterBuilder::new().mode(mode).cutoff(cutoff).resonance(resonance).mix(Mix(mix)).build();
			(e, FxHandle::Filter(h))
		}
		FxSpec::Eq { kind, freq, gain_db, q } => {
			let (e, h) = EqFilterBuilder::new(kind, freq, Decibels(gain_db), q).build();
			(e, FxHandle::Eq(h))
		}
		FxSpec::Delay { time_s, feedback_db, mix, inner } => {
			let mut b = DelayBuilder::new().delay_time(Duration::from_secs_f64(time_s)).feedback(Decibels(feedback_db)).mix(Mix(mix));
			for i in inner {
				b = b.with_feedback_effect(BuiltFx(i.build()));
			}
			let inner_db: f64 = match spec {
				FxSpec::Delay { inner, .. } => inner.iter().map(|i| i.gain_bound_db()).sum(),
				_ => 0.0,
			};
			let (e, h) = b.build();
			// (no floor at -59 dB: with more than 59 dB of gain in the loop only a silent feedback keeps the loop gain below unity)
			(e, FxHandle::Delay(h, if inner_db > 0.0 { -inner_db - 1.0 } else { 0.0 }))
		}
		FxSpec::Reverb { feedback, damping, width, mix } => {
			let (e, h) = ReverbBuilder::new().feedback(feedback).damping(damping).stereo_width(width).mix(Mix(mix)).build();
			(e, FxHandle::Reverb(h))
		}
		FxSpec::Compressor { threshold, ratio, attack_s, release_s, makeup_db, mix } => {
			let (e, h) = CompressorBuilder::new()
				.threshold(threshold)
				.ratio(ratio)
				.attack_duration(Duration::from_secs_f64(attack_s))
				.release_duration(Duration::from_secs_f64(release_s))
				.makeup_gain(Decibels(makeup_db))
				.mix(Mix(mix))
				.build();
			(e, FxHandle::Compressor(h))
		}
		FxSpec::Distortion { kind, drive_db, mix } => {
			let (e, h) = DistortionBuilder::new().kind(kind).drive(Decibels(drive_db)).mix(Mix(mix)).build();
			(e, FxHandle::Distortion(h))
		}
		FxSpec::Volume { db } => {
			let (e, h) = VolumeControlBuilder::new(Decibels(db)).build();
			(e, FxHandle::Volume(h))
		}
		FxSpec::Panning { p } => {
			let (e, h) = PanningControlBuilder(Value::Fixed(Panning(p))).build();
			(e, FxHandle::Panning(h))
		}
	}
}

struct WithHandle(Box<dyn Effect>);
impl EffectBuilder for WithHandle {
	type Handle = ();
	fn build(self) -> (Box<dyn Effect>, ()) {
		(self.0, ())
	}
}

// ------------------------------------------------------------------ sound specifications

#[derive(Clone, Debug)]
pub struct SoundX {
	pub seed: u64,
	pub len: usize,
	pub sr: u32,
	pub slice: Option<(usize, usize)>,
	pub start: usize,
	pub lp: Option<(usize, usize)>,
	pub reverse: bool,
	pub rate: ValSpec,
	pub vol: ValSpec,
	pub pan: ValSpec,
	pub fade_in: Option<TweenSpec>,
	pub start_time: StartSpec,
	pub amp: f32,
	// streaming only
	pub packets: Vec<usize>,
	pub seek_gran: usize,
}

impl SoundX {
	pub fn gen(r: &mut Rng, dev_sr: u32) -> SoundX {
		let len = match r.below(6) {
			0 => r.usize_in(0, 3),
			1 => r.usize_in(4, 64),
			_ => r.usize_in(64, 5000),
		};
		let slice = if len > 0 && r.chance(0.3) {
			let s = r.below(len as u64) as usize;
			Some((s, r.usize_in(s, len)))
		} else {
			None
		};
		let l = slice.map(|(s, e)| e - s).unwrap_or(len);
		let lp = if l > 0 && r.chance(0.4) {
			let a = r.below(l as u64) as usize;
			Some((a, r.usize_in(a + 1, l)))
		} else {
			None
		};
		SoundX {
			seed: r.next(),
			len,
			sr: if r.chance(0.5) { dev_sr } else { *r.pick(&[8000u32, 22050, 44100, 48000, 96000]) },
			slice,
			start: if r.chance(0.3) { r.below(l as u64 + 2) as usize } else { 0 },
			lp,
			reverse: r.chance(0.2),
			rate: ValSpec::gen(r, -4.0, 4.0, &[1.0, 0.0, -1.0, 16.0, -16.0, 0.5]),
			vol: ValSpec::gen(r, -60.0, 12.0, &[0.0, -60.0, 24.0, -80.0, 6.0]),
			pan: ValSpec::gen(r, -1.0, 1.0, &[0.0, -1.0, 1.0, 1.5, -1.5]),
			fade_in: if r.chance(0.25) { Some(TweenSpec::gen(r)) } else { None },
			start_time: match r.below(6) {
				0 => StartSpec::Delayed(if r.chance(0.15) { *r.pick(&EXTREME_DELAYS) } else { r.f64_in(0.0, 0.05) }),
				1 => StartSpec::Clock { c: r.below(4) as usize, ticks: r.f64_in(0.0, 6.0) },
				_ => StartSpec::Immediate,
			},
			// full-scale noise so that sums exceed +-1 and the final clamp is exercised
			amp: if r.chance(0.5) { 1.0 } else { r.f32_in(0.05, 1.0) },
			packets: match r.below(3) {
				0 => vec![r.usize_in(1, 64)],
				1 => vec![1024],
				_ => (0..4).map(|_| r.usize_in(1, 700)).collect(),
			},
			seek_gran: *r.pick(&[1usize, 8, 512]),
		}
	}
}

fn region(a: usize, b: usize) -> Region {
	Region { start: PlaybackPosition::Samples(a), end: EndPosition::Custom(PlaybackPosition::Samples(b)) }
}

// ------------------------------------------------------------------ operations

#[derive(Clone, Debug)]
pub enum ClockSpeedSpec {
	Tps(f64),
	Tpm(f64),
	Spt(f64),
}

#[derive(Clone, Debug)]
pub enum Op {
	AddClock { speed: ClockSpeedSpec },
	ClockStart(usize),
	ClockPause(usize),
	ClockStop(usize),
	ClockSetSpeed(usize, ClockSpeedSpec, TweenSpec),
	AddListener { pos: [f32; 3], ori: [f32; 4] },
	ListenerSetPos(usize, [f32; 3], TweenSpec),
	ListenerSetOri(usize, [f32; 4], TweenSpec),
	AddTweener { init: f64 },
	AddLfo { wave: u8, width: f64, freq: ValSpec, amp: ValSpec, offset: ValSpec, phase: f64 },
	TweenerSet(usize, f64, TweenSpec),
	LfoSet { i: usize, which: u8, val: ValSpec, tween: TweenSpec, wave: u8, phase: f64 },
	AddSend { vol: ValSpec, fx: Vec<FxSpec> },
	SendSetVolume(usize, ValSpec, TweenSpec),
	AddTrack { parent: Option<usize>, spatial: Option<SpatialX>, vol: ValSpec, fx: Vec<FxSpec>, routes: Vec<(usize, ValSpec)>, sound_cap: usize, sub_cap: usize, persist: bool },
	TrackPause(usize, TweenSpec),
	TrackResume(usize, TweenSpec),
	TrackResumeAt(usize, StartSpec, TweenSpec),
	TrackSetVolume(usize, ValSpec, TweenSpec),
	TrackSetSend(usize, usize, ValSpec, TweenSpec),
	TrackSetPosition(usize, [f32; 3], TweenSpec),
	TrackSetStrength(usize, ValSpec, TweenSpec),
	MainVolume(ValSpec, TweenSpec),
	PlayStatic { track: Option<usize>, s: SoundX },
	PlayStreaming { track: Option<usize>, s: SoundX },
	SoundCmd { stream: bool, i: usize, cmd: SoundCmd },
	FxCmd { i: usize, which: u8, val: ValSpec, tween: TweenSpec, kind: u8 },
	Drop { kind: u8, i: usize },
	ChangeSampleRate(u32),
	Callback(usize),
}

#[derive(Clone, Debug)]
pub struct SpatialX {
	pub listener: usize,
	pub pos: [f32; 3],
	pub min: f32,
	pub max: f32,
	pub attenuation: Option<Easing>,
	pub strength: ValSpec,
	/// 1 / 2: the emitter is placed exactly on the left / right ear of its listener (0.1 to the side, as first posed)
	pub at_ear: u8,
}

#[derive(Clone, Debug)]
pub enum SoundCmd {
	Pause(TweenSpec),
	Resume(TweenSpec),
	ResumeAt(StartSpec, TweenSpec),
	Stop(TweenSpec),
	SeekTo(f64),
	SeekBy(f64),
	SetVolume(ValSpec, TweenSpec),
	SetRate(ValSpec, TweenSpec),
	SetPanning(ValSpec, TweenSpec),
	SetLoop(Option<(f64, f64)>),
}

#[derive(Clone, Debug)]
pub struct Program {
	pub sr: u32,
	pub ibs: usize,
	pub caps: [usize; 5],
	pub main_vol: f64,
	pub main_fx: Vec<FxSpec>,
	pub main_sound_cap: usize,
	pub ops: Vec<Op>,
	pub uses_streaming: bool,
}

/// Restrictions of the generated domain: known-finding trigger classes that are excluded while listed.
#[derive(Clone, Debug, Default)]
pub struct Excl {
	pub distortion_silence: bool,
	pub short_delay: bool,
	pub reverse_past_end: bool,
	pub zero_clock_speed: bool,
	pub bad_slice: bool,
	pub bad_loop: bool,
	pub small: bool,
	pub hits: std::collections::BTreeMap<String, u64>,
}

impl Excl {
	fn hit(&mut self, k: &str) {
		*self.hits.entry(k.to_string()).or_insert(0) += 1;
	}
}

fn gen_fx(r: &mut Rng, sr: u32, ex: &mut Excl) -> FxSpec {
	for _ in 0..40 {
		let f = FxSpec::gen(r, sr, 0);
		if ex.small {
			// reverb and long delays allocate and walk large buffers: too slow under an interpreter
			let heavy = match &f {
				FxSpec::Reverb { .. } => true,
				FxSpec::Delay { time_s, inner, .. } => *time_s > 0.001 || !inner.is_empty(),
				_ => false,
			};
			if heavy {
				continue;
			}
		}
		// the lowest device rate of a program is 8000 Hz: a delay must stay >= 1 frame across rate changes
		match f.known_trigger(8000) {
			Some("C13.distortion_drive_silence") if ex.distortion_silence => {
				ex.hit("C01.distortion_drive_silence");
				continue;
			}
			Some("C13.delay_shorter_than_one_frame") if ex.short_delay => {
				ex.hit("C01.delay_shorter_than_one_frame");
				continue;
			}
			_ => return f,
		}
	}
	FxSpec::Volume { db: -3.0 }
}

fn gen_vec3(r: &mut Rng) -> [f32; 3] {
	let m = *r.pick(&[0.0f32, 1.0, 10.0, 1000.0]);
	if r.chance(0.1) {
		[0.0, 0.0, 0.0]
	} else {
		[r.f32_in(-m, m), r.f32_in(-m, m), r.f32_in(-m, m)]
	}
}

fn gen_quat(r: &mut Rng) -> [f32; 4] {
	if r.chance(0.2) {
		return [0.0, 0.0, 0.0, 1.0];
	}
	let q = Quat::from_xyzw(r.noise(), r.noise(), r.noise(), r.noise());
	let q = if q.length() < 1e-3 { Quat::IDENTITY } else { q.normalize() };
	[q.x, q.y, q.z, q.w]
}

fn gen_speed(r: &mut Rng, ex: &mut Excl) -> ClockSpeedSpec {
	let tps = r.log_in(0.1, 2000.0);
	match r.below(8) {
		0 => ClockSpeedSpec::Tps(tps),
		1 => ClockSpeedSpec::Spt(1.0 / tps),
		2 => ClockSpeedSpec::Tps(0.0),
		3 => {
			if ex.zero_clock_speed {
				ex.hit("C01.clock_seconds_per_tick_zero");
				ClockSpeedSpec::Tpm(tps * 60.0)
			} else {
				ClockSpeedSpec::Spt(0.0)
			}
		}
		_ => ClockSpeedSpec::Tpm(tps * 60.0),
	}
}

impl Program {
	/// `small`: programs for interpreters that are ~10^4 x slower (Miri): tiny buffers and sounds, no reverb
	pub fn gen(r: &mut Rng, ex: &mut Excl, n_ops: usize, small: bool) -> Program {
		let sr = *r.pick(&[8000u32, 22050, 44100, 48000, 96000, 192000]);
		let ibs = if small { *r.pick(&[1usize, 2, 3, 7]) } else { *r.pick(&[1usize, 2, 3, 7, 16, 64, 128, 333, 1024]) };
		ex.small = small;
		let cap = |r: &mut Rng| *r.pick(&[1usize, 2, 3, 8, 128]);
		let caps = [cap(r), cap(r), cap(r), cap(r), cap(r)];
		let mut ops = vec![];
		let mut uses_streaming = false;
		let stream_ok = r.chance(0.3);
		// resources first, so that later ops have something to refer to
		for _ in 0..r.below(3) {
			ops.push(Op::AddClock { speed: gen_speed(r, ex) });
		}
		for _ in 0..r.below(3) {
			ops.push(Op::AddListener { pos: gen_vec3(r), ori: gen_quat(r) });
		}
		for _ in 0..r.below(4) {
			if r.chance(0.5) {
				ops.push(Op::AddTweener { init: r.f64_in(-2.0, 2.0) });
			} else {
				ops.push(Op::AddLfo { wave: r.below(4) as u8, width: r.f64_in(0.0, 1.0), freq: ValSpec::gen(r, 0.0, 200.0, &[0.0, 2.0]), amp: ValSpec::gen(r, -3.0, 3.0, &[1.0, 0.0]), offset: ValSpec::gen(r, -2.0, 2.0, &[0.0]), phase: r.f64_in(-7.0, 7.0) });
			}
		}
		for _ in 0..r.below(3) {
			ops.push(Op::AddSend { vol: ValSpec::gen(r, -30.0, 6.0, &[0.0, -60.0]), fx: (0..r.below(3)).map(|_| gen_fx(r, sr, ex)).collect() });
		}
		while ops.len() < n_ops {
			let op = match r.below(40) {
				0 => Op::AddClock { speed: gen_speed(r, ex) },
				1 | 2 => Op::ClockStart(r.below(4) as usize),
				3 => Op::ClockPause(r.below(4) as usize),
				4 => Op::ClockStop(r.below(4) as usize),
				5 => Op::ClockSetSpeed(r.below(4) as usize, gen_speed(r, ex), TweenSpec::gen(r)),
				6 => Op::AddListener { pos: gen_vec3(r), ori: gen_quat(r) },
				7 => Op::ListenerSetPos(r.below(4) as usize, gen_vec3(r), TweenSpec::gen(r)),
				8 => Op::ListenerSetOri(r.below(4) as usize, gen_quat(r), TweenSpec::gen(r)),
				9 => Op::AddTweener { init: r.f64_in(-2.0, 2.0) },
				10 => Op::TweenerSet(r.below(6) as usize, r.f64_in(-3.0, 3.0), TweenSpec::gen(r)),
				11 => Op::LfoSet { i: r.below(6) as usize, which: r.below(5) as u8, val: ValSpec::gen(r, -3.0, 100.0, &[0.0]), tween: TweenSpec::gen(r), wave: r.below(4) as u8, phase: r.f64_in(-7.0, 7.0) },
				12 => Op::AddSend { vol: ValSpec::gen(r, -30.0, 6.0, &[0.0, -60.0]), fx: (0..r.below(3)).map(|_| gen_fx(r, sr, ex)).collect() },
				13 => Op::SendSetVolume(r.below(4) as usize, ValSpec::gen(r, -60.0, 6.0, &[0.0, -60.0]), TweenSpec::gen(r)),
				14 | 15 | 16 => {
					let min = r.f32_in(0.0, 20.0);
					Op::AddTrack {
						parent: if r.chance(0.4) { Some(r.below(8) as usize) } else { None },
						spatial: if r.chance(0.35) {
							Some(SpatialX { listener: r.below(4) as usize, pos: gen_vec3(r), min, max: min + r.f32_in(0.01, 200.0), attenuation: if r.chance(0.2) { None } else { Some(gen_easing(r)) }, strength: ValSpec::gen(r, 0.0, 1.0, &[0.0, 1.0, -0.5, 1.5]), at_ear: if r.chance(0.08) { 1 + r.below(2) as u8 } else { 0 } })
						} else {
							None
						},
						vol: ValSpec::gen(r, -30.0, 6.0, &[0.0, -60.0, 12.0]),
						fx: (0..r.below(3)).map(|_| gen_fx(r, sr, ex)).collect(),
						routes: (0..r.below(3)).map(|_| (r.below(4) as usize, ValSpec::gen(r, -30.0, 6.0, &[0.0, -60.0]))).collect(),
						sound_cap: cap(r),
						sub_cap: cap(r),
						persist: r.chance(0.3),
					}
				}
				17 => Op::TrackPause(r.below(8) as usize, TweenSpec::gen(r)),
				18 => Op::TrackResume(r.below(8) as usize, TweenSpec::gen(r)),
				19 => Op::TrackResumeAt(r.below(8) as usize, TweenSpec::gen(r).start, TweenSpec::gen(r)),
				20 => Op::TrackSetVolume(r.below(8) as usize, ValSpec::gen(r, -60.0, 12.0, &[0.0, -60.0]), TweenSpec::gen(r)),
				21 => Op::TrackSetSend(r.below(8) as usize, r.below(4) as usize, ValSpec::gen(r, -60.0, 6.0, &[0.0]), TweenSpec::gen(r)),
				22 => Op::TrackSetPosition(r.below(8) as usize, gen_vec3(r), TweenSpec::gen(r)),
				23 => Op::TrackSetStrength(r.below(8) as usize, ValSpec::gen(r, 0.0, 1.0, &[0.0, 1.0, 2.0, -1.0]), TweenSpec::gen(r)),
				24 => Op::MainVolume(ValSpec::gen(r, -30.0, 12.0, &[0.0, -60.0, 24.0]), TweenSpec::gen(r)),
				25..=28 => {
					let mut s = SoundX::gen(r, sr);
					if small {
						s.len = s.len.min(48);
						s.slice = None;
						s.lp = s.lp.filter(|(_, b)| *b <= s.len);
					}
					// boundary classes the property names: empty, inverted and out-of-range regions
					if r.chance(0.04) {
						if ex.bad_slice {
							ex.hit("C01.slice_out_of_range_or_inverted");
						} else {
							s.slice = Some(match r.below(3) {
								0 => (0, s.len + r.usize_in(1, 20)),
								1 => (s.len / 2 + 1, s.len / 2),
								_ => (s.len + 3, s.len + 9),
							});
						}
					}
					if r.chance(0.04) {
						if ex.bad_loop {
							ex.hit("C01.empty_or_inverted_loop_region");
						} else {
							let a = r.below(s.len as u64 + 1) as usize;
							s.lp = Some(if r.chance(0.5) { (a, a) } else { (a + 1 + r.below(5) as usize, a) });
						}
					}
					let l = s.slice.map(|(a, b)| b.saturating_sub(a)).unwrap_or(s.len);
					if ex.reverse_past_end && s.reverse && s.start + 1 > l {
						ex.hit("C01.reverse_start_at_or_past_end");
						s.reverse = false;
					}
					Op::PlayStatic { track: if r.chance(0.6) { Some(r.below(8) as usize) } else { None }, s }
				}
				29 => {
					if stream_ok {
						uses_streaming = true;
						let mut s = SoundX::gen(r, sr);
						s.reverse = false;
						if small {
							s.len = s.len.min(48);
							s.slice = None;
							s.lp = s.lp.filter(|(_, b)| *b <= s.len);
						}
						Op::PlayStreaming { track: if r.chance(0.6) { Some(r.below(8) as usize) } else { None }, s }
					} else {
						Op::Callback(r.usize_in(1, ibs * 3))
					}
				}
				30 | 31 | 32 => {
					let stream = r.chance(0.2);
					let cmd = match r.below(10) {
						0 => SoundCmd::Pause(TweenSpec::gen(r)),
						1 => SoundCmd::Resume(TweenSpec::gen(r)),
						2 => SoundCmd::ResumeAt(TweenSpec::gen(r).start, TweenSpec::gen(r)),
						3 => SoundCmd::Stop(TweenSpec::gen(r)),
						// far-away seek targets (1e9 s) make the transport's subtract-in-a-loop wrap run for hours:
						// absurd magnitudes are outside the explored domain (DESIGN 2.3); 10 s past the end is not
						4 => SoundCmd::SeekTo(if r.chance(0.2) { *r.pick(&[0.0, -1.0, 10.0]) } else { r.f64_in(0.0, 0.2) }),
						5 => SoundCmd::SeekBy(r.f64_in(-0.1, 0.1)),
						6 => SoundCmd::SetVolume(ValSpec::gen(r, -60.0, 12.0, &[0.0, -60.0, 24.0]), TweenSpec::gen(r)),
						7 => SoundCmd::SetRate(ValSpec::gen(r, -4.0, 4.0, &[0.0, 1.0, -1.0, 16.0]), TweenSpec::gen(r)),
						8 => SoundCmd::SetPanning(ValSpec::gen(r, -1.0, 1.0, &[0.0, 1.0, -1.0]), TweenSpec::gen(r)),
						_ => SoundCmd::SetLoop(if r.chance(0.3) {
							None
						} else if r.chance(0.08) && !ex.bad_loop {
							let a = r.f64_in(0.0, 0.05);
							Some((a, a))
						} else {
							let a = r.f64_in(0.0, 0.05);
							Some((a, a + r.f64_in(0.0005, 0.05)))
						}),
					};
					Op::SoundCmd { stream, i: r.below(8) as usize, cmd }
				}
				33 | 34 => Op::FxCmd { i: r.below(12) as usize, which: r.below(6) as u8, val: ValSpec::gen(r, -59.0, 100.0, &[0.0, 1.0, 0.5]), tween: TweenSpec::gen(r), kind: r.below(4) as u8 },
				35 => Op::Drop { kind: r.below(7) as u8, i: r.below(8) as usize },
				36 => Op::ChangeSampleRate(*r.pick(&[8000u32, 44100, 48000, 96000, 192000])),
				_ => Op::Callback(match r.below(4) {
					0 => 1,
					1 => ibs,
					_ => r.usize_in(1, if small { 9 } else { ibs * 3 + 3 }),
				}),
			};
			ops.push(op);
		}
		for _ in 0..(if small { 2 } else { 6 }) {
			ops.push(Op::Callback(r.usize_in(1, ibs * 2 + 1)));
		}
		Program {
			sr,
			ibs,
			caps,
			main_vol: if r.chance(0.5) { 0.0 } else { r.f64_in(-12.0, 12.0) },
			main_fx: (0..r.below(3)).map(|_| gen_fx(r, sr, ex)).collect(),
			main_sound_cap: cap(r),
			ops,
			uses_streaming,
		}
	}
}

// ------------------------------------------------------------------ a world executing a program

pub enum AnyTrack {
	Plain(TrackHandle),
	Spatial(SpatialTrackHandle),
}

pub enum AnyMod {
	Tweener(TweenerHandle),
	Lfo(LfoHandle),
}

pub struct World {
	pub rig: Rig,
	pub clocks: Vec<Option<ClockHandle>>,
	pub listeners: Vec<Option<ListenerHandle>>,
	/// pose each listener was created with (same indices as `listeners`)
	pub listener_poses: Vec<(Vec3, Quat)>,
	pub mods: Vec<Option<AnyMod>>,
	pub sends: Vec<Option<SendTrackHandle>>,
	pub tracks: Vec<Option<AnyTrack>>,
	pub statics: Vec<Option<StaticSoundHandle>>,
	pub streams: Vec<Option<(StreamingSoundHandle<String>, Option<Arc<DecState>>)>>,
	pub fx: Vec<FxHandle>,
	pub creation_errors: u64,
	pub ops_applied: u64,
}

fn clock_speed(s: &ClockSpeedSpec) -> ClockSpeed {
	match s {
		ClockSpeedSpec::Tps(v) => ClockSpeed::TicksPerSecond(*v),
		ClockSpeedSpec::Tpm(v) => ClockSpeed::TicksPerMinute(*v),
		ClockSpeedSpec::Spt(v) => ClockSpeed::SecondsPerTick(*v),
	}
}

impl World {
	pub fn new(p: &Program, channels: u16) -> World {
		let mut mb = MainTrackBuilder::new().volume(Decibels(p.main_vol as f32)).sound_capacity(p.main_sound_cap);
		let mut fx = vec![];
		for f in &p.main_fx {
			let (e, h) = build_fx(f);
			mb = mb.with_effect(WithHandle(e));
			fx.push(h);
		}
		let rig = Rig::new(
			RigConfig {
				sample_rate: p.sr,
				ibs: p.ibs,
				channels,
				capacities: Capacities { sub_track_capacity: p.caps[0], send_track_capacity: p.caps[1], clock_capacity: p.caps[2], modulator_capacity: p.caps[3], listener_capacity: p.caps[4] },
			},
			mb,
		);
		World { rig, clocks: vec![], listeners: vec![], listener_poses: vec![], mods: vec![], sends: vec![], tracks: vec![], statics: vec![], streams: vec![], fx, creation_errors: 0, ops_applied: 0 }
	}

	fn mod_ids(&self) -> Vec<ModulatorId> {
		self.mods
			.iter()
			.flatten()
			.map(|m| match m {
				AnyMod::Tweener(h) => h.id(),
				AnyMod::Lfo(h) => h.id(),
			})
			.collect()
	}

	fn start(&self, s: &StartSpec) -> StartTime {
		match s {
			StartSpec::Immediate => StartTime::Immediate,
			StartSpec::Delayed(d) if *d == f64::INFINITY => StartTime::Delayed(Duration::MAX),
			StartSpec::Delayed(d) if *d >= 1.8e19 => StartTime::Delayed(Duration::from_secs(u64::MAX)),
			StartSpec::Delayed(d) => StartTime::Delayed(Duration::from_secs_f64(*d)),
			StartSpec::Clock { c, ticks } => {
				let live: Vec<&ClockHandle> = self.clocks.iter().flatten().collect();
				if live.is_empty() {
					StartTime::Immediate
				} else {
					StartTime::ClockTime(ClockTime::from_ticks_f64(live[*c % live.len()].id(), *ticks))
				}
			}
		}
	}

	fn tween(&self, t: &TweenSpec) -> Tween {
		Tween { start_time: self.start(&t.start), duration: Duration::from_secs_f64(t.duration), easing: t.easing }
	}

	fn nth<'a, T>(v: &'a mut Vec<Option<T>>, i: usize) -> Option<&'a mut T> {
		let idx: Vec<usize> = v.iter().enumerate().filter(|(_, x)| x.is_some()).map(|(k, _)| k).collect();
		if idx.is_empty() {
			return None;
		}
		v[idx[i % idx.len()]].as_mut()
	}

	fn static_data(&self, s: &SoundX, mods: &[ModulatorId]) -> StaticSoundData {
		let frames = crate::probes::noise_frames(s.seed, s.len, s.amp);
		let mut st = StaticSoundSettings::new()
			.start_position(PlaybackPosition::Samples(s.start))
			.reverse(s.reverse)
			.playback_rate(s.rate.to_value(mods, PlaybackRate))
			.volume(s.vol.to_value(mods, |v| Decibels(v as f32)))
			.panning(s.pan.to_value(mods, |v| Panning(v as f32)))
			.start_time(self.start(&s.start_time))
			.fade_in_tween(s.fade_in.as_ref().map(|t| self.tween(t)));
		if let Some((a, b)) = s.lp {
			st = st.loop_region(region(a, b));
		}
		StaticSoundData { sample_rate: s.sr, frames: frames.into(), settings: st, slice: s.slice }
	}

	fn streaming_data(&self, s: &SoundX, mods: &[ModulatorId]) -> StreamingSoundData<String> {
		let frames = Arc::new(crate::probes::noise_frames(s.seed, s.len, s.amp));
		let (dec, _obs) = ScriptedDecoder::new(frames, DecoderScript { sample_rate: s.sr, packets: s.packets.clone(), seek_granularity: s.seek_gran, ..Default::default() });
		let mut st = StreamingSoundSettings::new()
			.start_position(PlaybackPosition::Samples(s.start))
			.playback_rate(s.rate.to_value(mods, PlaybackRate))
			.volume(s.vol.to_value(mods, |v| Decibels(v as f32)))
			.panning(s.pan.to_value(mods, |v| Panning(v as f32)))
			.start_time(self.start(&s.start_time))
			.fade_in_tween(s.fade_in.as_ref().map(|t| self.tween(t)));
		if let Some((a, b)) = s.lp {
			st = st.loop_region(region(a, b));
		}
		let mut d = StreamingSoundData::from_decoder(dec).with_settings(st);
		if let Some((a, b)) = s.slice {
			d = d.slice(region(a, b));
		}
		d
	}

	/// Applies one op. Returns Some(frames) when the op was a callback (output in rig.buf).
	pub fn apply(&mut self, op: &Op) -> Option<usize> {
		self.ops_applied += 1;
		let mods = self.mod_ids();
		match op {
			Op::AddClock { speed } => match self.rig.mgr.add_clock(clock_speed(speed)) {
				Ok(h) => self.clocks.push(Some(h)),
				Err(_) => self.creation_errors += 1,
			},
			Op::ClockStart(i) => {
				if let Some(c) = Self::nth(&mut self.clocks, *i) {
					c.start()
				}
			}
			Op::ClockPause(i) => {
				if let Some(c) = Self::nth(&mut self.clocks, *i) {
					c.pause()
				}
			}
			Op::ClockStop(i) => {
				if let Some(c) = Self::nth(&mut self.clocks, *i) {
					c.stop()
				}
			}
			Op::ClockSetSpeed(i, s, t) => {
				let tw = self.tween(t);
				if let Some(c) = Self::nth(&mut self.clocks, *i) {
					c.set_speed(clock_speed(s), tw)
				}
			}
			Op::AddListener { pos, ori } => match self.rig.mgr.add_listener(Vec3::from(*pos), Quat::from_array(*ori)) {
				Ok(h) => {
					self.listeners.push(Some(h));
					self.listener_poses.push((Vec3::from(*pos), Quat::from_array(*ori)));
				}
				Err(_) => self.creation_errors += 1,
			},
			Op::ListenerSetPos(i, p, t) => {
				let tw = self.tween(t);
				if let Some(l) = Self::nth(&mut self.listeners, *i) {
					l.set_position(Vec3::from(*p), tw)
				}
			}
			Op::ListenerSetOri(i, q, t) => {
				let tw = self.tween(t);
				if let Some(l) = Self::nth(&mut self.listeners, *i) {
					l.set_orientation(Quat::from_array(*q), tw)
				}
			}
			Op::AddTweener { init } => match self.rig.mgr.add_modulator(TweenerBuilder { initial_value: *init }) {
				Ok(h) => self.mods.push(Some(AnyMod::Tweener(h))),
				Err(_) => self.creation_errors += 1,
			},
			Op::AddLfo { wave, width, freq, amp, offset, phase } => {
				let w = match wave {
					0 => Waveform::Sine,
					1 => Waveform::Triangle,
					2 => Waveform::Saw,
					_ => Waveform::Pulse { width: *width },
				};
				let b = LfoBuilder::new().waveform(w).frequency(freq.to_value(&mods, |v| v)).amplitude(amp.to_value(&mods, |v| v)).offset(offset.to_value(&mods, |v| v)).starting_phase(*phase);
				match self.rig.mgr.add_modulator(b) {
					Ok(h) => self.mods.push(Some(AnyMod::Lfo(h))),
					Err(_) => self.creation_errors += 1,
				}
			}
			Op::TweenerSet(i, v, t) => {
				let tw = self.tween(t);
				if let Some(AnyMod::Tweener(h)) = Self::nth(&mut self.mods, *i) {
					h.set(*v, tw)
				}
			}
			Op::LfoSet { i, which, val, tween, wave, phase } => {
				let tw = self.tween(tween);
				if let Some(AnyMod::Lfo(h)) = Self::nth(&mut self.mods, *i) {
					match which {
						0 => h.set_frequency(val.to_value(&mods, |v| v.abs()), tw),
						1 => h.set_amplitude(val.to_value(&mods, |v| v), tw),
						2 => h.set_offset(val.to_value(&mods, |v| v), tw),
						3 => h.set_waveform(match wave {
							0 => Waveform::Sine,
							1 => Waveform::Triangle,
							2 => Waveform::Saw,
							_ => Waveform::Pulse { width: 0.3 },
						}),
						_ => h.set_phase(*phase),
					}
				}
			}
			Op::AddSend { vol, fx } => {
				let mut b = SendTrackBuilder::new().volume(vol.to_value(&mods, |v| Decibels(v as f32)));
				let mut hs = vec![];
				for f in fx {
					let (e, h) = build_fx(f);
					b = b.with_effect(WithHandle(e));
					hs.push(h);
				}
				match self.rig.mgr.add_send_track(b) {
					Ok(h) => {
						self.sends.push(Some(h));
						self.fx.extend(hs);
					}
					Err(_) => self.creation_errors += 1,
				}
			}
			Op::SendSetVolume(i, v, t) => {
				let tw = self.tween(t);
				if let Some(s) = Self::nth(&mut self.sends, *i) {
					s.set_volume(v.to_value(&mods, |x| Decibels(x as f32)), tw)
				}
			}
			Op::AddTrack { parent, spatial, vol, fx, routes, sound_cap, sub_cap, persist } => {
				let mut hs = vec![];
				let live_sends: Vec<kira::track::SendTrackId> = self.sends.iter().flatten().map(|s| s.id()).collect();
				let live_listeners: Vec<kira::listener::ListenerId> = self.listeners.iter().flatten().map(|l| l.id()).collect();
				let volume = vol.to_value(&mods, |v| Decibels(v as f32));
				enum B {
					P(TrackBuilder),
					S(SpatialTrackBuilder, kira::listener::ListenerId, [f32; 3]),
				}
				let mut b = match spatial {
					Some(sx) if !live_listeners.is_empty() => {
						let mut sb = SpatialTrackBuilder::new()
							.volume(volume)
							.sound_capacity(*sound_cap)
							.sub_track_capacity(*sub_cap)
							.persist_until_sounds_finish(*persist)
							.distances(SpatialTrackDistances { min_distance: sx.min, max_distance: sx.max })
							.attenuation_function(sx.attenuation)
							.spatialization_strength(sx.strength.to_value(&mods, |v| v as f32));
						for f in fx {
							let (e, h) = build_fx(f);
							sb = sb.with_effect(WithHandle(e));
							hs.push(h);
						}
						for (s, v) in routes {
							if !live_sends.is_empty() {
								sb = sb.with_send(live_sends[*s % live_sends.len()], v.to_value(&mods, |x| Decibels(x as f32)));
							}
						}
						let li = sx.listener % live_listeners.len();
						let pos = if sx.at_ear > 0 {
							// same expression as the library uses for the ear positions, so the difference is exactly zero
							let live_idx: Vec<usize> = self.listeners.iter().enumerate().filter(|(_, l)| l.is_some()).map(|(i, _)| i).collect();
							let (lp, lo) = self.listener_poses[live_idx[li]];
							let ear = lp + lo * (if sx.at_ear == 1 { Vec3::NEG_X } else { Vec3::X } * 0.1);
							[ear.x, ear.y, ear.z]
						} else {
							sx.pos
						};
						B::S(sb, live_listeners[li], pos)
					}
					_ => {
						let mut tb = TrackBuilder::new().volume(volume).sound_capacity(*sound_cap).sub_track_capacity(*sub_cap).persist_until_sounds_finish(*persist);
						for f in fx {
							let (e, h) = build_fx(f);
							tb = tb.with_effect(WithHandle(e));
							hs.push(h);
						}
						for (s, v) in routes {
							if !live_sends.is_empty() {
								tb = tb.with_send(live_sends[*s % live_sends.len()], v.to_value(&mods, |x| Decibels(x as f32)));
							}
						}
						B::P(tb)
					}
				};
				let parent_h = parent.and_then(|p| Self::nth(&mut self.tracks, p));
				let res: Result<AnyTrack, ()> = match (parent_h, &mut b) {
					(Some(AnyTrack::Plain(ph)), _) => match b {
						B::P(tb) => ph.add_sub_track(tb).map(AnyTrack::Plain).map_err(|_| ()),
						B::S(sb, l, pos) => ph.add_spatial_sub_track(l, Vec3::from(pos), sb).map(AnyTrack::Spatial).map_err(|_| ()),
					},
					(Some(AnyTrack::Spatial(ph)), _) => match b {
						B::P(tb) => ph.add_sub_track(tb).map(AnyTrack::Plain).map_err(|_| ()),
						B::S(sb, l, pos) => ph.add_spatial_sub_track(l, Vec3::from(pos), sb).map(AnyTrack::Spatial).map_err(|_| ()),
					},
					(None, _) => match b {
						B::P(tb) => self.rig.mgr.add_sub_track(tb).map(AnyTrack::Plain).map_err(|_| ()),
						B::S(sb, l, pos) => self.rig.mgr.add_spatial_sub_track(l, Vec3::from(pos), sb).map(AnyTrack::Spatial).map_err(|_| ()),
					},
				};
				match res {
					Ok(t) => {
						self.tracks.push(Some(t));
						self.fx.extend(hs);
					}
					Err(_) => self.creation_errors += 1,
				}
			}
			Op::TrackPause(i, t) => {
				let tw = self.tween(t);
				match Self::nth(&mut self.tracks, *i) {
					Some(AnyTrack::Plain(h)) => h.pause(tw),
					Some(AnyTrack::Spatial(h)) => h.pause(tw),
					None => {}
				}
			}
			Op::TrackResume(i, t) => {
				let tw = self.tween(t);
				match Self::nth(&mut self.tracks, *i) {
					Some(AnyTrack::Plain(h)) => h.resume(tw),
					Some(AnyTrack::Spatial(h)) => h.resume(tw),
					None => {}
				}
			}
			Op::TrackResumeAt(i, s, t) => {
				let tw = self.tween(t);
				let st = self.start(s);
				match Self::nth(&mut self.tracks, *i) {
					Some(AnyTrack::Plain(h)) => h.resume_at(st, tw),
					Some(AnyTrack::Spatial(h)) => h.resume_at(st, tw),
					None => {}
				}
			}
			Op::TrackSetVolume(i, v, t) => {
				let tw = self.tween(t);
				let val = v.to_value(&mods, |x| Decibels(x as f32));
				match Self::nth(&mut self.tracks, *i) {
					Some(AnyTrack::Plain(h)) => h.set_volume(val, tw),
					Some(AnyTrack::Spatial(h)) => h.set_volume(val, tw),
					None => {}
				}
			}
			Op::TrackSetSend(i, s, v, t) => {
				let tw = self.tween(t);
				let val = v.to_value(&mods, |x| Decibels(x as f32));
				let live_sends: Vec<kira::track::SendTrackId> = self.sends.iter().flatten().map(|s| s.id()).collect();
				if !live_sends.is_empty() {
					let id = live_sends[*s % live_sends.len()];
					match Self::nth(&mut self.tracks, *i) {
						Some(AnyTrack::Plain(h)) => {
							let _ = h.set_send(id, val, tw);
						}
						Some(AnyTrack::Spatial(h)) => {
							let _ = h.set_send(id, val, tw);
						}
						None => {}
					}
				}
			}
			Op::TrackSetPosition(i, p, t) => {
				let tw = self.tween(t);
				if let Some(AnyTrack::Spatial(h)) = Self::nth(&mut self.tracks, *i) {
					h.set_position(Vec3::from(*p), tw)
				}
			}
			Op::TrackSetStrength(i, v, t) => {
				let tw = self.tween(t);
				let val = v.to_value(&mods, |x| x as f32);
				if let Some(AnyTrack::Spatial(h)) = Self::nth(&mut self.tracks, *i) {
					h.set_spatialization_strength(val, tw)
				}
			}
			Op::MainVolume(v, t) => {
				let tw = self.tween(t);
				self.rig.mgr.main_track().set_volume(v.to_value(&mods, |x| Decibels(x as f32)), tw)
			}
			Op::PlayStatic { track, s } => {
				let d = self.static_data(s, &mods);
				let r = match track.and_then(|t| Self::nth(&mut self.tracks, t)) {
					Some(AnyTrack::Plain(h)) => h.play(d),
					Some(AnyTrack::Spatial(h)) => h.play(d),
					None => self.rig.mgr.play(d),
				};
				match r {
					Ok(h) => self.statics.push(Some(h)),
					Err(_) => self.creation_errors += 1,
				}
			}
			Op::PlayStreaming { track, s } => {
				let d = self.streaming_data(s, &mods);
				let r = match track.and_then(|t| Self::nth(&mut self.tracks, t)) {
					Some(AnyTrack::Plain(h)) => h.play(d),
					Some(AnyTrack::Spatial(h)) => h.play(d),
					None => self.rig.mgr.play(d),
				};
				let st = crate::hooks::last_decoder();
				match r {
					Ok(h) => self.streams.push(Some((h, st))),
					Err(_) => self.creation_errors += 1,
				}
			}
			Op::SoundCmd { stream, i, cmd } => {
				macro_rules! apply_cmd {
					($h:expr) => {
						match cmd {
							SoundCmd::Pause(t) => $h.pause(self.tween(t)),
							SoundCmd::Resume(t) => $h.resume(self.tween(t)),
							SoundCmd::ResumeAt(s, t) => $h.resume_at(self.start(s), self.tween(t)),
							SoundCmd::Stop(t) => $h.stop(self.tween(t)),
							SoundCmd::SeekTo(p) => $h.seek_to(*p),
							SoundCmd::SeekBy(p) => $h.seek_by(*p),
							SoundCmd::SetVolume(v, t) => $h.set_volume(v.to_value(&mods, |x| Decibels(x as f32)), self.tween(t)),
							SoundCmd::SetRate(v, t) => $h.set_playback_rate(v.to_value(&mods, PlaybackRate), self.tween(t)),
							SoundCmd::SetPanning(v, t) => $h.set_panning(v.to_value(&mods, |x| Panning(x as f32)), self.tween(t)),
							SoundCmd::SetLoop(l) => match l {
								Some((a, b)) => $h.set_loop_region(*a..*b),
								None => $h.set_loop_region(None),
							},
						}
					};
				}
				if *stream {
					let idx: Vec<usize> = self.streams.iter().enumerate().filter(|(_, x)| x.is_some()).map(|(k, _)| k).collect();
					if !idx.is_empty() {
						let k = idx[*i % idx.len()];
						let mut taken = self.streams[k].take().unwrap();
						apply_cmd!(taken.0);
						self.streams[k] = Some(taken);
					}
				} else {
					let idx: Vec<usize> = self.statics.iter().enumerate().filter(|(_, x)| x.is_some()).map(|(k, _)| k).collect();
					if !idx.is_empty() {
						let k = idx[*i % idx.len()];
						let mut taken = self.statics[k].take().unwrap();
						apply_cmd!(taken);
						self.statics[k] = Some(taken);
					}
				}
			}
			Op::FxCmd { i, which, val, tween, kind } => {
				if !self.fx.is_empty() {
					let tw = self.tween(tween);
					let k = *i % self.fx.len();
					let f64v = |lo: f64, hi: f64| -> Value<f64> {
						match val {
							ValSpec::Fixed(v) => Value::Fixed(v.clamp(lo, hi)),
							other => other.to_value(&mods, |x| x.clamp(lo, hi)),
						}
					};
					let dbv = |lo: f64, hi: f64| -> Value<Decibels> {
						match val {
							ValSpec::Fixed(v) => Value::Fixed(Decibels(v.clamp(lo, hi) as f32)),
							other => other.to_value(&mods, |x| Decibels(x.clamp(lo, hi) as f32)),
						}
					};
					let mixv = || -> Value<Mix> { val.to_value(&mods, |x| Mix((x / 50.0) as f32)) };
					match &mut self.fx[k] {
						FxHandle::Filter(h) => match which % 4 {
							0 => h.set_cutoff(f64v(0.0, 200000.0), tw),
							1 => h.set_resonance(f64v(-1.0, 2.0), tw),
							2 => h.set_mix(mixv(), tw),
							_ => h.set_mode([FilterMode::LowPass, FilterMode::BandPass, FilterMode::HighPass, FilterMode::Notch][*kind as usize % 4]),
						},
						FxHandle::Eq(h) => match which % 4 {
							0 => h.set_frequency(f64v(0.0, 200000.0), tw),
							1 => h.set_gain(dbv(-40.0, 24.0), tw),
							2 => h.set_q(f64v(-1.0, 30.0), tw),
							_ => h.set_kind([EqFilterKind::Bell, EqFilterKind::LowShelf, EqFilterKind::HighShelf][*kind as usize % 3]),
						},
						FxHandle::Delay(h, max_fb) => match which % 2 {
							// the loop gain stays below unity: above it the echo diverges by construction
							0 => h.set_feedback(dbv((*max_fb - 40.0).min(-59.0), *max_fb), tw),
							_ => h.set_mix(mixv(), tw),
						},
						FxHandle::Reverb(h) => match which % 4 {
							0 => h.set_feedback(f64v(0.0, 1.0), tw),
							1 => h.set_damping(f64v(0.0, 1.0), tw),
							2 => h.set_stereo_width(f64v(0.0, 1.0), tw),
							_ => h.set_mix(mixv(), tw),
						},
						FxHandle::Compressor(h) => match which % 6 {
							0 => h.set_threshold(f64v(-59.0, 0.0), tw),
							1 => h.set_ratio(f64v(1.0, 100.0), tw),
							2 => h.set_attack_duration(Value::Fixed(Duration::from_secs_f64(val.min().abs().min(1.0))), tw),
							3 => h.set_release_duration(Value::Fixed(Duration::from_secs_f64(val.min().abs().min(1.0))), tw),
							4 => h.set_makeup_gain(dbv(-24.0, 24.0), tw),
							_ => h.set_mix(mixv(), tw),
						},
						FxHandle::Distortion(h) => match which % 3 {
							// drive stays above -60 dB while the distortion finding is listed (clamped to -59)
							0 => h.set_drive(dbv(-59.0, 40.0), tw),
							1 => h.set_mix(mixv(), tw),
							_ => h.set_kind([DistortionKind::HardClip, DistortionKind::SoftClip][*kind as usize % 2]),
						},
						FxHandle::Volume(h) => h.set_volume(dbv(-80.0, 24.0), tw),
						FxHandle::Panning(h) => h.set_panning(val.to_value(&mods, |x| Panning((x / 50.0) as f32)), tw),
					}
				}
			}
			Op::Drop { kind, i } => {
				fn drop_nth<T>(v: &mut Vec<Option<T>>, i: usize) {
					let idx: Vec<usize> = v.iter().enumerate().filter(|(_, x)| x.is_some()).map(|(k, _)| k).collect();
					if !idx.is_empty() {
						v[idx[i % idx.len()]] = None;
					}
				}
				match kind {
					0 => drop_nth(&mut self.clocks, *i),
					1 => drop_nth(&mut self.listeners, *i),
					2 => drop_nth(&mut self.mods, *i),
					3 => drop_nth(&mut self.sends, *i),
					4 => drop_nth(&mut self.tracks, *i),
					5 => drop_nth(&mut self.statics, *i),
					_ => drop_nth(&mut self.streams, *i),
				}
			}
			Op::ChangeSampleRate(sr) => self.rig.change_sample_rate(*sr),
			Op::Callback(n) => {
				self.rig.callback(*n);
				return Some(*n);
			}
		}
		None
	}

	/// Stops every streaming sound and runs a few callbacks so decoder threads can end.
	pub fn teardown(&mut self) {
		let t = Tween { duration: Duration::ZERO, ..Default::default() };
		let mut any = false;
		for s in self.streams.iter_mut().flatten() {
			s.0.stop(t);
			any = true;
		}
		if any {
			for tr in self.tracks.iter_mut().flatten() {
				match tr {
					AnyTrack::Plain(h) => h.resume(t),
					AnyTrack::Spatial(h) => h.resume(t),
				}
			}
			self.rig.watch_alloc = false;
			for _ in 0..3 {
				self.rig.callback(8);
			}
		}
	}
}

pub fn silent() -> Frame {
	Frame::ZERO
}
