//! kvh — kira verification harness (runtime monitoring).
//!
//! kvh run <ID> --tier quick|thorough --seed S --shard i --nshards n --out FILE
//!         [--known k1,k2,...] [--case stream:idx] [--budget secs] [--engine name] [--verbose]
//! kvh confirm <finding-key>      exit 10 if the listed known finding still reproduces

#![allow(clippy::too_many_arguments)]
#![allow(dead_code)]

pub mod hooks;
pub mod monitors;
pub mod probes;
pub mod props;
pub mod refmodel;
pub mod rig;
pub mod scene;
pub mod sched;
pub mod util;
pub mod world;

use std::collections::{BTreeMap, HashSet};
use std::time::Instant;

use util::{Ctx, Tier};

#[cfg(not(miri))]
#[global_allocator]
static GLOBAL: monitors::CountingAlloc = monitors::CountingAlloc;

fn main() {
	let args: Vec<String> = std::env::args().skip(1).collect();
	if args.is_empty() {
		eprintln!("usage: kvh run <ID> ... | kvh confirm <key>");
		std::process::exit(2);
	}
	let code = match args[0].as_str() {
		"run" => run(&args[1..]),
		"confirm" => confirm(&args[1..]),
		_ => {
			eprintln!("unknown subcommand");
			2
		}
	};
	std::process::exit(code);
}

fn parse_ctx(args: &[String]) -> (Ctx, Option<String>) {
	let id = args[0].clone();
	let mut ctx = Ctx {
		id,
		tier: Tier::Quick,
		seed: 1,
		shard: 0,
		nshards: 1,
		engine: "native-rel".into(),
		known: HashSet::new(),
		only_case: None,
		budget_s: 30.0,
		start: Instant::now(),
		evaluations: 0,
		distinct: HashSet::new(),
		samples: vec![],
		counters: BTreeMap::new(),
		maxima: BTreeMap::new(),
		violations: vec![],
		inconclusive: 0,
		excluded: BTreeMap::new(),
		notes: vec![],
		verbose: false,
		replay_dir: "/verif/replays".into(),
		max_violations: 5,
	};
	let mut out = None;
	let mut i = 1;
	while i < args.len() {
		let a = args[i].as_str();
		let mut val = || {
			i += 1;
			args.get(i).cloned().unwrap_or_default()
		};
		match a {
			"--tier" => {
				ctx.tier = if val() == "thorough" { Tier::Thorough } else { Tier::Quick }
			}
			"--seed" => ctx.seed = val().parse().unwrap_or(1),
			"--shard" => ctx.shard = val().parse().unwrap_or(0),
			"--nshards" => ctx.nshards = val().parse().unwrap_or(1),
			"--out" => out = Some(val()),
			"--engine" => ctx.engine = val(),
			"--budget" => ctx.budget_s = val().parse().unwrap_or(30.0),
			"--replay-dir" => ctx.replay_dir = val(),
			"--known" => {
				for k in val().split(',') {
					if !k.is_empty() {
						ctx.known.insert(k.to_string());
					}
				}
			}
			"--case" => {
				let v = val();
				let (s, c) = v.rsplit_once(':').unwrap_or(("", "0"));
				ctx.only_case = Some((s.to_string(), c.parse().unwrap_or(0)));
			}
			"--verbose" => ctx.verbose = true,
			_ => {
				eprintln!("unknown arg {}", a);
				std::process::exit(2);
			}
		}
		i += 1;
	}
	if ctx.replaying() {
		ctx.verbose = true;
		ctx.nshards = 1;
		ctx.shard = 0;
	}
	(ctx, out)
}

fn run(args: &[String]) -> i32 {
	if args.is_empty() {
		return 2;
	}
	let (mut ctx, out) = parse_ctx(args);
	monitors::install_panic_hook(ctx.verbose);
	hooks::install();
	#[cfg(not(miri))]
	{
		let tid = monitors::current_tid();
		if tid != 0 {
			monitors::spawn_watchdog(tid, 5.0);
		}
	}
	let ok = props::dispatch(&mut ctx);
	if !ok {
		eprintln!("unknown property {}", ctx.id);
		return 2;
	}
	// panics raised in harness code and not consumed by a case are harness errors
	let leftover = monitors::take_panics();
	let mut harness_err = false;
	for p in &leftover {
		if p.in_harness() {
			eprintln!("HARNESS-ERROR: panic in harness code: {:?}", p);
			harness_err = true;
		}
	}
	let res = ctx.result_json().to_string();
	if let Some(o) = out {
		if let Err(e) = std::fs::write(&o, &res) {
			eprintln!("cannot write {}: {}", o, e);
			return 2;
		}
	} else if ctx.verbose {
		println!("evaluations={} distinct={} violations={} counters={:?} maxima={:?} excluded={:?}", ctx.evaluations, ctx.distinct.len(), ctx.violations.len(), ctx.counters, ctx.maxima, ctx.excluded);
	}
	if !ctx.violations.is_empty() {
		1
	} else if harness_err {
		2
	} else {
		0
	}
}

fn confirm(args: &[String]) -> i32 {
	if args.is_empty() {
		return 2;
	}
	monitors::install_panic_hook(false);
	hooks::install();
	#[cfg(not(miri))]
	{
		let tid = monitors::current_tid();
		if tid != 0 {
			monitors::spawn_watchdog(tid, 3.0);
		}
	}
	match props::confirm(&args[0]) {
		Some(Some(what)) => {
			println!("REPRODUCED {}", what);
			10
		}
		Some(None) => {
			println!("NOT-REPRODUCED {}", args[0]);
			0
		}
		None => {
			eprintln!("unknown finding key {}", args[0]);
			2
		}
	}
}
