//! Controlled scheduler over kira's verif hooks: threads under test park at every hook hit (and at
//! explicit harness yield points); exactly one runs at a time; the next one is chosen by a strategy
//! (depth-first enumeration of all choice sequences, or seeded random). A complete schedule is the
//! sequence of (thread, site) steps, which is also the replay.

use std::cell::Cell;
use std::sync::{Arc, Condvar, Mutex};

#[derive(Clone, Debug, PartialEq)]
enum TS {
	NotStarted,
	Running,
	Parked(&'static str, u64, u64),
	Finished,
}

pub struct Step {
	pub thread: usize,
	pub site: &'static str,
	pub a: u64,
	pub b: u64,
}

struct State {
	threads: Vec<TS>,
	running: Option<usize>,
	/// choices to follow (prefix), then first-enabled
	prefix: Vec<usize>,
	/// (chosen index among enabled, number enabled) for every scheduling point of this run
	log: Vec<(usize, usize)>,
	steps: Vec<Step>,
	rng: Option<crate::util::Rng>,
	poisoned: bool,
}

pub struct Sched {
	st: Mutex<State>,
	cv: Condvar,
}

thread_local! {
	static MY: Cell<Option<(usize, *const Sched)>> = const { Cell::new(None) };
}

impl Sched {
	fn pick(st: &mut State) -> Option<usize> {
		let enabled: Vec<usize> = st.threads.iter().enumerate().filter(|(_, t)| matches!(t, TS::Parked(..) | TS::NotStarted)).map(|(i, _)| i).collect();
		if enabled.is_empty() {
			return None;
		}
		let pos = st.log.len();
		let c = if pos < st.prefix.len() {
			st.prefix[pos].min(enabled.len() - 1)
		} else if let Some(r) = st.rng.as_mut() {
			r.below(enabled.len() as u64) as usize
		} else {
			0
		};
		st.log.push((c, enabled.len()));
		Some(enabled[c])
	}

	/// Called by a thread under test at a yield point.
	fn yield_at(&self, me: usize, site: &'static str, a: u64, b: u64) {
		let mut st = self.st.lock().unwrap();
		if st.poisoned {
			return;
		}
		st.steps.push(Step { thread: me, site, a, b });
		st.threads[me] = TS::Parked(site, a, b);
		let next = Self::pick(&mut st);
		st.running = next;
		if let Some(n) = next {
			if st.threads[n] != TS::NotStarted {
				st.threads[n] = TS::Running;
			} else {
				st.threads[n] = TS::Running;
			}
		}
		self.cv.notify_all();
		while st.running != Some(me) && !st.poisoned {
			st = self.cv.wait(st).unwrap();
		}
	}

	fn finish(&self, me: usize) {
		let mut st = self.st.lock().unwrap();
		st.threads[me] = TS::Finished;
		let next = Self::pick(&mut st);
		st.running = next;
		if let Some(n) = next {
			st.threads[n] = TS::Running;
		}
		self.cv.notify_all();
	}

	fn wait_turn(&self, me: usize) {
		let mut st = self.st.lock().unwrap();
		while st.running != Some(me) && !st.poisoned {
			st = self.cv.wait(st).unwrap();
		}
	}
}

static FILTER: std::sync::Mutex<Option<fn(&str) -> bool>> = std::sync::Mutex::new(None);

/// Only sites accepted by the filter are scheduling points (None: every hook site).
pub fn set_site_filter(f: Option<fn(&str) -> bool>) {
	*FILTER.lock().unwrap() = f;
}

fn hook(site: &'static str, a: u64, b: u64) {
	if let Some(f) = *FILTER.lock().unwrap() {
		if !f(site) {
			return;
		}
	}
	if let Some((me, s)) = MY.with(|m| m.get()) {
		// SAFETY: the scheduler outlives its threads (joined in `run`)
		let s = unsafe { &*s };
		s.yield_at(me, site, a, b);
	}
}

/// Explicit yield point in harness code running on a scheduled thread.
pub fn yield_now(site: &'static str) {
	hook(site, 0, 0);
}

pub struct RunResult {
	pub log: Vec<(usize, usize)>,
	pub steps: Vec<(usize, &'static str)>,
}

/// Runs the given thread bodies under the scheduler, following `prefix` and then either the
/// first enabled thread (rng None) or a random one. Returns the choice log and the step trace.
pub fn run(bodies: Vec<Box<dyn FnOnce() + Send>>, prefix: Vec<usize>, rng: Option<crate::util::Rng>) -> RunResult {
	let n = bodies.len();
	let s = Arc::new(Sched { st: Mutex::new(State { threads: vec![TS::NotStarted; n], running: None, prefix, log: vec![], steps: vec![], rng, poisoned: false }), cv: Condvar::new() });
	crate::hooks::set_sched(Some(hook));
	let mut handles = vec![];
	for (i, body) in bodies.into_iter().enumerate() {
		let s2 = s.clone();
		handles.push(
			std::thread::Builder::new()
				.name(format!("sched-{}", i))
				.spawn(move || {
					MY.with(|m| m.set(Some((i, Arc::as_ptr(&s2)))));
					s2.wait_turn(i);
					let r = std::panic::catch_unwind(std::panic::AssertUnwindSafe(body));
					MY.with(|m| m.set(None));
					if r.is_err() {
						let mut st = s2.st.lock().unwrap();
						st.poisoned = true;
						s2.cv.notify_all();
					}
					s2.finish(i);
				})
				.unwrap(),
		);
	}
	// start: pick the first thread
	{
		let mut st = s.st.lock().unwrap();
		let next = Sched::pick(&mut st);
		st.running = next;
		if let Some(nx) = next {
			st.threads[nx] = TS::Running;
		}
		s.cv.notify_all();
	}
	for h in handles {
		let _ = h.join();
	}
	crate::hooks::set_sched(None);
	let st = s.st.lock().unwrap();
	RunResult { log: st.log.clone(), steps: st.steps.iter().map(|x| (x.thread, x.site)).collect() }
}

/// Depth-first enumeration helper: given the choice log of the last run, the prefix of the next
/// unexplored schedule (None when the space is exhausted).
pub fn next_prefix(log: &[(usize, usize)]) -> Option<Vec<usize>> {
	let mut p: Vec<(usize, usize)> = log.to_vec();
	while let Some((c, n)) = p.pop() {
		if c + 1 < n {
			let mut out: Vec<usize> = p.iter().map(|x| x.0).collect();
			out.push(c + 1);
			return Some(out);
		}
	}
	None
}

/// Like `next_prefix`, but never changes the first `fixed` choices: returns None when the subtree below
/// that fixed prefix is exhausted (used to split one depth-first enumeration over several processes).
pub fn next_prefix_within(log: &[(usize, usize)], fixed: usize) -> Option<Vec<usize>> {
	let mut p: Vec<(usize, usize)> = log.to_vec();
	while p.len() > fixed {
		let (c, n) = p.pop().unwrap();
		if c + 1 < n {
			let mut out: Vec<usize> = p.iter().map(|x| x.0).collect();
			out.push(c + 1);
			return Some(out);
		}
	}
	None
}
