#!/bin/bash
# usage: [VERIF_SRC=/tmp/dverif] mutant_sandbox.sh <patch-file|none> <ID> [tier]
# Tests a patch WITHOUT touching /repo: a scratch worktree of /repo HEAD (/tmp/mrepo) and a scratch copy of /verif
# (/tmp/mverif, harness pointed at /tmp/mrepo) are created on first use and reused; the patch is applied there, the
# check is run there, and the patch is reverted. Remove both directories (and `git -C /repo worktree prune`) when done.
set -u
P="$1"; ID="$2"; TIER="${3:-quick}"
if [ ! -d /tmp/mrepo ]; then git -C /repo worktree add -q --detach /tmp/mrepo HEAD || exit 3; cp /repo/Cargo.lock /tmp/mrepo/Cargo.lock; fi
git -C /tmp/mrepo checkout -q --detach $(git -C /repo rev-parse HEAD) 2>/dev/null
git -C /tmp/mrepo checkout -- . 
mkdir -p /tmp/mverif
SRC=${VERIF_SRC:-/verif}
rsync -a --delete --exclude 'harness/target*' --exclude replays --exclude evidence --exclude .git $SRC/ /tmp/mverif/
mkdir -p /tmp/mverif/evidence /tmp/mverif/replays
sed -i 's#path = "/repo/crates/kira"#path = "/tmp/mrepo/crates/kira"#' /tmp/mverif/harness/Cargo.toml
cd /tmp/mrepo && { [ "$P" = "none" ] || git apply "$P" || { echo "patch does not apply"; exit 3; }; }
cd /tmp/mverif && ./check "$ID" "$TIER" 2>&1 | grep -E "VIOLATION|what:|\[check\] $ID" | grep -v KNOWN | head -${LINES_MAX:-6} | cut -c1-${COLS_MAX:-400}
rc=${PIPESTATUS[0]}
cd /tmp/mrepo && git checkout -- .
echo "check rc=$rc"
