#!/usr/bin/env python3
"""usage: record_round.py <round-number> <matrix.tsv> <confirm.log> <missed-at-first: comma list>
Writes meta.json for every seed of that round under /verif/seeded, merges the matrix lines into seeded/RESULTS.tsv and
prints the markdown table rows for DESIGN.md."""
import json,re,os,subprocess,sys
rnd=int(sys.argv[1]); matrix=sys.argv[2]; conflog=sys.argv[3]; missed=set(sys.argv[4].split(',')) if len(sys.argv)>4 and sys.argv[4] else set()
caught_by_other=dict(x.split('=') for x in sys.argv[5].split(',')) if len(sys.argv)>5 and sys.argv[5] else {}
res={}
for l in open('/verif/seeded/RESULTS.tsv'):
    f=l.rstrip('\n').split('\t')
    if len(f)>=5: res[f[0]]=f
for l in open(matrix):
    f=l.rstrip('\n').split('\t')
    if len(f)>=5: res[f[0]]=f
conf={}
for l in open(conflog):
    m=re.match(r'SUMMARY id=(\S+) demo_passes_without=(\d) demo_fails_with=(\d) suite_with_change\(pass:fail\)=(\d+):(\d+)',l)
    if m: conf[m.group(1)]=m.groups()
head=subprocess.run(['git','-C','/repo','log','--format=%h','-1'],capture_output=True,text=True).stdout.strip()
flavour={4:" and, in round 4, for changes that are hard to find: interactions between two features and easily forgotten dimensions of the property's quantifier",
         5:" and, in round 5, for faults of accumulation over long histories, dependence on the device configuration, commands arriving while something else is in progress and unusual-but-legal argument values (the kinds of change seen in earlier rounds were named as ones to avoid)",
         6:" and, in round 6, for a narrow change in shared or peripheral code",
         7:" and, in round 7 (one change per agent), for two cooperating sites that each look fine alone, faults that need a particular multi-step sequence (second use of a resource after a full cycle, a command arriving in the callback in which something else finishes), faults that need a particular alignment (a tween ending exactly at a chunk end, a loop end equal to the data length, a ring-buffer wrap, a tick on the last frame of a callback) and faults at a particular fault point (capacity exhausted, decoder error at a particular moment, a resource removed while another refers to it)",
         8:" and, in round 8 (one change per agent), for changes a randomised API tester would very probably not hit: a combination of two or three features that are each common but rarely used together, or a specific second-order situation (the same command twice, a command restoring the value a tween is leaving, the last free slot, the exact frame on which something ends, a handle dropped while its command is unread, a re-used id)"}
rows=[]; bad=[]
tag='r%d'%rnd
for name in sorted(os.listdir('/verif/seeded')):
    d='/verif/seeded/'+name
    if not os.path.isdir(d) or tag not in name: continue
    ID=name[:3]
    notes=open(d+'/notes.md').read()
    def sect(patterns):
        for p in patterns:
            m=re.search(p+r'(.*?)(?=\n\*\*|\n## |\n# |\Z)',notes,re.S|re.I)
            if m: return ' '.join((m.group(0)).split())[:1500]
        return ''
    change=sect([r'\*\*Change', r'## What was changed[^\n]*', r'## What[^\n]*', r'## Change[^\n]*', r'# [^\n]*']) or ' '.join(notes.split())[:600]
    needs=sect([r'\*\*(What is needed|Needed to manifest|What is needed to manifest|Needs)[^\n]*', r'\*\*What[^\n]*manifest', r'## What is needed[^\n]*', r'## Needed[^\n]*', r'(?i)## [^\n]*manifest[^\n]*', r'(?i)\*\*[^\n]*manifest[^\n]*', r'(?i)## [^\n]*needs[^\n]*'])
    c=conf.get(name); r=res.get(name)
    meta={"property":ID,"round":rnd,
     "origin":"written by a fresh sub-agent that was given only the property text and a scratch git worktree of /repo under /tmp (nothing from /verif); worktree removed afterwards — each agent was asked for "+("one change" if rnd>=7 else "two independent changes (A, B)")+flavour.get(rnd,''),
     "change":change,"needs_to_manifest":needs,
     "files":{"patch":"patch.diff","demonstration":"demo.rs (an integration test for crates/kira/tests/)","notes":"notes.md (the sub-agent's own report)"},
     "confirmed_by_me":{"how":"tools/confirm_seed.sh %s <dir> — scratch worktree of /repo HEAD under /tmp: demo without the change, git apply patch.diff, demo with the change, then `cargo test --workspace --no-fail-fast --offline` with the change and the demo moved aside; worktree and its build output removed"%name,
        "repo_head":head,"demo_passes_without_change":bool(c and c[1]=='1'),"demo_fails_with_change":bool(c and c[2]=='1'),
        "pinned_suite_with_change":{"passed":int(c[3]) if c else None,"failed":int(c[4]) if c else None}},
     "checked_with":{"how":"tools/seed_matrix_sandbox.sh (scratch copy of /repo HEAD in /tmp/mrepo with the patch applied, scratch copy of /verif pointed at it, ./check %s quick) — /repo itself untouched"%ID,
        "exit_code":int(r[1].split('=')[1]) if r and '=' in r[1] else None,"violation_lines":int(r[2].split('=')[1]) if r else None,"wall":r[3] if r else None,
        "first_violation":r[4] if r else None,"caught_by_own_check":bool(r and r[1]=='check rc=1'),"missed_at_first":name in missed}}
    if name in caught_by_other: meta['checked_with']['also_caught_by']=caught_by_other[name]
    json.dump(meta,open(d+'/meta.json','w'),indent=1)
    if not (c and c[1]=='1' and c[2]=='1' and c[3]=='94' and c[4]=='0'): bad.append(name)
    short=' '.join((change or '').replace('**Change**','').replace('|','/').split())[:190]
    cw=meta['checked_with']
    rows.append("| %s | %s | %s | %s |"%(name,short,('yes' if cw['caught_by_own_check'] else 'NO')+(' (missed at first)' if cw['missed_at_first'] else ''),(cw['first_violation'] or '')[:130].replace('|','/')))
names=sorted(n for n in os.listdir('/verif/seeded') if os.path.isdir('/verif/seeded/'+n) and n.startswith('C'))
open('/verif/seeded/RESULTS.tsv','w').write('\n'.join('\t'.join(res[n]) if n in res else n+'\t(no result)' for n in names)+'\n')
print('\n'.join(rows))
print('SEEDS',len(names),'UNCONFIRMED',bad,file=sys.stderr)
