#!/usr/bin/env python3
"""Regenerates /verif/MANIFEST.json from checks_meta.py (keeps it valid at all times)."""
import json, os, sys
ROOT = os.path.dirname(os.path.dirname(os.path.abspath(__file__)))
sys.path.insert(0, ROOT)
from checks_meta import META
props = [json.loads(l) for l in open(os.path.join(ROOT, "properties.jsonl"))]
NA = {}
if os.path.exists(os.path.join(ROOT, "not_applicable.json")):
    NA = json.load(open(os.path.join(ROOT, "not_applicable.json")))
hooks_commits = []
try:
    import subprocess
    out = subprocess.run(["git", "-C", "/repo", "log", "--format=%H %s"], capture_output=True, text=True).stdout
    hooks_commits = [l.split()[0] for l in out.splitlines() if "verif hook" in l]
except Exception:
    pass
checks = []
na = []
for p in props:
    pid = p["id"]
    if pid in META:
        m = META[pid]
        engines = sorted({s["engine"] for t in ("quick", "thorough") for s in m[t]})
        checks.append(dict(
            property_id=pid,
            quick_cmd=f"./check {pid} quick",
            thorough_cmd=f"./check {pid} thorough",
            evidence_file=f"/verif/evidence/{pid}.json",
            replay_cmd_template=f"./check {pid} --replay {{path}}",
            engine="+".join(engines),
            level_claimed=dict(category=m["level"], text=m["level_text"], design_ref=m.get("design_ref", "")),
            level_note=m["level_note"],
            technique=m["technique"],
        ))
    else:
        na.append(dict(property_id=pid, reason=NA.get(pid, "check not built yet in this round; no claim is made")))
man = dict(
    version=1,
    setup_cmd="./check setup",
    hooks=dict(
        guard="cargo feature verif-hooks (crates/kira/Cargo.toml)",
        enable="harness/Cargo.toml depends on kira with features=[\"verif-hooks\"]; ./check rebuilds the harness (and kira) from /repo's working tree",
        baseline_off_cmd="cd /repo && cargo test --workspace --no-fail-fast --offline",
        source_commits=hooks_commits,
        add_only=True,
    ),
    engines=[
        dict(name="native-rel", path="harness (cargo build --release)", serves_properties=sorted(META.keys()), kind_free_text="real kira code, release build, monitors + oracles in-process"),
        dict(name="native-dev", path="harness (cargo build, overflow checks + debug assertions)", serves_properties=[k for k in sorted(META) if any(s["engine"]=="native-dev" for t in ("quick","thorough") for s in META[k][t])], kind_free_text="same workloads with arithmetic overflow checks"),
        dict(name="asan", path="harness (nightly -Zsanitizer=address)", serves_properties=[k for k in sorted(META) if any(s["engine"]=="asan" for t in ("quick","thorough") for s in META[k][t])], kind_free_text="AddressSanitizer"),
        dict(name="tsan", path="harness (nightly -Zsanitizer=thread -Zbuild-std)", serves_properties=[k for k in sorted(META) if any(s["engine"]=="tsan" for t in ("quick","thorough") for s in META[k][t])], kind_free_text="ThreadSanitizer"),
        dict(name="miri", path="harness (cargo +nightly miri run)", serves_properties=[k for k in sorted(META) if any(s["engine"]=="miri" for t in ("quick","thorough") for s in META[k][t])], kind_free_text="Miri UB + data-race interpreter"),
    ],
    checks=checks,
    not_applicable=na,
    notes="Technique family: runtime monitoring and sanitizers. Known findings: /verif/known_findings.json. See DESIGN.md.",
)
json.dump(man, open(os.path.join(ROOT, "MANIFEST.json"), "w"), indent=1)
print("checks:", [c["property_id"] for c in checks], "not_applicable:", len(na))
