#!/bin/bash
# usage: seed_matrix_sandbox.sh [seed dirs...] — runs every seeded change against its property's quick check in the
# scratch sandbox (tools/mutant_sandbox.sh: /tmp/mrepo + /tmp/mverif; /repo is never touched); appends to seeded/RESULTS.tsv
cd /verif
DIRS="${@:-$(ls -d /verif/seeded/C*/)}"
for d in $DIRS; do
  name=$(basename $d); ID=${name:0:3}
  t0=$(date +%s)
  out=$(LINES_MAX=400 COLS_MAX=260 /verif/tools/mutant_sandbox.sh $d/patch.diff $ID quick 2>&1)
  t1=$(date +%s)
  rc=$(echo "$out" | grep -o "check rc=[0-9]*" | tail -1)
  n=$(echo "$out" | grep -c "^VIOLATION")
  first=$(echo "$out" | grep -m1 "^  what:" | cut -c9-260 | tr '\t' ' ')
  echo -e "$name\t$rc\tviolation_lines=$n\t$((t1-t0))s\t$first"
done
