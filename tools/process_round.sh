#!/bin/bash
# usage: process_round.sh <round-dir> <suffix> [IDs...] — for every <round-dir>/wt-<ID>/_seed/{A,B}: copy patch/demo/notes to
# <round-dir>/out/<ID><suffix>{A,B} and run the property's quick check against the patch in the scratch sandbox.
RD="$1"; SUF="$2"; shift 2
IDS="${@:-$(ls -d $RD/wt-C* 2>/dev/null | sed 's#.*/wt-##')}"
mkdir -p $RD/out
for id in $IDS; do
  for v in A B; do
    src=$RD/wt-$id/_seed/$v
    [ -f $src/patch.diff ] || { echo -e "$id$SUF$v\tMISSING"; continue; }
    d=$RD/out/$id$SUF$v; mkdir -p $d; cp $src/patch.diff $src/demo.rs $src/notes.md $d/ 2>/dev/null
    out=$(LINES_MAX=400 COLS_MAX=260 /verif/tools/mutant_sandbox.sh $d/patch.diff $id quick 2>&1)
    rc=$(echo "$out" | grep -o "check rc=[0-9]*" | tail -1)
    n=$(echo "$out" | grep -c "^VIOLATION")
    first=$(echo "$out" | grep -m1 "^  what:" | cut -c9-240 | tr '\t' ' ')
    echo -e "$id$SUF$v\t$rc\tviolation_lines=$n\t$first"
  done
done
