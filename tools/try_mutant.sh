#!/bin/bash
# usage: try_mutant.sh <patch-file> <ID> [tier]  — applies a patch to /repo, runs the check, reverts.
set -u
P="$1"; ID="$2"; TIER="${3:-quick}"
cd /repo && git apply "$P" || { echo "patch does not apply"; exit 3; }
cd /verif && ./check "$ID" "$TIER" 2>&1 | grep -E "VIOLATION|what:|KNOWN|\[check\] $ID" | head -${LINES_MAX:-8}
rc=${PIPESTATUS[0]}
cd /repo && git checkout -- . && git status --short | head -3
echo "check rc=$rc"
