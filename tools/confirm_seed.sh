#!/bin/bash
# usage: confirm_seed.sh <ID> <dir-with patch.diff demo.rs notes.md>
# Confirms a seeded change in a scratch worktree: applies, builds, pinned suite passes, demo fails with / passes without.
set -u
ID="$1"; SRC="$2"
WT=/tmp/confirm-wt-$ID
git -C /repo worktree remove --force $WT 2>/dev/null
git -C /repo worktree add -q --detach $WT HEAD || exit 3
cp /repo/Cargo.lock $WT/Cargo.lock
mkdir -p $WT/crates/kira/tests
cp "$SRC/demo.rs" $WT/crates/kira/tests/seeded_$ID.rs
cd $WT
echo "== demo WITHOUT the change"
cargo test -p kira --offline --test seeded_$ID 2>&1 | grep -E "^test result|error(\[|:)" | head -3
A=$(cargo test -p kira --offline --test seeded_$ID 2>&1 | grep -c "test result: ok")
git apply "$SRC/patch.diff" || { echo "PATCH DOES NOT APPLY"; exit 3; }
echo "== demo WITH the change"
cargo test -p kira --offline --test seeded_$ID 2>&1 | grep -E "^test result|error(\[|:)" | head -3
B=$(cargo test -p kira --offline --test seeded_$ID 2>&1 | grep -c "test result: FAILED")
echo "== pinned suite WITH the change (demo moved aside)"
mv crates/kira/tests/seeded_$ID.rs /tmp/seeded_$ID.rs.aside
cargo test --workspace --no-fail-fast --offline 2>&1 | grep -E "^test result" | awk '{p+=$4; f+=$6} END {print "passed="p" failed="f}'
C=$(cargo test --workspace --no-fail-fast --offline --lib --tests 2>&1 | grep -E "^test result" | awk '{p+=$4; f+=$6} END {print p":"f}')
rm -f /tmp/seeded_$ID.rs.aside
cd /; git -C /repo worktree remove --force $WT
echo "SUMMARY id=$ID demo_passes_without=$A demo_fails_with=$B suite_with_change(pass:fail)=$C"
