#!/bin/bash
# usage: seed_matrix.sh [IDs...] — applies each seeded change to /repo, runs that property's quick check, reverts; writes seeded/RESULTS.tsv
cd /verif
IDS="${@:-C01 C02 C03 C04 C05 C06 C07 C08 C09 C10 C11 C12 C13 C14 C15 C16 C17 C18 C19}"
for ID in $IDS; do
  git -C /repo diff --quiet || { echo "/repo working tree is dirty"; exit 3; }
  git -C /repo apply /verif/seeded/$ID/patch.diff || { echo -e "$ID\tPATCH-DOES-NOT-APPLY"; continue; }
  t0=$(date +%s)
  out=$(./check $ID quick 2>&1); rc=$?
  t1=$(date +%s)
  git -C /repo checkout -- .
  n=$(echo "$out" | grep -c "^VIOLATION")
  first=$(echo "$out" | grep -m1 "^  what:" | cut -c9-260 | tr '\t' ' ')
  echo -e "$ID\trc=$rc\tviolation_lines=$n\t$((t1-t0))s\t$first"
done
